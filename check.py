#!/usr/bin/env python3
"""check.py <PROPERTY> [--tier quick|thorough] [--replay PATH]

Decides one property of /repo by static analysis of its current sources.
exit 0: held on everything analysed; exit 1 + 'VIOLATION property=<id> replay=<path>': a finding not listed in
known_findings.json; exit 2: the analysis itself could not complete (ANALYSIS-ERROR / ANALYSIS-INCOMPLETE) - never a verdict.
"""
import importlib
import json
import time
import os
import sys
import traceback

HERE = os.path.dirname(os.path.abspath(__file__))
sys.path.insert(0, HERE)


def main(argv):
    args = [a for a in argv if not a.startswith("--")]
    if not args:
        print(__doc__)
        return 2
    prop = args[0].upper()
    tier = os.environ.get("VERIF_TIER", "quick")
    if "--tier" in argv:
        tier = argv[argv.index("--tier") + 1]
    if tier not in ("quick", "thorough"):
        tier = "quick"
    if "--replay" in argv:
        path = argv[argv.index("--replay") + 1]
        try:
            with open(path) as f:
                d = json.load(f)
            print("replaying %d recorded finding(s) of %s by re-running the check on the current tree:" % (len(d.get("findings", [])), prop))
            for x in d.get("findings", []):
                print("   recorded:", x.get("where"), x.get("rule"), x.get("instance"), ":", x.get("msg"))
        except Exception as e:
            print("cannot read replay file: %s" % e)
    from sa.report import Report
    from sa.frontend import AnchorMissing
    from sa.casadi_model import Unsupported, InterpRaise
    rep = Report(prop, tier)
    try:
        try:
            import casadi  # noqa: F401
            casadi_importable = True
        except Exception:
            casadi_importable = False
        mod = importlib.import_module("sa.rules.%s" % prop.lower())
        from sa.engine import World
        w = World()
        rep.analysed = {"files": w.fe.summary(), "counts": w.fe.counts(), "casadi_importable_in_checker": casadi_importable,
                        "python": sys.version.split()[0]}
        import sa.decide
        if tier == "thorough" and "VERIF_DECISION_SECONDS" not in os.environ:
            sa.decide.DECISION_SECONDS = 180.0
        from sa.poly import CFG, BudgetExceeded
        budget_s = float(os.environ.get("VERIF_BUDGET_SECONDS", "600" if tier == "quick" else "5400"))
        CFG.budget = time.process_time() + budget_s
        try:
            mod.run(w, rep, tier)
        except BudgetExceeded:
            # the clean tree needs well under a tenth of this; a program that makes the value numbers explode gets no verdict
            # on what was not reached, the findings made so far stand
            rep.rule("budget", "CPU-time budget of the whole check (%d s, VERIF_BUDGET_SECONDS)" % budget_s)
            rep.incomplete("budget", "all rules of %s are evaluated within the budget" % prop, "budget exhausted while evaluating the rules: the remaining obligations were not reached")
        finally:
            CFG.budget = None
        rep.analysed["interpreter_calls"] = w.it.calls
        rep.analysed["interpreter_steps"] = w.it.steps
        from sa.decide import STATS
        rep.analysed["decisions"] = dict(STATS, slowest_s=round(STATS["slowest_s"], 2))
        return rep.finish()
    except AnchorMissing as e:
        print("ANALYSIS-ERROR: anchor missing: %s" % e)
        return 2
    except Unsupported as e:
        print("ANALYSIS-INCOMPLETE: %s (line %s of %s)" % (e, getattr(e.node, "lineno", "?"), e.module))
        return 2
    except InterpRaise as e:
        print("ANALYSIS-ERROR: uncaught abstract exception outside any rule: %s (line %s of %s)" % (e, getattr(e.node, "lineno", "?"), e.module))
        return 2
    except ModuleNotFoundError as e:
        print("ANALYSIS-ERROR: no rules for %s (%s)" % (prop, e))
        return 2
    except Exception:
        print("ANALYSIS-ERROR: internal error of the checker")
        traceback.print_exc(file=sys.stdout)
        return 2


if __name__ == "__main__":
    try:
        code = main(sys.argv[1:])
        sys.stdout.flush()
    except BrokenPipeError:
        code = 2
    sys.exit(code)
