"""Self-test corpus for the checkers (development tool, not a registered check).

Each entry edits a scratch copy of /repo's cyecca/ and scripts/ directories by exact text replacement.
  kind 'mutant': a single-site breaking change; `expect` lists the properties whose check must exit 1.
  kind 'benign': a behaviour-preserving edit; every check listed in `props` (default: the ones touching that file) must exit 0.
"""
SO3 = "cyecca/lie/group_so3.py"
SE3 = "cyecca/lie/group_se3.py"
SE23 = "cyecca/lie/group_se23.py"
SE2 = "cyecca/lie/group_se2.py"
SO2 = "cyecca/lie/group_so2.py"
RN = "cyecca/lie/group_rn.py"
DP = "cyecca/lie/direct_product.py"
SYM = "cyecca/symbolic.py"
UTIL = "cyecca/util.py"
MRP = "cyecca/estimate/attitude/algorithms/mrp.py"
SIM = "cyecca/estimate/attitude/algorithms/sim.py"
EST = "cyecca/estimate/attitude/estimator.py"
SIMU = "cyecca/estimate/attitude/simulator.py"
RDD2 = "cyecca/models/rdd2.py"
LOGL = "cyecca/models/rdd2_loglinear.py"
BEZ = "cyecca/models/bezier.py"
MRT = "cyecca/models/mr_ref_traj.py"
QUAD = "cyecca/models/quadrotor.py"
CG = "cyecca/codegen.py"
ALG = "cyecca/estimate/attitude/algorithms/__init__.py"
UROS = "cyecca/sim/uros.py"
SCRIPT = "scripts/rdd2_sim.py"


def M(id, file, old, new, expect, note=""):
    return {"id": id, "kind": "mutant", "file": file, "old": old, "new": new, "expect": expect, "note": note}


def B(id, file, old, new, props, note=""):
    return {"id": id, "kind": "benign", "file": file, "old": old, "new": new, "props": props, "note": note}


CORPUS = [
    # ---- Lie groups
    M("m01a-quat-product-sign", SO3, "q[1] * p[0] + q[0] * p[1] - q[3] * p[2] + q[2] * p[3]", "q[1] * p[0] + q[0] * p[1] + q[3] * p[2] + q[2] * p[3]", ["C01"]),
    M("m01b-quat-product-swap", SO3, "q[3] * p[0] - q[2] * p[1] + q[1] * p[2] + q[0] * p[3]", "q[3] * p[0] - q[1] * p[2] + q[2] * p[1] + q[0] * p[3]", ["C01"]),
    M("m02-quat-inverse", SO3, "return self.elem(param=ca.vertcat(q[0], -q[1], -q[2], -q[3]))", "return self.elem(param=ca.vertcat(q[0], -q[1], q[2], -q[3]))", ["C01"]),
    M("m03-quat-to-matrix", SO3, "        R[1, 0] = 2 * (bc + ad)\n        R[1, 1] = aa + cc - bb - dd\n        R[1, 2] = 2 * (cd - ab)\n        R[2, 0] = 2 * (bd - ac)\n        R[2, 1] = 2 * (cd + ab)\n        R[2, 2] = aa + dd - bb - cc\n        return R",
      "        R[1, 0] = 2 * (bc - ad)\n        R[1, 1] = aa + cc - bb - dd\n        R[1, 2] = 2 * (cd - ab)\n        R[2, 0] = 2 * (bd - ac)\n        R[2, 1] = 2 * (cd + ab)\n        R[2, 2] = aa + dd - bb - cc\n        return R", ["C01"]),
    M("m04a-se3-product-rot", SE3, "R = self.SO3.elem(left.param[3:]).to_Matrix()\n        v = R @ right.param[:3] + left.param[:3]", "R = self.SO3.elem(right.param[3:]).to_Matrix()\n        v = R @ right.param[:3] + left.param[:3]", ["C01"]),
    M("m04b-se3-product-drop", SE3, "v = R @ right.param[:3] + left.param[:3]", "v = R @ right.param[:3]", ["C01"]),
    M("m05-se23-product-pv", SE23, "v = left.v + left.R @ right.v", "v = left.v + left.R @ right.p", ["C01"]),
    M("m06-se23-tomatrix-cols", SE23, "ca.horzcat(arg.R.to_Matrix(), arg.v.param, arg.p.param),\n            ca.horzcat(ca.SX(2, 3), ca.SX.eye(2)),", "ca.horzcat(arg.R.to_Matrix(), arg.p.param, arg.v.param),\n            ca.horzcat(ca.SX(2, 3), ca.SX.eye(2)),", ["C01"]),
    M("m07-dp-subparam", DP, "    def sub_param(self, i: int, param: PARAM_TYPE) -> ca.SX:\n        start = self.subparam_start[i]\n        stop = start + self.groups[i].n_param", "    def sub_param(self, i: int, param: PARAM_TYPE) -> ca.SX:\n        start = self.subparam_start[i]\n        stop = start + self.groups[i].n_param + 1", ["C01"]),
    M("m08a-dcm-exp-coeff-swap", SO3, "return self.from_Matrix(ca.SX.eye(3) + C1 * X + C2 * X @ X)", "return self.from_Matrix(ca.SX.eye(3) + C2 * X + C1 * X @ X)", ["C02"]),
    M("m08b-dcm-exp-plain-series", SO3, 'C1 = SQUARED_SERIES["sin(x)/x"](theta_sq)\n        C2 = SQUARED_SERIES["(1 - cos(x))/x^2"](theta_sq)', 'C1 = SERIES["sin(x)/x"](theta_sq)\n        C2 = SQUARED_SERIES["(1 - cos(x))/x^2"](theta_sq)', ["C02"]),
    M("m08c-dcm-exp-sqrt", SO3, 'C1 = SQUARED_SERIES["sin(x)/x"](theta_sq)\n        C2 = SQUARED_SERIES["(1 - cos(x))/x^2"](theta_sq)', 'C1 = SERIES["sin(x)/x"](ca.sqrt(theta_sq))\n        C2 = SQUARED_SERIES["(1 - cos(x))/x^2"](theta_sq)', ["C06"]),
    M("m09a-quat-exp-arg", SO3, 'A = SQUARED_SERIES["sin(x)/x"](theta_sq / 4) / 2', 'A = SQUARED_SERIES["sin(x)/x"](theta_sq / 2) / 2', ["C02"]),
    M("m09b-quat-exp-half", SO3, 'A = SQUARED_SERIES["sin(x)/x"](theta_sq / 4) / 2', 'A = SQUARED_SERIES["sin(x)/x"](theta_sq / 4)', ["C02"]),
    M("m10-mrp-exp-noshadow", SO3, "        V = self.elem(param=A * v)\n        self.shadow_if_necessary(arg=V)\n        return V", "        V = self.elem(param=A * v)\n        return V", ["C03"]),
    M("m11a-shadow-cond", SO3, "param = ca.if_else(ca.dot(param, param) > 1, shadow_param, param)", "param = ca.if_else(ca.dot(param, param) < 1, shadow_param, param)", ["C03", "C02"]),
    M("m11b-shadow-sign", SO3, "shadow_param = -param / n_sq", "shadow_param = param / n_sq", ["C02", "C03"]),
    M("m12-dcm-log-guard", SO3, "theta = ca.if_else(e1 > 1, 0, ca.if_else(e1 < -1, ca.pi, ca.acos(e1)))", "theta = ca.if_else(e1 > 1, 0, ca.acos(e1))", ["C03"]),
    M("m13-quat-log-nocanon", SO3, "        q = ca.if_else(q[0] < 0, -q, q)  # q and -q are the same rotation\n", "", ["C03", "C15"]),
    M("m14a-se3-ad-swap", SE3, "horz1 = ca.horzcat(w, vx)\n        horz2 = ca.horzcat(ca.SX(3, 3), w)", "horz1 = ca.horzcat(w, ca.SX(3, 3))\n        horz2 = ca.horzcat(vx, w)", ["C04"]),
    M("m14b-se23-ad-swap", SE23, "ca.horzcat(Omega, Z3, v_b_x),\n            ca.horzcat(Z3, Omega, a_b_x),", "ca.horzcat(Omega, Z3, a_b_x),\n            ca.horzcat(Z3, Omega, v_b_x),", ["C04"]),
    M("m15a-se23-Ad-order", SE23, "ca.horzcat(R, Z3, px @ R), ca.horzcat(Z3, R, vx @ R), ca.horzcat(Z3, Z3, R)", "ca.horzcat(R, Z3, R @ px), ca.horzcat(Z3, R, vx @ R), ca.horzcat(Z3, Z3, R)", ["C04"]),
    M("m15b-se23-Ad-times", SE23, "ca.horzcat(R, Z3, px @ R), ca.horzcat(Z3, R, vx @ R), ca.horzcat(Z3, Z3, R)", "ca.horzcat(R, Z3, ca.times(px, R)), ca.horzcat(Z3, R, vx @ R), ca.horzcat(Z3, Z3, R)", ["C04"]),
    M("m16-se3-bracket-vee", SE3, "param=ca.vertcat(c[0, 3], c[1, 3], c[2, 3], c[2, 1], c[0, 2], c[1, 0])", "param=ca.vertcat(c[0, 3], c[1, 3], c[2, 3], c[1, 2], c[0, 2], c[1, 0])", ["C04"]),
    M("m17a-so3-Jr-sign", SO3, "return ca.SX.eye(3) - A * X + B * (X @ X)", "return ca.SX.eye(3) + A * X + B * (X @ X)", ["C05"]),
    M("m17b-se3-Jr-leftQ", SE3, "        Qr = arg.right_Q()\n        R = arg.Omega.right_jacobian()\n        Z = ca.SX.zeros(3, 3)\n        Jr =", "        Qr = arg.left_Q()\n        R = arg.Omega.right_jacobian()\n        Z = ca.SX.zeros(3, 3)\n        Jr =", ["C05"]),
    M("m18a-leftQ-coeff", SE3, "Ql += Coeff[2] * (O_sq @ V + V @ O_sq)\n        Ql += Coeff[3] * (O @ V @ O_sq + O_sq @ V @ O)", "Ql += Coeff[3] * (O_sq @ V + V @ O_sq)\n        Ql += Coeff[2] * (O @ V @ O_sq + O_sq @ V @ O)", ["C05"]),
    M("m18b-leftQ-monomial", SE3, "Ql += Coeff[5] * (O @ V @ O)", "Ql += Coeff[5] * (O_sq @ V @ O)", ["C05"]),
    M("m19-se3-Jlinv-drop", SE3, "ca.vertcat(ca.horzcat(R_inv, -R_inv @ Ql @ R_inv), ca.horzcat(Z, R_inv))", "ca.vertcat(ca.horzcat(R_inv, -R_inv @ Ql), ca.horzcat(Z, R_inv))", ["C05"]),
    M("m20a-quat-rightjac-side", SO3, "q_dot_right = (arg * qw).param / 2", "q_dot_right = (qw * arg).param / 2", ["C05", "C16"]),
    M("m20b-quat-rightjac-factor", SO3, "q_dot_right = (arg * qw).param / 2", "q_dot_right = (arg * qw).param / 4", ["C05"], "C16 only states norm preservation, which still holds"),
    M("m21a-shepperd-selector", SO3, "ca.if_else(R[1, 1] > R[2, 2], q3, q4),", "ca.if_else(R[1, 1] > R[2, 2], q4, q3),", ["C07"]),
    M("m21b-shepperd-sign", SO3, "q2[2] = (R[0, 1] + R[1, 0]) / (4 * b2)", "q2[2] = (R[0, 1] - R[1, 0]) / (4 * b2)", ["C07"]),
    M("m22a-mrp-fromquat-noshadow", SO3, "        X = self.elem(param=x)\n        self.shadow_if_necessary(X)\n        return X", "        X = self.elem(param=x)\n        return X", ["C07", "C03"]),
    M("m22b-dcm-frommrp-transpose", SO3, "        # return transpose, due to convention difference in book\n        return self.from_Matrix(R.T)", "        # return transpose, due to convention difference in book\n        return self.from_Matrix(R)", ["C07"]),
    M("m23a-euler-pitch-slot", SO3, "cond2, ca.vertcat(psi2, theta, phi2), ca.vertcat(psi3, theta, phi3)", "cond2, ca.vertcat(psi2, theta, phi2), ca.vertcat(psi3, phi3, theta)", ["C07"]),
    M("m24a-expmixed-cols", SE23, "return self.elem(ca.vertcat(P1[:, 1], P1[:, 0], R1.param))", "return self.elem(ca.vertcat(P1[:, 0], P1[:, 1], R1.param))", ["C08"]),
    M("m24b-expmixed-order", SE23, "R1 = Rr0 * Rl", "R1 = Rl * Rr0", ["C08"]),
    M("m24c-expmixed-Bsign", SE23, "Pr = self.calculate_N(r, -B)", "Pr = self.calculate_N(r, B)", ["C08"]),
    M("m25a-strapdown-nodt", RDD2, "X1 = lie.SE23Quat.exp_mixed(X0, l * dt, r * dt, B * dt)", "X1 = lie.SE23Quat.exp_mixed(X0, l * dt, r, B * dt)", ["C08"]),
    M("m25b-strapdown-swap", RDD2, "l = lie.se23.elem(ca.vertcat(0, 0, 0, a_b, omega_b))", "l = lie.se23.elem(ca.vertcat(0, 0, 0, omega_b, a_b))", ["C08"]),
    M("m25c-strapdown-gsign", RDD2, "r = lie.se23.elem(ca.vertcat(0, 0, 0, 0, 0, -g, 0, 0, 0))", "r = lie.se23.elem(ca.vertcat(0, 0, 0, 0, 0, g, 0, 0, 0))", ["C08"]),
    # ---- numerics, estimator
    M("m26a-rk4-weight", UTIL, "return ca.simplify(y + (k1 + 2 * k2 + 2 * k3 + k4) / 6)", "return ca.simplify(y + (k1 + k2 + 3 * k3 + k4) / 6)", ["C10"]),
    M("m26b-rk4-stage", UTIL, "k3 = h * f(t + h / 2, y + k2 / 2)", "k3 = h * f(t + h, y + k2 / 2)", ["C10"]),
    M("m27-sqrtcorrect-block", UTIL, "Wp = B_R[n_y:, n_y:]", "Wp = B_R[:n_x, :n_x]", ["C10"]),
    M("m27b-ldl-bound", UTIL, "            for k in range(0, j):\n                T -= L[i, k] * L[j, k] * D[k, k]", "            for k in range(0, j - 1):\n                T -= L[i, k] * L[j, k] * D[k, k]", ["C10"]),
    M("m28a-mag-gate-swap", MRP, "x_mag = ca.if_else(mag_ret == 0, x_mag, x)", "x_mag = ca.if_else(mag_ret == 0, x, x_mag)", ["C11"]),
    M("m28b-mag-write-after-gate", MRP, "    W_mag = ca.if_else(mag_ret == 0, W_mag, W)\n", "    W_mag = ca.if_else(mag_ret == 0, W_mag, W)\n    W_mag[0, 0] = 2 * W_mag[0, 0]\n", ["C11"]),
    M("m29-init-leaf", MRP, "ca.if_else(B_norm <= 0, 2, ca.if_else(theta < 10 * deg2rad, 3, 0)),", "ca.if_else(B_norm <= 0, 0, ca.if_else(theta < 10 * deg2rad, 3, 0)),", ["C11"]),
    M("m30a-predict-noshadow", MRP, "    r1 = SO3Mrp.elem(x1[:3])\n    SO3Mrp.shadow_if_necessary(r1)\n    x1[:3] = r1.param\n\n    # error dynamics", "    # error dynamics", ["C11"]),
    M("m30b-predict-notril", MRP, "[ca.tril(util.sqrt_covariance_predict(W, F, Q))],", "[util.sqrt_covariance_predict(W, F, Q)],", ["C11"]),
    M("m31-accel-pin-bias", MRP, "    x_accel = ca.sparsify(x_accel)", "    x_accel[4] = x[4]\n    x_accel = ca.sparsify(x_accel)", ["C12"]),
    M("m32a-sim-arity", SIMU, 'self.eqs["sim"]["measure_accel"](\n                        x, self.g.get(), self.std_accel.get(), w_accel\n                    )', 'self.eqs["sim"]["measure_accel"](\n                        x, self.g.get(), w_accel\n                    )', ["C12"]),
    M("m32b-est-field", EST, 'omega = msg.data["gyro"]', 'omega = msg.data["gyr"]', ["C20"]),
    M("m32c-sim-accel-sign", SIM, "[C_nb.inverse() @ (-g * e3) + w_accel * std_accel],", "[C_nb.inverse() @ (g * e3) + w_accel * std_accel],", ["C12"]),
    # ---- models
    M("m33a-alloc-nologic", RDD2, "    saturation_logic = True\n", "    saturation_logic = False\n", ["C13"]),
    M("m33b-alloc-omega", RDD2, "omega = ca.sqrt(Fp_sum / Ct)", "omega = ca.sqrt(F_sum / Ct)", ["C13"]),
    M("m33c-alloc-Asign", RDD2, "1 / n_motors, 1 / (n_motors * l), -1 / (n_motors * l), 1 / (n_motors * Cm)", "1 / n_motors, 1 / (n_motors * l), 1 / (n_motors * l), 1 / (n_motors * Cm)", ["C13", "C17"]),
    M("m33d-alloc-strict", RDD2, "            C1 >= 0,\n            ca.if_else(C2 >= 0, F_thrust, F_thrust - C2),\n            ca.if_else(C2 >= 0, F_thrust + C1,", "            C1 > 0,\n            ca.if_else(C2 > 0, F_thrust, F_thrust - C2),\n            ca.if_else(C2 > 0, F_thrust + C1,", ["C13"]),
    M("m34-saturate-arm", RDD2, "return ca.if_else(x > x_max, x_max, ca.if_else(x < x_min, x_min, x))", "return ca.if_else(x > x_max, x_min, ca.if_else(x < x_min, x_min, x))", ["C13", "C15"]),
    M("m35a-pos-cross", RDD2, "    xB = ca.cross(yB, zB)\n\n    # desired attitude matrix\n    Rd_wb = ca.horzcat(xB, yB, zB)", "    xB = ca.cross(zB, yB)\n\n    # desired attitude matrix\n    Rd_wb = ca.horzcat(xB, yB, zB)", ["C14"]),
    M("m35b-pos-nonorm", RDD2, "yB = ca.if_else(nyB > 1e-3, yB / nyB, xW)", "yB = ca.if_else(nyB > 1e-3, yB, xW)", ["C14"]),
    M("m35c-pos-colorder", RDD2, "Rd_wb = ca.horzcat(xB, yB, zB)", "Rd_wb = ca.horzcat(yB, xB, zB)", ["C14"]),
    M("m35d-pos-thrust", RDD2, "[nT, qr_wb.param, z_i_2],\n        [\"thrust_trim\", \"pt_w\"", "[p_norm, qr_wb.param, z_i_2],\n        [\"thrust_trim\", \"pt_w\"", ["C14"]),
    M("m36a-fref-qdot", BEZ, "q_dot = -m / T * ca.dot(s_e, xb_e) - ca.dot(coriolis_b, xh) - ca.dot(centrip_b, xh)", "q_dot = -m / T * ca.dot(s_e, xb_e) + ca.dot(coriolis_b, xh) - ca.dot(centrip_b, xh)", ["C14"]),
    M("m36b-mrt-Mb", MRT, "M_b = J @ omega_dot_eb_b + ca.cross(omega_eb_b, J @ omega_eb_b)", "M_b = J @ omega_dot_eb_b + ca.cross(J @ omega_eb_b, omega_eb_b)", ["C14"]),
    M("m36c-mrt-p-sign", MRT, "p = ca.dot(t2_e, yb_e)\n    q = -ca.dot(t2_e, xb_e)", "p = -ca.dot(t2_e, yb_e)\n    q = -ca.dot(t2_e, xb_e)", ["C14"]),
    M("m37a-rate-nosat", RDD2, "i1 = saturatem(i0 + e1 * dt, -i_max, i_max)", "i1 = i0 + e1 * dt", ["C15"]),
    M("m37b-rate-alpha", RDD2, "alpha = 2 * ca.pi * dt * f_cut / (2 * ca.pi * dt * f_cut + 1)", "alpha = 2 * ca.pi * dt * f_cut / (2 * ca.pi * dt * f_cut)", ["C15"]),
    M("m38a-vel-fmod", RDD2, "psi_sp1 = ca.remainder(psi_sp1, 2 * ca.pi)", "psi_sp1 = ca.fmod(psi_sp1, 2 * ca.pi)", ["C15"]),
    M("m38b-vel-leash", RDD2, "e = ca.if_else(e_norm > e_max, 2 * e / e_norm, e)", "e = ca.if_else(e_norm > e_max, 3 * e / e_norm, e)", ["C15"]),
    M("m38c-vel-reset", RDD2, "pw_sp1 = ca.if_else(reset_position, pw, pw_sp + vw_sp * dt)", "pw_sp1 = ca.if_else(reset_position, pw_sp + vw_sp * dt, pw)", ["C15"]),
    M("m39-att-order", RDD2, "e = (X.inverse() * X_r).log()  # angular velocity to get to desired att in 1 sec\n\n    omega = kp * e.param", "e = (X * X_r.inverse()).log()  # angular velocity to get to desired att in 1 sec\n\n    omega = kp * e.param", ["C15"]),
    M("m40a-quad-accel-gravity", QUAD, "    a_b = F_b / m\n\n    F_b += q_bw @ (-m * g * zAxis)  # gravity\n", "    F_b += q_bw @ (-m * g * zAxis)  # gravity\n\n    a_b = F_b / m\n", ["C16"]),
    M("m40b-quad-leftjac", QUAD, "derivative_quaternion_wb = q_wb.right_jacobian() @ omega_wb_b", "derivative_quaternion_wb = q_wb.left_jacobian() @ omega_wb_b", ["C16"]),
    M("m40c-quad-cm-sign", QUAD, "- CM * dir_motor[i] * thrust * zAxis  # moment due prop torque", "+ CM * dir_motor[i] * thrust * zAxis  # moment due prop torque", ["C16", "C17"]),
    M("m40d-quad-tau", QUAD, "omega_motor_cmd[i] - omega_motor[i] > 0, 1.0 / tau_up, 1.0 / tau_down", "omega_motor_cmd[i] - omega_motor[i] > 0, 1.0 / tau_down, 1.0 / tau_up", ["C16"]),
    M("m40e-quad-pos-dep", QUAD, "F_b = q_bw @ F_w - CD * qbar * S * wX  # drag", "F_b = q_bw @ F_w - CD * qbar * S * wX + 0.01 * position_op_w[0] * xAxis  # drag", ["C16"]),
    M("m41a-script-arity", SCRIPT, 'self.eqs["attitude_control"](k_p_att, self.q, self.q_sp)\n\n        elif self.input_mode == "velocity":', 'self.eqs["attitude_control"](k_p_att, self.q)\n\n        elif self.input_mode == "velocity":', ["C17"]),
    M("m41b-script-gain", SCRIPT, "k_p_att = np.array([5, 5, 2], dtype=float)", "k_p_att = np.array([5, -5, 2], dtype=float)", ["C17"]),
    M("m42a-bezier-deriv", BEZ, "D = (self.n - j) * ca.horzcat(", "D = (self.n) * ca.horzcat(", ["C18"]),
    M("m42b-bezier-eval", BEZ, "A[:, k] = A[:, k] * (1 - beta) + A[:, k + 1] * beta", "A[:, k] = A[:, k] * beta + A[:, k + 1] * (1 - beta)", ["C18"]),
    M("m43a-bezier7-end", BEZ, "constraints += [(B_d2.eval(T), wp_1[2])]  # accel @ wp1", "constraints += [(B_d2.eval(0), wp_1[2])]  # accel @ wp1", ["C18"]),
    M("m43b-multirotor-wiring", BEZ, "    jx = traj_x[3]\n    sx = traj_x[4]", "    jx = traj_x[4]\n    sx = traj_x[3]", ["C18"]),
    # ---- converters, codegen, bus
    M("m44a-c2s-sin", SYM, "return unary(expr, lambda a: sympy.sin(a))", "return unary(expr, lambda a: sympy.cos(a))", ["C19"]),
    M("m44b-c2s-sub", SYM, "return binary(expr, lambda a, b: a - b)", "return binary(expr, lambda a, b: b - a)", ["C19"]),
    M("m45a-s2c-float", SYM, "        return float(f)", "        return int(f)", ["C19"]),
    M("m45b-s2c-rational", SYM, "return prs(f.numerator) / prs(f.denominator)", "return prs(f.denominator) / prs(f.numerator)", ["C19"]),
    M("m46a-main-drop", RDD2, "    eqs.update(derive_input_velocity())\n    eqs.update(derive_strapdown_ins_propagation())", "    eqs.update(derive_strapdown_ins_propagation())", ["C09"]),
    M("m46b-common-samename", RDD2, '"rotate_vector_wbto_w", [q.param, vb1], [vw1], ["q", "vb1"], ["vw1"]', '"rotate_vector_w_to_b", [q.param, vb1], [vw1], ["q", "vb1"], ["vw1"]', ["C09"]),
    M("m46c-function-names-short", RDD2, '"attitude_control", [kp, q, q_r], [omega], ["kp", "q", "q_r"], ["omega"]', '"attitude_control", [kp, q, q_r], [omega], ["kp", "q"], ["omega"]', ["C09"]),
    M("m47a-codegen-break", CG, "        for f_name in eq:\n            gen.add(eq[f_name])\n", "        for f_name in eq:\n            gen.add(eq[f_name])\n            break\n", ["C09"]),
    M("m47b-codegen-withmem", CG, '    p["force_canonical"] = p["with_mem"]\n', "", ["C09"]),
    M("m48a-publish-nocheck", UROS, "        if not isinstance(msg, self.msg_type):\n            raise ValueError(\n                \"{:s} expects msg {:s}, but got {:s}\".format(\n                    self.topic, str(self.msg_type), str(type(msg))\n                )\n            )\n", "", ["C20"]),
    M("m48b-publish-break", UROS, "        for s in self.core._subscribers[self.topic]:\n            s.callback(msg)", "        for s in self.core._subscribers[self.topic]:\n            s.callback(msg)\n            break", ["C20"]),
    M("m49a-subscriber-insert", UROS, "core._subscribers[topic].append(self)", "core._subscribers[topic].insert(0, self)", ["C20"]),
    M("m49b-setparam-order", UROS, "        self._params.data[name] = value\n        self.pub_params.publish(self._params)", "        self.pub_params.publish(self._params)\n        self._params.data[name] = value", ["C20"]),
    M("m50a-est-dtguard", EST, "        if dt <= 0:\n            return\n", "", ["C20"]),
    M("m50b-est-accel-stamp", EST, "            self.t_last_accel = t\n", "", ["C20"]),
    M("m50c-est-mag-flip", EST, "if not self.initialized or t - self.t_last_mag < (", "if not self.initialized or t - self.t_last_mag > (", ["C20"]),
    # ---- benign edits (must stay silent)
    B("b01-quat-product-temps", SO3, "        q = left.param\n        p = right.param\n        return self.elem(\n            param=ca.vertcat(\n                q[0] * p[0] - q[1] * p[1] - q[2] * p[2] - q[3] * p[3],",
      "        ql = left.param\n        p = right.param\n        q = ql\n        s0 = q[0] * p[0] - q[1] * p[1] - q[3] * p[3] - q[2] * p[2]\n        return self.elem(\n            param=ca.vertcat(\n                s0,", ["C01", "C04", "C05", "C07", "C08", "C15"]),
    B("b02-quat-matrix-unit-form", SO3, "        R[0, 0] = aa + bb - cc - dd\n        R[0, 1] = 2 * (bc - ad)\n        R[0, 2] = 2 * (bd + ac)\n        R[1, 0] = 2 * (bc + ad)\n        R[1, 1] = aa + cc - bb - dd\n        R[1, 2] = 2 * (cd - ab)\n        R[2, 0] = 2 * (bd - ac)\n        R[2, 1] = 2 * (cd + ab)\n        R[2, 2] = aa + dd - bb - cc\n        return R",
      "        R[0, 0] = aa + bb - cc - dd\n        R[0, 1] = 2 * bc - 2 * ad\n        R[0, 2] = 2 * (ac + bd)\n        R[1, 0] = 2 * (bc + ad)\n        R[1, 1] = aa + cc - bb - dd\n        R[1, 2] = 2 * (cd - ab)\n        R[2, 0] = 2 * (bd - ac)\n        R[2, 1] = 2 * (cd + ab)\n        R[2, 2] = aa + dd - bb - cc\n        return R", ["C01", "C04", "C05", "C07", "C14", "C16"]),
    B("b03-so3-Jl-hoist", SO3, "        A = SQUARED_SERIES[\"(1 - cos(x))/x^2\"](theta_sq)\n        B = SQUARED_SERIES[\"(x - sin(x))/x^3\"](theta_sq)\n        return ca.SX.eye(3) + A * X + B * (X @ X)",
      "        A = SQUARED_SERIES[\"(1 - cos(x))/x^2\"](theta_sq)\n        B = SQUARED_SERIES[\"(x - sin(x))/x^3\"](theta_sq)\n        X_sq = X @ X\n        return B * X_sq + ca.SX.eye(3) + X * A", ["C02", "C05", "C06"]),
    B("b04-so3-Jr-neg", SO3, "return ca.SX.eye(3) - A * X + B * (X @ X)", "return ca.SX.eye(3) + (-A) * X + B * (X @ X)", ["C05"]),
    B("b05-saturate-fminfmax", RDD2, "return ca.if_else(x > x_max, x_max, ca.if_else(x < x_min, x_min, x))", "return ca.fmin(ca.fmax(x, x_min), x_max)", ["C13", "C15"]),
    B("b06-series-key-alias", SE23, 'C1 = SQUARED_SERIES["(1 - cos(x))/x^2"](theta_sq)\n        C2 = SQUARED_SERIES["(x - sin(x))/x^3"](theta_sq)\n        C3 = SQUARED_SERIES["(x^2/2 + cos(x) - 1)/x^4"](theta_sq)',
      'C1 = SQUARED_SERIES["(1 - cos(x))/x^2"](theta_sq)\n        C2 = SQUARED_SERIES["(x - sin(x))/x^3"](theta_sq)\n        C3 = SQUARED_SERIES["(x^2 + 2 cos(x) - 2)/(2 x^4)"](theta_sq)', ["C08", "C06"], "another key with the same formula"),
    B("b07-publish-comprehension", UROS, "        for s in self.core._subscribers[self.topic]:\n            s.callback(msg)", "        [s.callback(msg) for s in self.core._subscribers[self.topic]]", ["C20"]),
    B("b08-publish-prints", UROS, "        if self.topic not in self.core._subscribers:\n            return", "        if self.topic not in self.core._subscribers:\n            print(\"no subscribers for\", self.topic)\n            return", ["C20"]),
    B("b09-est-guard-spelling", EST, "        if dt <= 0:\n            return\n", "        if not (dt > 0):\n            return\n", ["C20"]),
    B("b10-quad-reorder", QUAD, "    derivative_quaternion_wb = q_wb.right_jacobian() @ omega_wb_b\n    derivative_position_op_w = q_wb @ velocity_w_p_b", "    derivative_position_op_w = q_wb @ velocity_w_p_b\n    derivative_quaternion_wb = q_wb.right_jacobian() @ omega_wb_b", ["C16", "C17"]),
    B("b11-pos-helper", RDD2, "    # point x using cross product of unit vectors\n    xB = ca.cross(yB, zB)\n", "    # point x using cross product of unit vectors\n    def third_axis(a, b):\n        return ca.cross(a, b)\n\n    xB = third_axis(yB, zB)\n", ["C14", "C15", "C09"]),
    B("b12-rk4-reassoc", UTIL, "return ca.simplify(y + (k1 + 2 * k2 + 2 * k3 + k4) / 6)", "return ca.simplify(y + k1 / 6 + (k2 + k3) / 3 + k4 / 6)", ["C10", "C11", "C12"]),
    B("b13-se3-product-quatrot", SE3, "        R = self.SO3.elem(left.param[3:]).to_Matrix()\n        v = R @ right.param[:3] + left.param[:3]", "        Rl = self.SO3.elem(left.param[3:])\n        v = left.param[:3] + Rl.to_Matrix() @ right.param[:3]", ["C01", "C04"]),
    B("b14-alloc-rename", RDD2, "    F_moment = A @ ca.vertcat(0, M_sat)  # motor force for moment\n    F_thrust = A @ ca.vertcat(T_sat, 0, 0, 0)  # motor force for thrust\n    F_sum = F_moment + F_thrust", "    F_moment = A @ ca.vertcat(0, M_sat)  # motor force for moment\n    F_thrust = A @ ca.vertcat(T_sat, 0, 0, 0)  # motor force for thrust\n    F_sum = F_thrust + F_moment", ["C13", "C17"]),
    B("b15-bezier-eval-temps", BEZ, "                A[:, k] = A[:, k] * (1 - beta) + A[:, k + 1] * beta", "                w0 = 1 - beta\n                A[:, k] = w0 * A[:, k] + beta * A[:, k + 1]", ["C18"]),
    B("b16-docstrings-annotations", SE23, "    def calculate_N(self, v: SE23LieAlgebraElement, B: ca.SX) -> ca.SX:\n", "    def calculate_N(self, v: SE23LieAlgebraElement, B: ca.SX) -> ca.SX:\n        \"\"\"closed-form N block\"\"\"\n", ["C08", "C06"]),
    B("b17-c2s-lambda-names", SYM, "return binary(expr, lambda a, b: a - b)", "return binary(expr, lambda lhs, rhs: lhs - rhs)", ["C19"]),
    B("b18-logger-row-temp", UROS, "            self.data_list.append(copy.deepcopy(self.data_latest.data))", "            row = copy.deepcopy(self.data_latest.data)\n            self.data_list.append(row)", ["C20"]),
    B("b19-mrp-gate-fresh-names", MRP, "    x_mag = ca.if_else(mag_ret == 0, x_mag, x)\n    W_mag = ca.if_else(mag_ret == 0, W_mag, W)", "    accepted = mag_ret == 0\n    x_mag = ca.if_else(accepted, x_mag, x)\n    W_mag = ca.if_else(accepted, W_mag, W)", ["C11", "C12"]),
    B("b20-codegen-loop-items", CG, "        for f_name in eq:\n            gen.add(eq[f_name])\n", "        for f_name, f in eq.items():\n            gen.add(f)\n", ["C09"]),
    # ---- benign rewrites met while strengthening after the seeded rounds
    B("b21-euler-band-sine-form", SO3, "            theta = ca.asin(-arg[2, 0])\n\n            cond1 = ca.fabs(theta - ca.pi / 2) < 1e-3",
      "            sin_theta = -arg[2, 0]\n            theta = ca.asin(sin_theta)\n\n            cond1 = sin_theta > ca.cos(1e-3)", ["C07", "C02", "C04", "C14", "C01"],
      "upper gimbal test written on the sine with the same half width"),
    B("b22-rdd2-mkdir-if-missing", RDD2, "    dest_dir.mkdir(exist_ok=True)\n", "    if not dest_dir.exists():\n        dest_dir.mkdir()\n", ["C09"], "branch on the file system that does not change what is generated"),
    B("b23-logger-period-local-in-loop", UROS, "            yield simpy.Timeout(self.core, self.dt.get())", "            period = self.dt.get()\n            yield simpy.Timeout(self.core, period)", ["C20"]),
    B("b24-mag-gate-elapsed-local", EST, "        if not self.initialized or t - self.t_last_mag < (\n            self.dt_min_mag.get() - self.time_eps\n        ):\n            return\n",
      "        elapsed = t - self.t_last_mag\n        if not self.initialized or elapsed < (\n            self.dt_min_mag.get() - self.time_eps\n        ):\n            return\n", ["C20", "C12"],
      "elapsed time in a local, stamp still written after the gate"),
    B("b25-mrp-log-local-norm", SO3, "        theta_sq = ca.dot(r, r)\n        A = SQUARED_SERIES[\"4 atan(x)/x\"](theta_sq)", "        n2 = ca.dot(r, r)\n        A = SQUARED_SERIES[\"4 atan(x)/x\"](n2)", ["C03"]),
    M("m-imu-skip-small-dt", EST, "        if dt <= 0:\n            return\n", "        if dt <= self.time_eps:\n            return\n", ["C12"], "IMU samples with 0 < dt <= 1 ms are dropped"),
    B("b26-imu-skip-small-dt-c20", EST, "        if dt <= 0:\n            return\n", "        if dt <= self.time_eps:\n            return\n", ["C20"],
      "the same edit is benign for C20: the step handed to predict is still positive (an earlier version of the rule raised a false alarm here)"),
    # ---- round 5: benign twins of the rules added after the fifth seeded round, and the mutants they answer
    B("b27-rate-gate-helper-method", EST, "    def mag_callback(self, msg):\n        t = msg.data[\"time\"]\n        self.last_mag = msg  # must always set, since used for init\n\n        if not self.initialized or t - self.t_last_mag < (\n            self.dt_min_mag.get() - self.time_eps\n        ):\n            return\n",
      "    def period_elapsed(self, t, t_last, dt_min):\n        return t - t_last >= (dt_min.get() - self.time_eps)\n\n    def mag_callback(self, msg):\n        t = msg.data[\"time\"]\n        self.last_mag = msg  # must always set, since used for init\n\n        if not self.initialized or not self.period_elapsed(t, self.t_last_mag, self.dt_min_mag):\n            return\n", ["C20", "C12"],
      "the rate gate moved into a helper method with the right arguments"),
    B("b28-integrator-clamp-vector-if-else", RDD2, "    i1 = saturatem(i0 + e1 * dt, -i_max, i_max)\n", "    i_raw = i0 + e1 * dt\n    i1 = ca.if_else(i_raw > i_max, i_max, ca.if_else(i_raw < -i_max, -i_max, i_raw))\n", ["C15", "C17"],
      "element-wise if_else on vectors is what CasADi does for SX"),
    B("b29-codegen-clean-stale-before-loop", CG, "    for name, eq in eqs.items():\n        filename = \"{:s}.c\".format(name)\n",
      "    for old in pathlib.Path(dest_dir).glob(\"*.[ch]\"):\n        old.unlink()\n    for name, eq in eqs.items():\n        filename = \"{:s}.c\".format(name)\n", ["C09"],
      "stale sources removed BEFORE anything is generated: every generated file survives"),
    B("b30-fromquat-sign-select", SO3, "        q = ca.if_else(arg.param[0] < 0, -arg.param, arg.param)\n        den = 1 + q[0]", "        s = ca.if_else(arg.param[0] < 0, -1, 1)\n        q = s * arg.param\n        den = 1 + q[0]", ["C07", "C03", "C01"],
      "hemisphere flip through a +-1 factor that is +1 at q0 = 0"),
    B("b31-dp-mul-copy-then-extend", DP, "        return LieGroupDirectProduct(groups=self.groups + [other])", "        groups = list(self.groups)\n        groups += [other]\n        return LieGroupDirectProduct(groups=groups)", ["C01", "C02", "C03"],
      "in-place extension of a COPY of the factor list"),
    B("b32-bezier7-mtimes", BEZ, "    A_inv = ca.inv(A)\n    P_sol = (A_inv @ b).T\n\n    functions = [\n        ca.Function(\n            \"bezier7_solve\"", "    P_sol = ca.mtimes(ca.inv(A), b).T\n\n    functions = [\n        ca.Function(\n            \"bezier7_solve\"", ["C18"]),
    B("b33-ground-damping-explicit-rotation", QUAD, "        -1000 * position_op_w[2] * zAxis - 1000 * velocity_w_p_w,", "        -1000 * position_op_w[2] * zAxis - 1000 * (q_wb @ velocity_w_p_b),", ["C16", "C17"]),
    B("b34-const-int-test-direct", SYM, "        if f_num - int_num == 0:", "        if f_num == int_num:", ["C19", "C06"]),
    B("b35-stamp-dedent-c20-holds", EST, "            self.msg_est_status.data[\"cpu_accel\"] = cpu_accel\n            self.t_last_accel = t\n", "            self.msg_est_status.data[\"cpu_accel\"] = cpu_accel\n        self.t_last_accel = t\n", ["C20"],
      "time stamp taken on every IMU message: corrections are then at least a minimum period apart, so C20's clause holds (C12's does not: m-stamp-dedent)"),
    M("m-stamp-dedent", EST, "            self.msg_est_status.data[\"cpu_accel\"] = cpu_accel\n            self.t_last_accel = t\n", "            self.msg_est_status.data[\"cpu_accel\"] = cpu_accel\n        self.t_last_accel = t\n", ["C12"]),
    M("m-mag-gate-accel-period", EST, "            self.dt_min_mag.get() - self.time_eps\n        ):\n            return\n", "            self.dt_min_accel.get() - self.time_eps\n        ):\n            return\n", ["C20"]),
    M("m-quat-inverse-sign", SO3, "return self.elem(param=ca.vertcat(q[0], -q[1], -q[2], -q[3]))", "return self.elem(param=ca.sign(q[0]) * ca.vertcat(q[0], -q[1], -q[2], -q[3]))", ["C01"], "sign(0) = 0: half turns have no inverse"),
    M("m-dp-mul-inplace", DP, "        return LieGroupDirectProduct(groups=self.groups + [other])", "        groups = self.groups\n        groups += [other]\n        return LieGroupDirectProduct(groups=groups)", ["C01"]),
    M("m-mrp-product-cross-factor", SO3, "- 2 * ca.cross(b, a)) / den", "- ca.cross(b, a)) / den", ["C01", "C04"]),
    M("m-calcN-lookalike-key", SE23, 'C3 = SQUARED_SERIES["(x^2/2 + cos(x) - 1)/x^4"](theta_sq)', 'C3 = SQUARED_SERIES["(2 - 2 cos(x) - x sin(x))/(2 x^4))"](theta_sq)', ["C08", "C06"]),
    M("m-ground-damping-body-velocity", QUAD, "        -1000 * position_op_w[2] * zAxis - 1000 * velocity_w_p_w,", "        -1000 * position_op_w[2] * zAxis - 1000 * velocity_w_p_b,", ["C16", "C17"]),
    M("m-codegen-unlink-in-loop", CG, "        dest_dir.mkdir(exist_ok=True)\n", "        dest_dir.mkdir(exist_ok=True)\n        for old in dest_dir.glob(\"*.[ch]\"):\n            old.unlink()\n", ["C09"]),
    M("m-yB-guard-on-thrust-norm", LOGL, "    yB = ca.if_else(nyB > 1e-3, yB / nyB, xW)", "    yB = ca.if_else(nT > 1e-3, yB / nyB, xW)", ["C14"]),
    M("m-fromquat-sign-product", SO3, "        q = ca.if_else(arg.param[0] < 0, -arg.param, arg.param)\n        den = 1 + q[0]", "        q = ca.sign(arg.param[0]) * arg.param\n        den = 1 + q[0]", ["C07"]),
    M("m-integrator-freeze", RDD2, "    i1 = saturatem(i0 + e1 * dt, -i_max, i_max)\n", "    i1 = i0 + e1 * dt\n    i1 = ca.if_else(ca.fabs(i1) > i_max, i0, i1)\n", ["C15"]),
    B("b36-yB-guard-complement", LOGL, "    yB = ca.if_else(nyB > 1e-3, yB / nyB, xW)", "    yB = ca.if_else(nyB <= 1e-3, xW, yB / nyB)", ["C14", "C17"], "the same guard written as its complement"),
    # ---- round 7
    M("m-r7-C3-wide-switch", SYM, '        "(x^2/2 + cos(x) - 1)/x^4": taylor_series_near_zero(\n            u, (x2 / 2 + cos_x - 1) / x4\n        ),',
      '        "(x^2/2 + cos(x) - 1)/x^4": taylor_series_near_zero(\n            u, (x2 / 2 + cos_x - 1) / x4, eps=1.0\n        ),', ["C08", "C06"], "an entry the strapdown propagation reads switches to its polynomial below 1 instead of 1e-3"),
    B("b-r7-unread-entry-for-C08", SYM, '        "x/sin(x)": taylor_series_near_zero(u, x / sin_x),', '        "x/sin(x)": taylor_series_near_zero(u, x / sin_x, order=4),', ["C08"],
      "breaks C06.table, but the propagation never reads this entry: C08.table must stay silent"),
    B("b-r7-quat-log-clamped-acos", SO3, "        theta = 2 * ca.acos(q[0])\n        A = SERIES[\"x/sin(x)\"](theta / 2)\n        omega = q[1:4] * A * 2", "        theta = 2 * ca.acos(ca.fmin(q[0], 1))\n        A = SERIES[\"x/sin(x)\"](theta / 2)\n        omega = q[1:4] * A * 2", ["C03"],
      "a clamp that never acts on the normalised scalar part, sign flip kept"),
    M("m-r7-quat-log-clamp-no-flip", SO3, "        q = ca.if_else(q[0] < 0, -q, q)  # q and -q are the same rotation\n        theta = 2 * ca.acos(q[0])", "        theta = 2 * ca.acos(ca.fmin(ca.fabs(q[0]), 1))", ["C03"], "principal angle kept, vector part not flipped for q0 < 0"),
    B("b-r7-deriv-falling-factorial", BEZ, "        for j in range(0, m):\n            D = (self.n - j) * ca.horzcat(\n                *[D[:, i + 1] - D[:, i] for i in range(self.n - j)]\n            )\n        return Bezier(D / self.T**m, self.T)", "        for j in range(0, m):\n            D = ca.horzcat(*[D[:, i + 1] - D[:, i] for i in range(self.n - j)])\n        gain = math.factorial(self.n) // math.factorial(self.n - m) if m <= self.n else 0\n        return Bezier(gain * D / self.T**m, self.T)", ["C18"], "m-th difference scaled once by n!/(n-m)! (math.factorial must be evaluated, not reported as raising)"),
    M("m-r7-deriv-binomial-gain", BEZ, "        for j in range(0, m):\n            D = (self.n - j) * ca.horzcat(\n                *[D[:, i + 1] - D[:, i] for i in range(self.n - j)]\n            )\n        return Bezier(D / self.T**m, self.T)", "        for j in range(0, m):\n            D = ca.horzcat(*[D[:, i + 1] - D[:, i] for i in range(self.n - j)])\n        gain = math.comb(self.n, m)\n        return Bezier(gain * D / self.T**m, self.T)", ["C18"], "gain C(n, m): right for m <= 1, too small by m! beyond"),
]
