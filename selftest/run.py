#!/usr/bin/env python3
"""Runs the self-test corpus: every mutant must be caught (exit 1) by the expected checks, every benign edit must leave
the listed checks silent (exit 0).  Development tool; scratch copies live under /tmp/cyecca_selftest and are removed.

usage: selftest/run.py [--jobs N] [id-substring ...]
"""
import json
import os
import shutil
import subprocess
import sys
import time
from concurrent.futures import ThreadPoolExecutor

HERE = os.path.dirname(os.path.abspath(__file__))
VERIF = os.path.dirname(HERE)
REPO = os.environ.get("CYECCA_REPO", "/repo")
SCRATCH = "/tmp/cyecca_selftest"
sys.path.insert(0, HERE)
from corpus import CORPUS  # noqa: E402


def run_variant(v):
    d = os.path.join(SCRATCH, v["id"])
    shutil.rmtree(d, ignore_errors=True)
    os.makedirs(d)
    for sub in ("cyecca", "scripts"):
        shutil.copytree(os.path.join(REPO, sub), os.path.join(d, sub), ignore=shutil.ignore_patterns("__pycache__", "*.pyc"))
    path = os.path.join(d, v["file"])
    text = open(path).read()
    res = {"id": v["id"], "kind": v["kind"], "checks": {}}
    if text.count(v["old"]) != 1:
        res["error"] = "pattern occurs %d times in %s" % (text.count(v["old"]), v["file"])
        shutil.rmtree(d, ignore_errors=True)
        return res
    open(path, "w").write(text.replace(v["old"], v["new"]))
    props = v["expect"] if v["kind"] == "mutant" else v["props"]
    env = dict(os.environ, CYECCA_REPO=d, VERIF_EVIDENCE_DIR=os.path.join(d, "evidence"))
    for p in props:
        t = time.time()
        pr = subprocess.run([os.path.join(VERIF, "check"), p], cwd=VERIF, env=env, capture_output=True, text=True, timeout=1200)
        lines = pr.stdout.splitlines()
        finding = next((l for l in lines if " rule=" in l and not l.startswith(("ANALYSIS", "KNOWN"))), "")
        incompl = next((l for l in lines if l.startswith("ANALYSIS")), "")
        res["checks"][p] = {"exit": pr.returncode, "first": (finding or incompl)[:260], "s": round(time.time() - t, 1)}
    shutil.rmtree(d, ignore_errors=True)
    return res


def main(argv):
    jobs = 16
    if "--jobs" in argv:
        jobs = int(argv[argv.index("--jobs") + 1])
    pats = [a for a in argv if not a.startswith("--") and not a.isdigit()]
    todo = [v for v in CORPUS if not pats or any(p in v["id"] for p in pats)]
    os.makedirs(SCRATCH, exist_ok=True)
    t0 = time.time()
    with ThreadPoolExecutor(jobs) as ex:
        results = list(ex.map(run_variant, todo))
    shutil.rmtree(SCRATCH, ignore_errors=True)
    bad = 0
    for r in results:
        if "error" in r:
            print("CORPUS-ERROR %-32s %s" % (r["id"], r["error"]))
            bad += 1
            continue
        if r["kind"] == "mutant":
            caught = [p for p, c in r["checks"].items() if c["exit"] == 1]
            ok = bool(caught) and len(caught) == len(r["checks"])
            status = "caught" if ok else ("PARTIAL" if caught else "MISSED")
        else:
            noisy = [p for p, c in r["checks"].items() if c["exit"] != 0]
            ok = not noisy
            status = "silent" if ok else "NOISY"
        if not ok:
            bad += 1
        print("%-8s %-34s %s" % (status, r["id"], " ".join("%s=%d" % (p, c["exit"]) for p, c in r["checks"].items())))
        if not ok or "-v" in argv:
            for p, c in r["checks"].items():
                if c["first"]:
                    print("           %s: %s" % (p, c["first"]))
    nm = sum(r["kind"] == "mutant" for r in results)
    print("== %d variants (%d mutants, %d benign), %d not as expected, %.0fs" % (len(results), nm, len(results) - nm, bad, time.time() - t0))
    summary = {"variants": len(results), "mutants": nm, "benign": len(results) - nm, "unexpected": bad,
               "results": [{"id": r["id"], "kind": r["kind"], "checks": {p: c["exit"] for p, c in r.get("checks", {}).items()}, "error": r.get("error")} for r in results]}
    with open(os.path.join(HERE, "last_result.json"), "w") as f:
        json.dump(summary, f, indent=1)
    return 1 if bad else 0


if __name__ == "__main__":
    sys.exit(main(sys.argv[1:]))
