#!/usr/bin/env python3
"""Prints the markdown table 'which check catches which seeded change' from seeded/*/meta.json (development tool)."""
import json
import os
import sys

HERE = os.path.dirname(os.path.dirname(os.path.abspath(__file__)))
S = os.path.join(HERE, "seeded")
rows = []
for name in sorted(os.listdir(S)):
    mp = os.path.join(S, name, "meta.json")
    if not os.path.isfile(mp):
        continue
    m = json.load(open(mp))
    c = m.get("confirmed_by_me", {})
    chk = c.get("checks_run_against_patched_tree", {})
    own = chk.get(m["property"], {})
    rule = ""
    for f in own.get("first_findings", []):
        if " rule=" in f:
            rule = f.split(" rule=")[1].split(" ")[0]
            break
    others = [k for k in c.get("caught_by", []) if k != m["property"]]
    inc = [k for k, v in chk.items() if v.get("exit") not in (0, 1)]
    title = (m.get("title") or "").replace("|", "/")
    if len(title) > 95:
        title = title[:92] + "..."
    rows.append("| %s | %s | %s | %s | %s |" % (name, title, "`%s`" % rule if own.get("exit") == 1 else "**missed** (exit %s)" % own.get("exit"), ", ".join(others) or "–", ", ".join(inc) or "–"))
table = "| change | what it does | own check: first rule that fires | also caught by | exit 2 in |\n|---|---|---|---|---|\n" + "\n".join(rows)
if "--inject" in sys.argv:
    dp = os.path.join(HERE, "DESIGN.md")
    d = open(dp).read()
    a, b = d.index("<!-- CATCH_TABLE_BEGIN -->"), d.index("<!-- CATCH_TABLE_END -->")
    open(dp, "w").write(d[:a] + "<!-- CATCH_TABLE_BEGIN -->\n" + table + "\n" + d[b:])
    print("DESIGN.md updated, %d rows" % len(rows))
else:
    print(table)
