import sys
sys.path.insert(0,'/verif')
import sympy as sp
from sa import casadi_model as cm
from sa.poly import Poly
from sa.taylor import expand
CA=cm.make_ca()
d=CA.SX.sym("d").s(); i=CA.SX.sym("i").s(); k=CA.SX.sym("k").s()
un=cm.un
one=Poly.const(1)
th=un("sqrt", d*d+i*i)
class W:
    def __init__(s,p): s.p=p
    def s(self): return self.p
cases={
 "sin(th)/th": W(un("sin",th)*th.recip()),
 "(1-cos th)/th^2": W((one-un("cos",th))*(th*th).recip()),
 "cos(th)": W(un("cos",th)),
 "mix": W(d*un("sin",th)*th.recip()*un("cos",d) - un("cos",th)*un("sin",d)),
 "sqrt(1+d)": W(un("sqrt",one+d+i*i)),
 "1/(1+d*i)": W((one+d*i+k).recip()),
 "sin(k+d)": W(un("sin",k+d)),
}
sd,si,sk=sp.symbols("d i k")
sth=sp.sqrt(sd**2+si**2)
ref={
 "sin(th)/th": sp.sin(sth)/sth, "(1-cos th)/th^2": (1-sp.cos(sth))/sth**2, "cos(th)": sp.cos(sth),
 "mix": sd*sp.sin(sth)/sth*sp.cos(sd)-sp.cos(sth)*sp.sin(sd), "sqrt(1+d)": sp.sqrt(1+sd+si**2), "1/(1+d*i)": 1/(1+sd*si+sk), "sin(k+d)": sp.sin(sk+sd)}
va=[d.single_atom(), i.single_atom()]
N=4
for name,e in cases.items():
    t=expand(e.s(), va, N)
    # sympy reference: substitute d->e*d, i->e*i expand in e
    eps=sp.symbols("eps")
    r=sp.series(ref[name].subs({sd:eps*sd, si:eps*si}), eps, 0, N+1).removeO().subs(eps,1)
    r=sp.expand(r)
    if t is None: print(name,"-> None; sympy:", r); continue
    mine=0
    for m,c in t.items():
        # c is Poly in other atoms: render via repr and sympify crude
        cs=repr(c).replace("^","**")
        cs=cs.replace("sqrt","sp.sqrt")
        try: cv=eval(cs,{"k":sk,"sp":sp,"sin":sp.sin,"cos":sp.cos})
        except Exception as ex: cv=sp.Symbol("ERR")
        mine+=cv*sd**m[0]*si**m[1]
    print(name, "OK" if sp.simplify(sp.expand(mine)-r)==0 else "MISMATCH mine=%s ref=%s"%(sp.expand(mine),r))
