"""World: one front end + one abstract interpreter + helpers shared by all rules."""
import ast
import time

from . import casadi_model as cm
from .absint import Interp, Instance, ClassObj, FuncObj, Bound, Prop, Stub, Env
from .casadi_model import MatVal, InterpRaise, Unsupported, CA, mat_equal, to_mat
from .frontend import Frontend, AnchorMissing
from .poly import Poly, Atom, CFG, deep_subs, poly_syms, all_atoms, atom_syms
from .series_table import read_series_table
from .seriesform import SeriesTable, FormulaError


def summary_sqrt_covariance_predict(it, f, args, kw, n):
    """util.sqrt_covariance_predict solves a symbolic linear system with Python
    branches on ca.depends_on; it is summarised as an opaque matrix function of
    its three arguments with the shape of W (DESIGN 3.2)."""
    names = [a.arg for a in f.node.args.args]
    vals = dict(zip(names, args))
    vals.update(kw)
    W, F, Q = (to_mat(vals[k]) for k in ("W", "F", "Q"))
    if F.r != F.c or W.shape != F.shape or Q.shape != F.shape:
        raise InterpRaise("RuntimeError", "sqrt_covariance_predict: dimension mismatch W%s F%s Q%s" % (W.shape, F.shape, Q.shape), n)
    key = tuple(W.flat()) + tuple(F.flat()) + tuple(Q.flat())
    return MatVal(W.r, W.c, [[cm.opaque("sqrt_cov_pred", i, j, W.r, *key) for j in range(W.c)] for i in range(W.r)], "SX")


SUMMARIES = {("cyecca.util", "sqrt_covariance_predict"): summary_sqrt_covariance_predict}


class World:
    def __init__(self, repo=None):
        t0 = time.time()
        self.fe = Frontend(repo)
        if self.fe.errors:
            raise AnchorMissing("syntax errors: %s" % self.fe.errors)
        self.series = read_series_table(self.fe)
        self.series_by_key = {e.key: e for e in self.series}
        self.stable = SeriesTable(self.series)
        if self.stable.errors:
            # a table formula that cannot be read leaves its series atoms without a closed form; comparisons that involve them
            # would treat them as free indeterminates.  No verdict then, for any property.
            raise AnchorMissing("series table of cyecca/symbolic.py: formulas not readable as closed forms in x: %s" % self.stable.errors)
        self.it = Interp(self.fe, [e.key for e in self.series], SUMMARIES, self.stable.canon)
        self.t_front = time.time() - t0
        self._lie = None

    # ---- modules / objects
    def mod(self, name):
        return self.it.load(name)

    @property
    def lie(self):
        if self._lie is None:
            self._lie = self.mod("cyecca.lie")
        return self._lie

    def obj(self, modname, name):
        m = self.mod(modname)
        if name not in m:
            raise AnchorMissing("%s.%s is not defined" % (modname, name))
        return m[name]

    def G(self, name):
        if name not in self.lie:
            raise AnchorMissing("cyecca.lie.%s is not exported" % name)
        return self.lie[name]

    def S(self, text, squared, arg):
        """Series atom of the table entry whose *formula* is `text` (DESIGN C02-D2), applied to `arg`."""
        key = self.stable.find(text)
        if key is None:
            raise AnchorMissing("no entry of the series table has the formula %s" % text)
        return cm.SeriesFn(key, squared)(arg)

    # ---- calling
    def call(self, o, meth, *a, **k):
        f = self.it.getattr(o, meth)
        return self.it.call(f, list(a), k)

    def callf(self, f, *a, **k):
        return self.it.call(f, list(a), k)

    def attr(self, o, k):
        return self.it.getattr(o, k)

    def sym(self, name, r=1, c=1):
        return CA.SX.sym(name, r, c)

    def elem(self, group, p):
        return self.call(group, "elem", p)

    def fresh(self, group, name="X"):
        n = self.attr(group, "n_param")
        p = self.sym(name, n)
        return self.elem(group, p), p

    def param(self, inst):
        if not isinstance(inst, Instance):
            raise Unsupported("expected an element instance, got %r" % (inst,))
        return inst.attrs["param"]

    def sl(self, m, a, b=None):
        return self.it.mat_get(m, slice(a, b))

    def blk(self, m, r0, r1, c0, c1):
        return self.it.mat_get(m, (slice(r0, r1), slice(c0, c1)))

    def where(self, modname, qual):
        """(rel file, lineno) of a definition, for reports."""
        sf = self.fe.module_file(modname)
        if sf is None:
            return (modname, 0)
        try:
            node = self.fe.find_def(sf.rel, qual)
            return (sf.rel, node.lineno)
        except AnchorMissing:
            return (sf.rel, 0)

    def method_where(self, obj, meth):
        """Locate the def that `obj.meth` resolves to."""
        if isinstance(obj, Instance):
            v, c = obj.cls.lookup(meth)
        elif isinstance(obj, ClassObj):
            v, c = obj.lookup(meth)
        else:
            return ("?", 0)
        fo = v.f if isinstance(v, Prop) else v
        if isinstance(fo, FuncObj):
            sf = self.fe.module_file(fo.module)
            return (sf.rel if sf else fo.module, fo.node.lineno, fo.qualname)
        return ("?", 0, meth)


def neg_map(atoms):
    s = set(atoms)

    def f(a):
        if a in s:
            return -Poly.atom(a)
        if a.kind == "sym":
            return None
        if not (atom_syms(a) & s):
            return Poly.atom(a)
        return None
    return f


def mat_subs(M, f):
    memo = {}
    return MatVal(M.r, M.c, [[deep_subs(p, f, memo) if p.t else p for p in row] for row in M.cells], M.kind)


def sym_atoms_of(m):
    return [p.single_atom() for p in m.flat()]


def eye(n):
    return CA.SX.eye(n)


def is_identity(M):
    return M.r == M.c and all(M.cells[i][j] == (cm.ONE if i == j else cm.ZERO) for i in range(M.r) for j in range(M.c))


def is_zero(M):
    return all(not p.t for p in M.flat())


def first_diff(A, B):
    if A.shape != B.shape:
        return "shape %s vs %s" % (A.shape, B.shape)
    for i in range(A.r):
        for j in range(A.c):
            if A.cells[i][j] != B.cells[i][j]:
                return "cell (%d,%d): %s  !=  %s" % (i, j, short(A.cells[i][j]), short(B.cells[i][j]))
    return None


def short(p, n=160):
    from .poly import brief
    s = brief(p, 4, 2)
    return s if len(s) <= n else s[: n - 3] + "..."
