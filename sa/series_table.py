"""Read the series table of cyecca/symbolic.py from its syntax tree (no sympy, no execution)."""
import ast

from .frontend import AnchorMissing

REL = "cyecca/symbolic.py"


class SeriesEntry:
    def __init__(self, key, expr, call, lineno):
        self.key = key
        self.expr = expr      # ast expression of f with local aliases inlined
        self.call = call      # the taylor_series_near_zero(...) Call node
        self.lineno = lineno


def _inline(node, aliases, depth=0):
    """Replace Name loads that are local aliases by their defining expression."""
    class T(ast.NodeTransformer):
        def visit_Name(self, n):
            if isinstance(n.ctx, ast.Load) and n.id in aliases and depth < 8:
                return _inline(ast.parse(ast.unparse(aliases[n.id]), mode="eval").body, aliases, depth + 1)
            return n
    return T().visit(ast.parse(ast.unparse(node), mode="eval").body)


def read_series_table(fe):
    fn = fe.find_def(REL, "derive_series")
    aliases = {}
    table = None
    for st in fn.body:
        if isinstance(st, ast.Assign) and len(st.targets) == 1 and isinstance(st.targets[0], ast.Name):
            aliases[st.targets[0].id] = st.value
        elif isinstance(st, ast.If):
            # x = sqrt(u) if input_squared else u : keep symbolic name 'x'
            pass
        elif isinstance(st, ast.Return) and isinstance(st.value, ast.Dict):
            table = st.value
    if table is None:
        raise AnchorMissing("%s: derive_series no longer returns a dict literal" % REL)
    aliases.pop("x", None)
    aliases.pop("u", None)
    entries = []
    for k, v in zip(table.keys, table.values):
        if not (isinstance(k, ast.Constant) and isinstance(k.value, str)):
            raise AnchorMissing("%s: non-literal series key" % REL)
        if not (isinstance(v, ast.Call) and ast.unparse(v.func) == "taylor_series_near_zero" and len(v.args) >= 2):
            raise AnchorMissing("%s: series entry %r is not a taylor_series_near_zero(u, f) call" % (REL, k.value))
        entries.append(SeriesEntry(k.value, _inline(v.args[1], aliases), v, v.lineno))
    return entries
