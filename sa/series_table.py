"""Read the series table of cyecca/symbolic.py from its syntax tree (no sympy, no execution)."""
import ast

from .frontend import AnchorMissing

REL = "cyecca/symbolic.py"


class SeriesEntry:
    def __init__(self, key, expr, call, lineno):
        self.key = key
        self.expr = expr      # ast expression of f with local aliases inlined
        self.call = call      # the taylor_series_near_zero(...) Call node
        self.lineno = lineno


def _inline(node, aliases, depth=0):
    """Replace Name loads that are local aliases by their defining expression."""
    class T(ast.NodeTransformer):
        def visit_Name(self, n):
            if isinstance(n.ctx, ast.Load) and n.id in aliases and depth < 8:
                return _inline(ast.parse(ast.unparse(aliases[n.id]), mode="eval").body, aliases, depth + 1)
            return n
    return T().visit(ast.parse(ast.unparse(node), mode="eval").body)


def read_series_table(fe):
    fn = fe.find_def(REL, "derive_series")
    aliases = {}
    table = None
    def subst(node, name, const):
        class T(ast.NodeTransformer):
            def visit_Name(self, n):
                return ast.copy_location(ast.Constant(const), n) if n.id == name and isinstance(n.ctx, ast.Load) else n
        return T().visit(ast.parse(ast.unparse(node), mode="eval").body)

    def elements(v):
        """The element expressions of a list / tuple display or of a comprehension over a literal range or sequence."""
        if isinstance(v, (ast.List, ast.Tuple)):
            return list(v.elts)
        if isinstance(v, (ast.ListComp, ast.GeneratorExp)) and len(v.generators) == 1 and not v.generators[0].ifs and isinstance(v.generators[0].target, ast.Name):
            g = v.generators[0]
            try:
                it = g.iter
                if isinstance(it, ast.Call) and isinstance(it.func, ast.Name) and it.func.id == "range":
                    vals = list(range(*[ast.literal_eval(a) for a in it.args]))
                else:
                    vals = list(ast.literal_eval(it))
            except (ValueError, TypeError, SyntaxError):
                return None
            return [subst(v.elt, g.target.id, c) for c in vals]
        if isinstance(v, ast.Call) and isinstance(v.func, ast.Name) and v.func.id in ("list", "tuple") and len(v.args) == 1:
            return elements(v.args[0])
        return None
    for st in fn.body:
        if isinstance(st, ast.Assign) and len(st.targets) == 1 and isinstance(st.targets[0], ast.Name):
            aliases[st.targets[0].id] = st.value
        elif isinstance(st, ast.Assign) and len(st.targets) == 1 and isinstance(st.targets[0], (ast.Tuple, ast.List)) and all(isinstance(e, ast.Name) for e in st.targets[0].elts):
            # x2, x3, ... = [simplify(x**n) for n in range(2, 7)] : one alias per element
            els = elements(st.value)
            if els is not None and len(els) == len(st.targets[0].elts):
                for e, v in zip(st.targets[0].elts, els):
                    aliases[e.id] = v
        elif isinstance(st, ast.If):
            # x = sqrt(u) if input_squared else u : keep symbolic name 'x'
            pass
        elif isinstance(st, ast.Return) and isinstance(st.value, ast.Dict):
            table = st.value
    if table is None:
        # the same table built incrementally: NAME = [(key, expr), ...]; for k, e in NAME: D[k] = taylor_series_near_zero(u, e)
        loop = None
        for st in fn.body:
            if isinstance(st, ast.For) and isinstance(st.target, ast.Tuple) and len(st.target.elts) == 2 and all(isinstance(e, ast.Name) for e in st.target.elts) \
                    and isinstance(st.iter, ast.Name) and st.iter.id in aliases and len(st.body) == 1 and isinstance(st.body[0], ast.Assign) \
                    and isinstance(st.body[0].targets[0], ast.Subscript) and isinstance(st.body[0].value, ast.Call) \
                    and ast.unparse(st.body[0].value.func) == "taylor_series_near_zero" and not st.orelse:
                loop = st
        defs = elements(aliases[loop.iter.id]) if loop is not None else None
        if loop is not None and defs is not None and all(isinstance(d, ast.Tuple) and len(d.elts) == 2 for d in defs):
            kname, ename = (e.id for e in loop.target.elts)
            call = loop.body[0].value
            keyed = ast.unparse(loop.body[0].targets[0].slice) == kname
            if keyed and len(call.args) >= 2 and isinstance(call.args[1], ast.Name) and call.args[1].id == ename:
                keys, vals = [], []
                for d in defs:
                    c2 = ast.parse(ast.unparse(call), mode="eval").body
                    c2.args[1] = d.elts[1]
                    ast.copy_location(c2, d)
                    c2.lineno = d.lineno
                    keys.append(d.elts[0])
                    vals.append(c2)
                table = ast.Dict(keys=keys, values=vals)
                aliases.pop(loop.iter.id, None)
    if table is None:
        raise AnchorMissing("%s: derive_series no longer returns a dict literal (or a literal list of (key, formula) pairs filled into a dict by one loop)" % REL)
    aliases.pop("x", None)
    aliases.pop("u", None)
    entries = []
    for k, v in zip(table.keys, table.values):
        if not (isinstance(k, ast.Constant) and isinstance(k.value, str)):
            raise AnchorMissing("%s: non-literal series key" % REL)
        if not (isinstance(v, ast.Call) and ast.unparse(v.func) == "taylor_series_near_zero" and len(v.args) >= 2):
            raise AnchorMissing("%s: series entry %r is not a taylor_series_near_zero(u, f) call" % (REL, k.value))
        entries.append(SeriesEntry(k.value, _inline(v.args[1], aliases), v, v.lineno))
    return entries
