"""Structured control-flow facts over a Python function's syntax tree (no execution).

Flow(fn) walks the statements of one function once and records, for every simple statement and every
compound-statement header, an Event carrying

  facts : branch conditions known to hold on EVERY path that reaches the statement (a must-analysis: at a join
          only conditions common to all incoming paths survive; a condition is dropped as soon as a name or
          attribute it mentions is re-assigned; `if c: return` leaves `not c` behind),
  done  : ids of the statements that have completed on EVERY path that reaches it ("dominated by"), where loop
          bodies start again from the state in front of the loop (so `done` inside a body means "earlier in
          this same iteration or before the loop"),
  loops : the enclosing loop statements.

Assumption (stated in the evidence): a call does not re-assign the attributes a recorded condition mentions;
comparisons are read over the reals (no NaN).
"""
import ast
import copy

FUNCS = (ast.FunctionDef, ast.AsyncFunctionDef)
LOOPS = (ast.For, ast.AsyncFor, ast.While)


def unp(n):
    return " ".join(ast.unparse(n).split())


def parents(n):
    n = getattr(n, "_parent", None)
    while n is not None:
        yield n
        n = getattr(n, "_parent", None)


def enclosing_function(n):
    for p in parents(n):
        if isinstance(p, FUNCS):
            return p
    return None


def enclosing_class(n):
    for p in parents(n):
        if isinstance(p, ast.ClassDef):
            return p
    return None


def qualname(n):
    """Dotted name of the innermost def/class containing n (n itself if it is one); '<module>' at top level."""
    names = [p.name for p in ([n] + list(parents(n))) if isinstance(p, FUNCS + (ast.ClassDef,))]
    return ".".join(reversed(names)) or "<module>"


def enclosing_stmt(n):
    while not isinstance(n, ast.stmt):
        n = n._parent
    return n


def walk_exec(roots):
    """Nodes evaluated when the roots are evaluated: does not enter lambda bodies or nested defs."""
    todo = list(roots)
    while todo:
        n = todo.pop()
        yield n
        for ch in ast.iter_child_nodes(n):
            if not isinstance(ch, FUNCS + (ast.Lambda, ast.ClassDef)):
                todo.append(ch)


class Fact:
    __slots__ = ("cond", "pol", "origin", "stmt")

    def __init__(self, cond, pol, origin, stmt):
        self.cond, self.pol, self.origin, self.stmt = cond, pol, origin, stmt

    def key(self):
        return (id(self.cond), self.pol)

    def text(self):
        return ("" if self.pol else "not ") + "(" + unp(self.cond) + ")"


class Event:
    __slots__ = ("node", "roots", "facts", "done", "loops")

    def __init__(self, node, roots, facts, done, loops):
        self.node, self.roots, self.facts, self.done, self.loops = node, roots, facts, done, loops

    def walk(self):
        return walk_exec(self.roots)

    def calls(self):
        return [n for n in self.walk() if isinstance(n, ast.Call)]

    def fact_keys(self):
        return {f.key() for f in self.facts}


def split_cond(test, pol):
    """Atomic conditions implied by `test` having truth value `pol`."""
    if isinstance(test, ast.UnaryOp) and isinstance(test.op, ast.Not):
        return split_cond(test.operand, not pol)
    if isinstance(test, ast.BoolOp) and ((isinstance(test.op, ast.And) and pol) or (isinstance(test.op, ast.Or) and not pol)):
        out = []
        for v in test.values:
            out += split_cond(v, pol)
        return out
    return [(test, pol)]


def ends(block):
    """How a statement list leaves syntactically: None (falls through) | 'return' | 'raise' | 'jump'."""
    if not block:
        return None
    s = block[-1]
    if isinstance(s, ast.Return):
        return "return"
    if isinstance(s, ast.Raise):
        return "raise"
    if isinstance(s, (ast.Break, ast.Continue)):
        return "jump"
    if isinstance(s, ast.If):
        a, b = ends(s.body), ends(s.orelse)
        if a and b:
            return a if a == b else "jump"
    return None


def loc_keys(target):
    """Keys of the storage locations a target expression (re)binds."""
    if isinstance(target, ast.Name):
        return {("n", target.id)}
    if isinstance(target, (ast.Tuple, ast.List)):
        out = set()
        for e in target.elts:
            out |= loc_keys(e)
        return out
    if isinstance(target, ast.Starred):
        return loc_keys(target.value)
    if isinstance(target, ast.Attribute):
        return {("a", unp(target))}
    if isinstance(target, ast.Subscript):
        return loc_keys(target.value)
    return set()


def assigned_locs(nodes):
    out = set()
    for root in nodes:
        for n in ast.walk(root):
            if isinstance(n, ast.Assign):
                for t in n.targets:
                    out |= loc_keys(t)
            elif isinstance(n, (ast.AugAssign, ast.AnnAssign, ast.NamedExpr)):
                out |= loc_keys(n.target)
            elif isinstance(n, (ast.For, ast.AsyncFor, ast.comprehension)):
                out |= loc_keys(n.target)
            elif isinstance(n, ast.withitem) and n.optional_vars is not None:
                out |= loc_keys(n.optional_vars)
            elif isinstance(n, ast.Delete):
                for t in n.targets:
                    out |= loc_keys(t)
            elif isinstance(n, FUNCS + (ast.ClassDef,)):
                out.add(("n", n.name))
    return out


def mentions(expr, locs):
    for n in ast.walk(expr):
        if isinstance(n, ast.Name) and ("n", n.id) in locs:
            return True
        if isinstance(n, ast.Attribute) and ("a", unp(n)) in locs:
            return True
    return False


def kill(facts, locs):
    if not locs:
        return facts
    return tuple(f for f in facts if not mentions(f.cond, locs))


def join(states):
    states = [s for s in states if s is not None]
    if not states:
        return None
    facts, done = states[0]
    for f2, d2 in states[1:]:
        keys = {f.key() for f in f2}
        facts = tuple(f for f in facts if f.key() in keys)
        done = done & d2
    return facts, done


class Flow:
    def __init__(self, fn):
        self.fn = fn
        self.events = []
        self.exits = []     # (Return node | None for fall-through, facts, done) of every normal exit
        self.loops = {}     # id(loop stmt) -> {"node", "body_facts", "jumps": [Event], "end": state | None}
        st = self._block(fn.body, ((), frozenset()), ())
        if st is not None:
            self.exits.append((None, st[0], st[1]))
        self.by_node = {id(e.node): e for e in self.events}

    def exit_done(self):
        """Statements completed on every normal exit of the function."""
        out = None
        for _, _, d in self.exits:
            out = d if out is None else out & d
        return out or frozenset()

    def event_of(self, node):
        """Event of the statement (or compound header) that evaluates `node`."""
        return self.by_node[id(enclosing_stmt(node))]

    def in_loop(self, loop):
        return [e for e in self.events if loop in e.loops]

    # -- walker
    def _emit(self, node, roots, st, loops):
        e = Event(node, roots, st[0], st[1], loops)
        self.events.append(e)
        return e

    def _block(self, stmts, st, loops):
        for s in stmts:
            if st is None:
                return None   # syntactically dead code is not analysed
            st = self._stmt(s, st, loops)
        return st

    def _facts(self, facts, test, pol, origin, stmt):
        return facts + tuple(Fact(c, p, origin, stmt) for c, p in split_cond(test, pol))

    def _stmt(self, s, st, loops):
        facts, done = st
        if isinstance(s, FUNCS + (ast.ClassDef,)):
            self._emit(s, [], st, loops)
            return kill(facts, {("n", s.name)}), done | {id(s)}
        if isinstance(s, ast.If):
            self._emit(s, [s.test], st, loops)
            b = self._block(s.body, (self._facts(facts, s.test, True, "branch", s), done), loops)
            o = self._block(s.orelse, (self._facts(facts, s.test, False, "branch", s), done), loops)
            if b is None and o is None:
                return None
            if b is None or o is None:
                live, how = (o, ends(s.body)) if b is None else (b, ends(s.orelse))
                how = how or "jump"
                fs = tuple(Fact(f.cond, f.pol, how, s) if f.stmt is s else f for f in live[0])
                return fs, live[1] | {id(s)}
            fs, d = join([b, o])
            return fs, d | {id(s)}
        if isinstance(s, LOOPS):
            is_while = isinstance(s, ast.While)
            locs = assigned_locs(s.body) | (set() if is_while else loc_keys(s.target))
            f0 = kill(facts, locs)
            self._emit(s, [s.test] if is_while else [s.iter], (f0, done), loops)
            bf = self._facts(f0, s.test, True, "loop", s) if is_while else f0
            info = self.loops[id(s)] = {"node": s, "body_facts": bf, "jumps": [], "end": None}
            info["end"] = self._block(s.body, (bf, done), loops + (s,))
            breaks = any(isinstance(j.node, ast.Break) and j.loops[-1] is s for j in info["jumps"])
            if is_while and isinstance(s.test, ast.Constant) and s.test.value and not breaks:
                return None
            af = self._facts(f0, s.test, False, "loop-exit", s) if (is_while and not breaks) else f0
            after = (af, done | {id(s)})
            return self._block(s.orelse, after, loops) if s.orelse else after
        if isinstance(s, (ast.With, ast.AsyncWith)):
            self._emit(s, [i.context_expr for i in s.items], st, loops)
            locs = set()
            for i in s.items:
                if i.optional_vars is not None:
                    locs |= loc_keys(i.optional_vars)
            r = self._block(s.body, (kill(facts, locs), done), loops)
            return None if r is None else (r[0], r[1] | {id(s)})
        if isinstance(s, ast.Try) or type(s).__name__ == "TryStar":
            self._emit(s, [], st, loops)
            weak = (kill(facts, assigned_locs(s.body)), done)
            b = self._block(s.body, st, loops)
            outs = [self._block(s.orelse, b, loops) if (b is not None and s.orelse) else b]
            for h in s.handlers:
                outs.append(self._block(h.body, weak, loops))
            r = join(outs)
            if s.finalbody:
                r2 = self._block(s.finalbody, r if r is not None else weak, loops)
                r = None if r is None else r2
            return None if r is None else (r[0], r[1] | {id(s)})
        if isinstance(s, ast.Match):
            self._emit(s, [s.subject], st, loops)
            outs = [st] + [self._block(c.body, st, loops) for c in s.cases]
            r = join(outs)
            return r[0], r[1] | {id(s)}
        # simple statements
        ev = self._emit(s, [s], st, loops)
        if isinstance(s, ast.Return):
            self.exits.append((s, facts, done | {id(s)}))
            for l in loops:
                self.loops[id(l)]["jumps"].append(ev)
            return None
        if isinstance(s, ast.Raise):
            for l in loops:
                self.loops[id(l)]["jumps"].append(ev)
            return None
        if isinstance(s, (ast.Break, ast.Continue)):
            if loops:
                self.loops[id(loops[-1])]["jumps"].append(ev)
            return None
        facts = kill(facts, assigned_locs([s]))
        if isinstance(s, ast.Assert):
            facts = self._facts(facts, s.test, True, "assert", s)
        return facts, done | {id(s)}


# ---------------------------------------------------------------------------------------------------------
# expressions: inlining of single-assignment locals, linear normal form of comparisons

class Locals:
    """Locals of one function bound exactly once by `name = expr` (never a parameter, loop target, ...)."""

    def __init__(self, fn):
        self.fn = fn
        count, self.defs = {}, {}
        for a in ast.walk(fn.args):
            if isinstance(a, ast.arg):
                count[a.arg] = 2
        for n in ast.walk(fn):
            if isinstance(n, ast.Name) and isinstance(n.ctx, (ast.Store, ast.Del)):
                count[n.id] = count.get(n.id, 0) + 1
            elif isinstance(n, (ast.Global, ast.Nonlocal)):
                for x in n.names:
                    count[x] = 2
        for n in ast.walk(fn):
            if (isinstance(n, ast.Assign) and len(n.targets) == 1 and isinstance(n.targets[0], ast.Name)
                    and count.get(n.targets[0].id) == 1 and enclosing_function(n) is fn):
                self.defs[n.targets[0].id] = n
        self.stores = []   # (lineno, loc keys) of every binding statement in the function
        for n in ast.walk(fn):
            if isinstance(n, (ast.Assign, ast.AugAssign, ast.AnnAssign, ast.Delete, ast.For, ast.AsyncFor)):
                self.stores.append((n.lineno, assigned_locs([n]) if not isinstance(n, LOOPS) else loc_keys(n.target)))

    def safe(self, name, use_line):
        """May `name` be replaced by its defining expression at source line use_line?  Only if nothing the
        expression mentions is re-bound between the definition and the use (in source order)."""
        d = self.defs.get(name)
        if d is None or not d.lineno < use_line:
            return False
        for line, locs in self.stores:
            if d.lineno < line <= use_line and mentions(d.value, locs):
                return False
        return True

    def inline(self, expr, use_line=None, depth=6, at_def=False):
        """expr with single-definition locals replaced by their defining expressions.  Default: every location mentioned by
        the result means its value at use_line (a definition is not inlined across a re-binding of what it mentions).
        at_def=True: the value of expr as a formula over the locations AS THEY WERE WHEN EACH LOCAL WAS DEFINED (a chain
        `a = t - self.last; self.last = t; dt = a` gives `t - self.last` for dt: the step that was computed) - for rules that
        ask what was computed, not what re-evaluating the text now would give."""
        use_line = use_line if use_line is not None else expr.lineno
        me = self

        class T(ast.NodeTransformer):
            def visit_Name(self, n):
                if isinstance(n.ctx, ast.Load) and depth > 0:
                    if at_def and n.id in me.defs and me.defs[n.id].lineno < use_line:
                        return me.inline(me.defs[n.id].value, me.defs[n.id].lineno, depth - 1, True)
                    if me.safe(n.id, use_line):
                        return me.inline(me.defs[n.id].value, use_line, depth - 1)
                return n
        return T().visit(copy.deepcopy(expr))


def linform(e):
    """Linear normal form over Q-ish floats: {atom text | None for the constant: coefficient}."""
    def scale(d, k):
        return {a: c * k for a, c in d.items()}

    def add(d1, d2):
        out = dict(d1)
        for a, c in d2.items():
            out[a] = out.get(a, 0.0) + c
        return out

    def const(d):
        return d.get(None, 0.0) if all(a is None for a in d) else None
    if isinstance(e, ast.Constant) and isinstance(e.value, (int, float)) and not isinstance(e.value, bool):
        return {None: float(e.value)}
    if isinstance(e, ast.UnaryOp) and isinstance(e.op, (ast.USub, ast.UAdd)):
        return scale(linform(e.operand), -1.0 if isinstance(e.op, ast.USub) else 1.0)
    if isinstance(e, ast.BinOp):
        if isinstance(e.op, ast.Add):
            return add(linform(e.left), linform(e.right))
        if isinstance(e.op, ast.Sub):
            return add(linform(e.left), scale(linform(e.right), -1.0))
        if isinstance(e.op, ast.Mult):
            l, r = linform(e.left), linform(e.right)
            if const(l) is not None:
                return scale(r, const(l))
            if const(r) is not None:
                return scale(l, const(r))
        if isinstance(e.op, ast.Div):
            l, r = linform(e.left), linform(e.right)
            if const(r):
                return scale(l, 1.0 / const(r))
    return {unp(e): 1.0}


def canon_cmp(cond, pol):
    """`cond` (a single comparison) having truth value pol, as (lin, strict): lin > 0 if strict else lin >= 0.
    None when cond is not an order comparison."""
    if not (isinstance(cond, ast.Compare) and len(cond.ops) == 1):
        return None
    op = type(cond.ops[0])
    if op not in (ast.Gt, ast.GtE, ast.Lt, ast.LtE):
        return None
    l, r = linform(cond.left), linform(cond.comparators[0])
    if op in (ast.Lt, ast.LtE):
        l, r = r, l
        op = ast.Gt if op is ast.Lt else ast.GtE
    strict = op is ast.Gt        # now: l > r  or  l >= r
    if not pol:                  # not (l > r) == r >= l ; not (l >= r) == r > l
        l, r = r, l
        strict = not strict
    lin = dict(l)
    for a, c in r.items():
        lin[a] = lin.get(a, 0.0) - c
    return {a: c for a, c in lin.items() if abs(c) > 1e-12}, strict
