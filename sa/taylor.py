"""Truncated multivariate Taylor expansion of value numbers at the origin of chosen symbols.

Purpose: a further *sound* way to tell two functions apart.  If f and g are analytic near 0 in the chosen variables and
one Taylor coefficient differs, then f != g.  (Equal coefficients up to the truncation order prove nothing and are
reported as 'no difference'.)  Nothing is evaluated numerically: coefficients are polynomials over Q in the remaining
symbols and in constant atoms.

Series are kept in the ring  S = A + T*B  where A, B are truncated power series in the variables and T stands for ONE
radical sqrt(P) whose radicand vanishes at the origin (T*T = series of P).  That is what the closed forms of exp / log need:
theta = sqrt(x.x) occurs only through sin(theta)/theta, (1-cos theta)/theta^2, ...  An expansion whose final value still
has a T part, or that needs a negative power which does not cancel, is not analytic in the variables: None is returned.
"""
from fractions import Fraction
from math import factorial

from .poly import Poly, Atom


EXTRA = 6      # internal working order above the requested one (divisions by theta^2 lose two orders each)


class NotAnalytic(Exception):
    pass


class PS:
    """Truncated power series: {exponent tuple: Poly coefficient (free of the variables)}, total degree <= N."""
    __slots__ = ("t", "ctx")

    def __init__(self, ctx, t=None):
        self.ctx = ctx
        self.t = t or {}

    @staticmethod
    def const(ctx, c):
        c = c if isinstance(c, Poly) else Poly.const(c)
        return PS(ctx, {ctx.zero: c} if c.t else {})

    def __add__(self, o):
        t = dict(self.t)
        for m, c in o.t.items():
            v = t.get(m, Poly()) + c
            if v.t:
                t[m] = v
            else:
                t.pop(m, None)
        return PS(self.ctx, t)

    def scale(self, c):
        c = c if isinstance(c, Poly) else Poly.const(c)
        if not c.t:
            return PS(self.ctx)
        out = {}
        for m, v in self.t.items():
            w = v * c
            if w.t:
                out[m] = w
        return PS(self.ctx, out)

    def __neg__(self):
        return self.scale(-1)

    def __sub__(self, o):
        return self + (-o)

    def __mul__(self, o):
        N = self.ctx.N
        t = {}
        for m1, c1 in self.t.items():
            d1 = sum(m1)
            for m2, c2 in o.t.items():
                if d1 + sum(m2) > N:
                    continue
                m = tuple(a + b for a, b in zip(m1, m2))
                v = t.get(m, Poly()) + c1 * c2
                if v.t:
                    t[m] = v
                else:
                    t.pop(m, None)
        return PS(self.ctx, t)

    def c0(self):
        return self.t.get(self.ctx.zero, Poly())

    def without_c0(self):
        t = dict(self.t)
        t.pop(self.ctx.zero, None)
        return PS(self.ctx, t)

    def is_zero(self):
        return not self.t

    def compose(self, coeffs):
        """sum_k coeffs[k] * self^k for a series self without constant term (coeffs: list of Poly/Fraction)."""
        assert not self.c0().t
        acc = PS.const(self.ctx, coeffs[0])
        pw = PS.const(self.ctx, 1)
        for k in range(1, len(coeffs)):
            pw = pw * self
            if pw.is_zero():
                break
            if (coeffs[k].t if isinstance(coeffs[k], Poly) else coeffs[k] != 0):
                acc = acc + pw.scale(coeffs[k])
        return acc

    def min_degree(self):
        return min((sum(m) for m in self.t), default=None)


class RS:
    """A + T*B"""
    __slots__ = ("a", "b", "ctx")

    def __init__(self, ctx, a, b=None):
        self.ctx, self.a, self.b = ctx, a, b if b is not None else PS(ctx)

    def __add__(self, o):
        return RS(self.ctx, self.a + o.a, self.b + o.b)

    def __mul__(self, o):
        T2 = self.ctx.T2
        bb = self.b * o.b
        return RS(self.ctx, self.a * o.a + (bb * T2 if not bb.is_zero() else PS(self.ctx)), self.a * o.b + self.b * o.a)

    def scale(self, c):
        return RS(self.ctx, self.a.scale(c), self.b.scale(c))


class Ctx:
    def __init__(self, variables, N):
        self.vars = list(variables)
        self.N = N
        self.zero = tuple(0 for _ in self.vars)
        self.T = None          # the radical atom
        self.T2 = None         # PS of its radicand
        self.memo = {}

    def var(self, i):
        m = tuple(1 if j == i else 0 for j in range(len(self.vars)))
        return PS(self, {m: Poly.const(1)})


def _free_of(p, variables):
    from .poly import all_atoms
    return not any(a in variables for a in all_atoms(p))


def expand(p, variables, N=4):
    """-> {exponent tuple: Poly} (the Taylor polynomial of total degree <= N) or None when the expansion is not available."""
    ctx = Ctx(variables, N + EXTRA)
    try:
        r = _poly(ctx, p)
    except NotAnalytic:
        return None
    if any(sum(m) <= N for m in r.b.t):
        return None
    return {m: c for m, c in r.a.t.items() if sum(m) <= N}


def _poly(ctx, p):
    """All monomials are brought over one common denominator before any division: theta^-2 - theta^-2 cos(theta) is analytic
    although neither term is."""
    terms = []
    dens = {}            # key -> (series, max exponent)
    for mono, c in p.t.items():
        term = RS(ctx, PS.const(ctx, c))
        mine = {}
        for a, e in mono:
            if a.kind == "recip" and e > 0 and isinstance(a.key[0], Poly) and not _free_of(a.key[0], ctx.vars):
                mine[("r", a.id)] = (_poly(ctx, a.key[0]), e)
            elif e > 0:
                x = _atom(ctx, a)
                for _ in range(e):
                    term = term * x
            else:
                mine[("a", a.id)] = (_atom(ctx, a), -e)
        terms.append((term, mine))
        for k, (x, e) in mine.items():
            if k not in dens or dens[k][1] < e:
                dens[k] = (x, e)
    acc = RS(ctx, PS(ctx))
    for term, mine in terms:
        for k, (x, E) in dens.items():
            have = mine.get(k, (None, 0))[1]
            for _ in range(E - have):
                term = term * x
        acc = acc + term
    for k, (x, E) in dens.items():
        for _ in range(E):
            acc = _divide(ctx, acc, x)
    return acc


def _divide(ctx, num, den):
    """num / den in the ring A + T*B.  den = a + T b.  Multiply by the conjugate: den * (a - T b) = a^2 - T2 b^2 (a pure power
    series), then divide by that series, which must have an invertible lowest-order part after removing a common monomial."""
    a, b = den.a, den.b
    if b.is_zero():
        return RS(ctx, _ps_div(ctx, num.a, a), _ps_div(ctx, num.b, a) if not num.b.is_zero() else PS(ctx))
    if ctx.T2 is None:
        raise NotAnalytic()
    conj = RS(ctx, a, -b)
    n2 = num * conj
    d2 = a * a - (b * b) * ctx.T2
    return RS(ctx, _ps_div(ctx, n2.a, d2), _ps_div(ctx, n2.b, d2) if not n2.b.is_zero() else PS(ctx))


def _homog_div(ctx, num, L):
    """Exact division of a homogeneous polynomial num (dict exps -> Poly) by the homogeneous polynomial L, by leading terms
    in lexicographic order; raises NotAnalytic when the division is not exact."""
    lead = max(L)
    lc = L[lead]
    cv = lc.const_value()
    inv = Poly.const(Fraction(1) / Fraction(cv)) if cv is not None else lc.recip()
    rem = dict(num)
    q = {}
    guard = 0
    while rem:
        guard += 1
        if guard > 10000:
            raise NotAnalytic()
        m = max(rem)
        d = tuple(x - y for x, y in zip(m, lead))
        if any(x < 0 for x in d):
            raise NotAnalytic()
        c = rem[m] * inv
        q[d] = q.get(d, Poly()) + c
        rem.pop(m)                   # the leading term cancels by construction (also for a symbolic leading coefficient)
        for ml, cl in L.items():
            if ml == lead:
                continue
            mm = tuple(x + y for x, y in zip(d, ml))
            v = rem.get(mm, Poly()) - c * cl
            if v.t:
                rem[mm] = v
            else:
                rem.pop(mm, None)
    return {k: v for k, v in q.items() if v.t}


def _ps_div(ctx, num, den):
    """num / den as truncated power series.  den = L + (higher order) with L its lowest-degree homogeneous part; the
    quotient is built degree by degree, each step dividing the lowest-degree part of the remainder by L exactly (for a
    non-zero constant L this is the usual series inverse).  Orders above ctx.N - deg(L) of the result are not reliable: the
    caller works with a raised internal order."""
    if den.is_zero():
        raise NotAnalytic()
    dmin = den.min_degree()
    L = {m: c for m, c in den.t.items() if sum(m) == dmin}
    rem = PS(ctx, dict(num.t))
    out = PS(ctx)
    steps = 0
    while not rem.is_zero():
        steps += 1
        if steps > 4 * (ctx.N + 2):
            raise NotAnalytic()
        r = rem.min_degree()
        if r + 0 > ctx.N:
            break
        low = {m: c for m, c in rem.t.items() if sum(m) == r}
        if r < dmin:
            raise NotAnalytic()
        q = PS(ctx, _homog_div(ctx, low, L))
        out = out + q
        rem = rem - q * den
        # terms of the remainder beyond the working order are dropped by the truncated product; what was divided exactly
        # at degree r is gone, so the loop advances
        rem = PS(ctx, {m: c for m, c in rem.t.items() if sum(m) > r})
    return out


def _atom(ctx, a):
    if a in ctx.memo:
        return ctx.memo[a]
    r = _atom0(ctx, a)
    ctx.memo[a] = r
    return r


def _atom0(ctx, a):
    if a.kind == "sym":
        if a in ctx.vars:
            return RS(ctx, ctx.var(ctx.vars.index(a)))
        return RS(ctx, PS.const(ctx, Poly.atom(a)))
    args = [x for x in a.key if isinstance(x, Poly)]
    if all(_free_of(x, ctx.vars) for x in args) and a.kind != "series":
        return RS(ctx, PS.const(ctx, Poly.atom(a)))
    if a.kind == "sqrt":
        u = _poly(ctx, a.key[0])
        if not u.b.is_zero():
            raise NotAnalytic()
        c0 = u.a.c0()
        if c0.t:
            cv = c0.const_value()
            if cv is None:
                raise NotAnalytic()
            from .casadi_model import un
            root = un("sqrt", c0)
            v = u.a.scale(Poly.const(Fraction(1) / Fraction(cv))).without_c0()
            coeffs = []
            binom = Fraction(1)
            for k in range(ctx.N + 1):
                coeffs.append(Poly.const(binom))
                binom = binom * (Fraction(1, 2) - k) / (k + 1)
            return RS(ctx, v.compose(coeffs).scale(root))
        # radicand vanishes at the origin: this is the radical T
        if ctx.T is None:
            ctx.T, ctx.T2 = a, u.a
        elif ctx.T is not a:
            raise NotAnalytic()
        return RS(ctx, PS(ctx), PS.const(ctx, 1))
    if a.kind in ("sin", "cos"):
        u = _poly(ctx, a.key[0])
        c0 = u.a.c0()
        if c0.t:
            # angle addition around the constant part
            from .casadi_model import un
            s0, c0v = un("sin", c0), un("cos", c0)
            rest = RS(ctx, u.a.without_c0(), u.b)
            sr, cr = _sincos(ctx, rest)
            if a.kind == "sin":
                return sr.scale(c0v) + cr.scale(s0)
            return cr.scale(c0v) + sr.scale(-s0 if isinstance(s0, Poly) else -s0)
        sr, cr = _sincos(ctx, u)
        return sr if a.kind == "sin" else cr
    if a.kind == "recip":
        u = _poly(ctx, a.key[0])
        return _divide(ctx, RS(ctx, PS.const(ctx, 1)), u)
    if a.kind == "tan":
        u = _poly(ctx, a.key[0])
        if u.a.c0().t:
            raise NotAnalytic()
        sr, cr = _sincos(ctx, u)
        return _divide(ctx, sr, cr)
    raise NotAnalytic()


def _sincos(ctx, u):
    """sin and cos of a series u = A + T*B without constant term."""
    N = ctx.N
    one = RS(ctx, PS.const(ctx, 1))
    s = RS(ctx, PS(ctx))
    c = RS(ctx, PS(ctx))
    pw = one
    for k in range(0, 2 * N + 2):
        if k > 0:
            pw = pw * u
        if pw.a.is_zero() and pw.b.is_zero():
            break
        coef = Fraction((-1) ** (k // 2), factorial(k))
        if k % 2:
            s = s + pw.scale(coef)
        else:
            c = c + pw.scale(coef)
    return s, c


def taylor_differs(p, q, variables, N=4):
    """True when the Taylor polynomials of p and q (total degree <= N in `variables`) both exist and differ in a coefficient
    (as polynomials in the remaining atoms); False when they exist and agree; None when an expansion is unavailable."""
    a, b = expand(p, variables, N), expand(q, variables, N)
    if a is None or b is None:
        return None
    for m in set(a) | set(b):
        if a.get(m, Poly()) != b.get(m, Poly()):
            return True
    return False
