"""Piecewise comparison of value numbers built with fmin / fmax / fabs (piecewise-linear selection logic).

Two such expressions are compared cell by cell: a *witness point* with rational coordinates is propagated through both
(exact constant propagation, sa/pointscan.py - no floating point, nothing of cyecca is executed); it fixes which
argument every fmin / fmax selects and the sign under every fabs.  If no selection is tied at the point, the point is
interior to the cell on which those selections hold, and on that cell both expressions are the *symbolic* polynomials
obtained by substituting the selected arguments.  Those are compared as canonical forms: if they differ, the two
functions differ on an open set (two different rational functions cannot agree on an open set), and the witness names
the cell.  Agreement on the explored cells is NOT a proof of equality (cells may have been missed): it is reported as
'no difference found'.
"""
import itertools
from fractions import Fraction

from .poly import Poly, all_atoms, deep_subs
from .pointscan import Scan

SWITCH = ("fmin", "fmax", "fabs")


def switch_atoms(*polys):
    out = []
    for p in polys:
        for a in all_atoms(p):
            if a.kind in SWITCH and a not in out:
                out.append(a)
    return out


def resolve_at(point, polys):
    """-> (mapping switch atom -> selected symbolic value, tie flag)"""
    sc = Scan(point)
    sel = {}
    for a in switch_atoms(*polys):
        if a.kind == "fabs":
            v = sc.poly(a.key[0])
            if v is None or v == 0:
                return None
            sel[a] = a.key[0] if v > 0 else -a.key[0]
        else:
            x, y = sc.poly(a.key[0]), sc.poly(a.key[1])
            if x is None or y is None or x == y:
                return None
            first = (x < y) if a.kind == "fmin" else (x > y)
            sel[a] = a.key[0] if first else a.key[1]
    return sel


def apply_selection(p, sel):
    def f(a):
        if a in sel:
            return deep_subs(sel[a], f)
        return None
    return deep_subs(p, f)


def piecewise_compare(p, q, grid_syms, other_syms, grid=(-2, -1, 1, 3), others=(7, Fraction(1, 3), Fraction(1, 5), 5, 2, 11)):
    """-> ("different", witness dict, p_cell, q_cell) | ("no-difference", n_cells) | ("undecided", reason)
    grid_syms: symbol atoms that take every combination of `grid`; other_syms get fixed generic positive values."""
    from .decide import decide, DIFFERENT, EQUAL
    fixed = {a: Fraction(v) for a, v in zip(other_syms, itertools.cycle(others))}
    seen = set()
    undec = 0
    for combo in itertools.product(grid, repeat=len(grid_syms)):
        pt = dict(fixed)
        pt.update({a: Fraction(v) for a, v in zip(grid_syms, combo)})
        sel = resolve_at(pt, [p, q])
        if sel is None:
            continue
        key = tuple(sorted((a.id, id(v) if not isinstance(v, Poly) else hash(repr(sorted((repr(m), c) for m, c in v.t.items())))) for a, v in sel.items()))
        if key in seen:
            continue
        seen.add(key)
        pc, qc = apply_selection(p, sel), apply_selection(q, sel)
        if switch_atoms(pc, qc):
            undec += 1
            continue
        v = decide(pc, qc)
        if v == DIFFERENT:
            return "different", {repr(a): str(val) for a, val in pt.items() if a in grid_syms}, pc, qc
        if v != EQUAL:
            undec += 1
    if undec:
        return "undecided", "%d cells could not be compared" % undec
    return "no-difference", len(seen)
