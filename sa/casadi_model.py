"""Abstract semantics of the CasADi entry points that cyecca uses.

Every CasADi matrix is a MatVal: a shape plus one canonical Poly per cell.
Structural operations (concatenation, slicing, reshape, transpose, matrix
product, element-wise arithmetic) are exact; non-polynomial operators become
opaque atoms keyed by operator name and argument value numbers.

This module never imports casadi.  It is the analyser's *model* of it and is
part of the trusted base (DESIGN.md section 2).
"""
from fractions import Fraction
from math import isqrt

from .poly import Poly, Atom, opaque, to_frac, poly_syms, deep_subs, register_rebuild, atom_syms, DIFF_RULES


class InterpRaise(Exception):
    """A Python-level exception raised by the analysed program (for every input)."""

    def __init__(self, kind, msg="", node=None, chain=None, module=None):
        Exception.__init__(self, kind, msg)
        self.kind = kind
        self.msg = msg
        self.node = node
        self.chain = chain or []
        self.module = module

    def __str__(self):
        return "%s: %s" % (self.kind, self.msg)


class Unsupported(Exception):
    """The analyser cannot interpret a construct (never a verdict about cyecca)."""

    def __init__(self, msg, node=None, module=None):
        Exception.__init__(self, msg)
        self.msg = msg
        self.node = node
        self.module = module
        self.chain = []


ZERO = Poly()
ONE = Poly.const(1)


class MatVal:
    __slots__ = ("r", "c", "cells", "kind")

    def __init__(self, r, c, cells=None, kind="SX"):
        self.r = r
        self.c = c
        self.kind = kind
        self.cells = cells if cells is not None else [[ZERO] * c for _ in range(r)]

    @property
    def shape(self):
        return (self.r, self.c)

    def copy(self, kind=None):
        return MatVal(self.r, self.c, [row[:] for row in self.cells], kind or self.kind)

    def is_scalar(self):
        return self.r == 1 and self.c == 1

    def flat(self):
        """cells in column-major order (CasADi's linear order)."""
        return [self.cells[i][j] for j in range(self.c) for i in range(self.r)]

    def s(self):
        return self.cells[0][0]

    def __repr__(self):
        if self.r * self.c <= 12:
            return "%s%dx%d%s" % (self.kind, self.r, self.c, self.cells)
        return "%s%dx%d" % (self.kind, self.r, self.c)

    def __eq__(self, o):
        raise TypeError("use mat_equal")

    def __hash__(self):
        # like a CasADi SX object: usable as a dictionary key, by identity
        return id(self)


def mat_equal(a, b):
    return a.shape == b.shape and all(a.cells[i][j] == b.cells[i][j] for i in range(a.r) for j in range(a.c))


def scalar(p, kind="SX"):
    return MatVal(1, 1, [[p]], kind)


PI_POLY = Poly.sym("pi", None)


def pynum(p):
    return MatVal(1, 1, [[p]], "PY")


PI = pynum(PI_POLY)


def is_number(v):
    return isinstance(v, (int, float, Fraction)) and not isinstance(v, bool)


def kind_of(*vals):
    k = "PY"
    for v in vals:
        if isinstance(v, MatVal):
            if v.kind == "SX":
                return "SX"
            if v.kind == "DM":
                k = "DM"
    return k


def to_mat(v, kind=None):
    if isinstance(v, MatVal):
        return v
    if isinstance(v, bool):
        return MatVal(1, 1, [[Poly.const(int(v))]], kind or "PY")
    if is_number(v):
        return MatVal(1, 1, [[Poly.const(v)]], kind or "PY")
    if isinstance(v, Poly):
        return scalar(v)
    if isinstance(v, (list, tuple)):
        if v and isinstance(v[0], (list, tuple)):
            rows = [[to_mat(x) for x in row] for row in v]
            k = kind or kind_of(*[x for row in rows for x in row])
            return MatVal(len(v), len(v[0]), [[x.s() for x in row] for row in rows], "DM" if k == "PY" else k)
        items = [to_mat(x) for x in v]
        for x in items:
            if not x.is_scalar():
                raise InterpRaise("NotImplementedError", "cannot build a matrix from a list of non-scalars")
        k = kind or kind_of(*items)
        return MatVal(len(v), 1, [[x.s()] for x in items], "DM" if k == "PY" else k)
    if type(v).__name__ == "Stub":
        # a value of a library object the analysis does not model: no verdict, never "the program raises"
        raise Unsupported("value of an unmodelled library object (%s) reaches a CasADi operation" % getattr(v, "_name", "?"))
    raise InterpRaise("NotImplementedError", "cannot convert %s to a CasADi matrix" % type(v).__name__)


def _bcast(a, b):
    if a.is_scalar() and not b.is_scalar():
        a = MatVal(b.r, b.c, [[a.s()] * b.c for _ in range(b.r)], a.kind)
    elif b.is_scalar() and not a.is_scalar():
        b = MatVal(a.r, a.c, [[b.s()] * a.c for _ in range(a.r)], b.kind)
    if a.shape != b.shape:
        raise InterpRaise("RuntimeError", "Dimension mismatch for element-wise operation: %s vs %s" % (a.shape, b.shape))
    return a, b


def ew(a, b, f):
    a = to_mat(a)
    b = to_mat(b)
    k = kind_of(a, b)
    a, b = _bcast(a, b)
    return MatVal(a.r, a.c, [[f(a.cells[i][j], b.cells[i][j]) for j in range(a.c)] for i in range(a.r)], k)


def ew1(a, f):
    a = to_mat(a)
    return MatVal(a.r, a.c, [[f(p) for p in row] for row in a.cells], a.kind)


def padd(x, y):
    return x + y


def psub(x, y):
    return x - y


def pmul(x, y):
    return x * y


def pdiv(x, y):
    if y.is_zero():
        if x.is_zero():
            return opaque("nan")
        return opaque("div0", x)
    return x * y.recip()


def neg(a):
    return ew1(a, lambda p: -p)


# --------------------------------------------------------------------------- unary operators

ODD = {"sin", "tan", "asin", "atan", "sinh", "tanh", "asinh", "atanh", "sign", "erf"}
EVEN = {"cos", "fabs", "cosh"}


def _lead_negative(p):
    if not p.t:
        return False
    m, c = min(p.t.items(), key=lambda mc: tuple((a.id, e) for a, e in mc[0]))
    return c < 0


def _nzc(c):
    return c.numerator if isinstance(c, Fraction) and c.denominator == 1 else c


def _exact_sqrt(c):
    if c < 0:
        return None
    n, d = c.numerator, c.denominator
    rn, rd = isqrt(n), isqrt(d)
    if rn * rn == n and rd * rd == d:
        return Fraction(rn, rd)
    return None


def _monomial_sqrt(p):
    """If p is c^2 * m^2 for a single monomial, return (|c|, m-poly) else None."""
    if len(p.t) != 1:
        return None
    (m, c), = p.t.items()
    if not m:
        return None
    r = _exact_sqrt(c)
    if r is None or any(e % 2 for _, e in m):
        return None
    return r, Poly({tuple((a, e // 2) for a, e in m): Fraction(1)})


def un(name, p):
    cv = p.const_value()
    if cv is not None:
        if cv == 0:
            if name in ("sin", "tan", "asin", "atan", "fabs", "sqrt", "sinh", "tanh", "asinh", "atanh", "sign", "erf"):
                return ZERO
            if name in ("cos", "cosh", "exp"):
                return ONE
        if name == "fabs":
            return Poly.const(abs(cv))
        if name == "sign":
            return Poly.const(1 if cv > 0 else -1)
        if name == "sqrt":
            r = _exact_sqrt(cv)
            if r is not None:
                return Poly.const(r)
        if name == "acos" and cv == 1:
            return ZERO
        if name == "acos" and cv == 0:
            return PI_POLY.scale(Fraction(1, 2))
        if name == "acos" and cv == -1:
            return PI_POLY
        if name == "asin" and abs(cv) == 1:
            return PI_POLY.scale(Fraction(int(cv), 2))
        if name == "log" and cv == 1:
            return ZERO
        if name == "not":
            return Poly.const(0 if cv != 0 else 1)
        if name in ("floor", "ceil"):
            import math
            return Poly.const(math.floor(cv) if name == "floor" else math.ceil(cv))
    if name == "fabs":
        lo_hi = pi_interval(p)
        if lo_hi is not None:
            if lo_hi[0] >= 0:
                return p
            if lo_hi[1] <= 0:
                return -p
    if name == "sqrt":
        ms = _monomial_sqrt(p)
        if ms is not None:
            return un("fabs", ms[1]).scale(ms[0])
        if len(p.t) > 1:
            # pull an exact rational square out of the radicand so that sqrt(u/4) and sqrt(u) share an atom
            lead = min(p.t.items(), key=lambda mc: tuple((a.id, e) for a, e in mc[0]))[1]
            if lead > 0 and lead != 1:
                r = _exact_sqrt(lead)
                if r is not None:
                    return opaque("sqrt", p.scale(Fraction(1) / lead)).scale(r)
    if name in ("sin", "cos", "tan"):
        # exact compositions with inverse trigonometric functions (principal values)
        ia = p.single_atom()
        if ia is not None:
            u = ia.key[0] if ia.key and isinstance(ia.key[0], Poly) else None
            if ia.kind == "asin":
                if name == "sin":
                    return u
                if name == "cos":
                    return un("sqrt", ONE - u * u)
            elif ia.kind == "acos":
                if name == "cos":
                    return u
                if name == "sin":
                    return un("sqrt", ONE - u * u)
            elif ia.kind == "atan":
                if name == "tan":
                    return u
                h = un("sqrt", ONE + u * u)
                return pdiv(u, h) if name == "sin" else pdiv(ONE, h) if name == "cos" else u
            elif ia.kind == "atan2" and name in ("sin", "cos"):
                y, x = ia.key
                h = un("sqrt", x * x + y * y)
                return pdiv(y, h) if name == "sin" else pdiv(x, h)
    if name in ("sin", "cos"):
        # shift identities: strip k*pi/2 from the argument (exact); pure constants are folded into [0, pi/4]
        pia = PI_POLY.single_atom()
        mono = ((pia, 1),)
        c = p.t.get(mono)
        if c is not None:
            c = Fraction(c)
            k = (2 * c).__floor__()
            r = c - Fraction(k, 2)
            if k != 0:
                rest = p - Poly({mono: _nzc(c)}) + (Poly({mono: _nzc(r)}) if r != 0 else Poly())
                s_, c_ = un("sin", rest), un("cos", rest)
                k %= 4
                if name == "sin":
                    return (s_, c_, -s_, -c_)[k]
                return (c_, -s_, -c_, s_)[k]
            if len(p.t) == 1 and Fraction(1, 4) <= c < Fraction(1, 2):
                # co-function: sin(c pi) = cos((1/2 - c) pi), cos(c pi) = sin((1/2 - c) pi), then fold again
                q = Poly({mono: _nzc(Fraction(1, 2) - c)})
                if c == Fraction(1, 4):
                    return opaque("sqrt", Poly.const(Fraction(1, 2)))      # sin(pi/4) = cos(pi/4) = sqrt(1/2)
                return un("cos" if name == "sin" else "sin", q)
    if name == "acos" and _lead_negative(p):
        # acos(-u) = pi - acos(u)
        return PI_POLY - opaque("acos", -p)
    if name in ODD and _lead_negative(p):
        return -un(name, -p)
    if name in EVEN and _lead_negative(p):
        return un(name, -p)
    if name == "fabs":
        a = p.single_atom()
        if a is not None and a.kind in ("fabs", "sqrt"):
            return p
    return opaque(name, p)


UNARY = ["sin", "cos", "tan", "asin", "acos", "atan", "sqrt", "fabs", "sign", "exp", "log",
         "sinh", "cosh", "tanh", "asinh", "acosh", "atanh", "floor", "ceil", "erf"]
for _n in UNARY:
    register_rebuild(_n, (lambda n: lambda p: un(n, p))(_n))
register_rebuild("not", lambda p: un("not", p))


def unop(name):
    return lambda a: ew1(a, lambda p: un(name, p))


# --------------------------------------------------------------------------- binary opaque operators

PI_LO, PI_HI = Fraction(314159265, 100000000), Fraction(314159266, 100000000)


def pi_interval(p):
    """(lo, hi) rational bounds of a constant of the form a + b*pi (3.14159265 < pi < 3.14159266), else None."""
    pia = PI_POLY.single_atom()
    a = Fraction(0)
    b = Fraction(0)
    for m, c in p.t.items():
        if m == ():
            a = Fraction(c)
        elif m == ((pia, 1),):
            b = Fraction(c)
        else:
            return None
    if b == 0:
        return (a, a)
    lo, hi = (a + b * PI_LO, a + b * PI_HI) if b > 0 else (a + b * PI_HI, a + b * PI_LO)
    return (lo, hi)


def const_float(p):
    """Floating-point value of a closed constant value number (rationals, pi, elementary functions of such), else None.
    Used only to fold comparisons between constants with a clear margin, as CasADi's own constant folding does."""
    import math
    total = 0.0
    for mono, c in p.t.items():
        term = float(c)
        for a, e in mono:
            if a.kind == "sym" and a.key[0] == "pi":
                v = math.pi
            elif a.kind in ("cos", "sin", "tan", "acos", "asin", "atan", "sqrt", "exp", "fabs") and isinstance(a.key[0], Poly):
                u = const_float(a.key[0])
                if u is None:
                    return None
                try:
                    v = getattr(math, a.kind)(u)
                except (ValueError, OverflowError):
                    return None
            else:
                return None
            if v == 0 and e < 0:
                return None
            term *= v ** e
        total += term
    return total


def _cmp(name, x, y):
    cx, cy = x.const_value(), y.const_value()
    if (cx is None or cy is None) and name in ("lt", "le"):
        d = const_float(y - x)
        if d is not None and abs(d) > 1e-9:
            return Poly.const(1 if d > 0 else 0)
    if (cx is None or cy is None) and name in ("lt", "le"):
        iv = pi_interval(y - x)
        if iv is not None:
            if iv[0] > 0:
                return Poly.const(1)
            if iv[1] < 0:
                return Poly.const(0)
    if cx is not None and cy is not None:
        r = {"lt": cx < cy, "le": cx <= cy, "eq": cx == cy, "ne": cx != cy}[name]
        return Poly.const(int(r))
    if name in ("eq", "ne") and x == y:
        return Poly.const(1 if name == "eq" else 0)
    if name in ("eq", "ne") and hash(x) > hash(y):
        x, y = y, x
    return opaque(name, x, y)


def rel(name):
    if name == "gt":
        return lambda a, b: ew(b, a, lambda x, y: _cmp("lt", x, y))
    if name == "ge":
        return lambda a, b: ew(b, a, lambda x, y: _cmp("le", x, y))
    return lambda a, b: ew(a, b, lambda x, y: _cmp(name, x, y))


for _n in ("lt", "le", "eq", "ne"):
    register_rebuild(_n, (lambda n: lambda x, y: _cmp(n, x, y))(_n))


def _logic(name, x, y):
    cx, cy = x.const_value(), y.const_value()
    if name == "and":
        if cx is not None:
            return y if cx != 0 else ZERO
        if cy is not None:
            return x if cy != 0 else ZERO
    if name == "or":
        if cx is not None:
            return ONE if cx != 0 else y
        if cy is not None:
            return ONE if cy != 0 else x
    return opaque(name, x, y)


register_rebuild("and", lambda x, y: _logic("and", x, y))
register_rebuild("or", lambda x, y: _logic("or", x, y))


def _bin(name, x, y):
    cx, cy = x.const_value(), y.const_value()
    if name in ("fmin", "fmax"):
        if cx is not None and cy is not None:
            return Poly.const(min(cx, cy) if name == "fmin" else max(cx, cy))
        if x == y:
            return x
    if name == "atan2" and cx == 0 and cy is not None and cy > 0:
        return ZERO
    if name == "pow":
        if cy is not None and cy.denominator == 1 and abs(cy) <= 16:
            return x ** int(cy)
        if cy == Fraction(1, 2):
            return un("sqrt", x)
    return opaque(name, x, y)


for _n in ("fmin", "fmax", "atan2", "pow", "remainder", "fmod", "copysign", "hypot"):
    register_rebuild(_n, (lambda n: lambda x, y: _bin(n, x, y))(_n))


def binop(name):
    return lambda a, b: ew(a, b, lambda x, y: _bin(name, x, y))


def ite(c, x, y):
    cv = c.const_value()
    if cv is not None:
        return x if cv != 0 else y
    if x == y:
        return x
    # one spelling per selection: a negated condition, `<=` and `!=` are the complement of `<`, `<` and `==` with the
    # branches exchanged (on the reals; NaN operands are outside every property), so that `if_else(not c, b, a)`,
    # `if_else(x <= k, b, a)` and `if_else(k < x, a, b)` are one value
    a = c.single_atom()
    if a is not None and c == Poly.atom(a):
        if a.kind == "not" and isinstance(a.key[0], Poly):
            return ite(a.key[0], y, x)
        if a.kind == "le":
            return ite(_cmp("lt", a.key[1], a.key[0]), y, x)
        if a.kind == "ne":
            return ite(_cmp("eq", a.key[0], a.key[1]), y, x)
    return opaque("ite", c, x, y)


register_rebuild("ite", ite)
register_rebuild("recip", lambda p: p.recip() if not p.is_zero() else opaque("div0", ONE))


def _remul(*args):
    r = ONE
    for a in args:
        r = r * a
    return r


register_rebuild("mul", _remul)
register_rebuild("bigmul", _remul)


def _install_diff_rules():
    half = Fraction(1, 2)

    def A(b):
        return Poly.atom(b)
    DIFF_RULES["recip"] = lambda b, a: -(A(b) * A(b)) * b.key[0].diff(a)
    DIFF_RULES["sqrt"] = lambda b, a: (A(b).recip() * b.key[0].diff(a)).scale(half)
    DIFF_RULES["sin"] = lambda b, a: un("cos", b.key[0]) * b.key[0].diff(a)
    DIFF_RULES["cos"] = lambda b, a: -(un("sin", b.key[0]) * b.key[0].diff(a))
    DIFF_RULES["tan"] = lambda b, a: (ONE + A(b) * A(b)) * b.key[0].diff(a)
    DIFF_RULES["atan"] = lambda b, a: (ONE + b.key[0] * b.key[0]).recip() * b.key[0].diff(a)
    DIFF_RULES["asin"] = lambda b, a: un("sqrt", ONE - b.key[0] * b.key[0]).recip() * b.key[0].diff(a)
    DIFF_RULES["acos"] = lambda b, a: -(un("sqrt", ONE - b.key[0] * b.key[0]).recip() * b.key[0].diff(a))
    DIFF_RULES["exp"] = lambda b, a: A(b) * b.key[0].diff(a)
    DIFF_RULES["log"] = lambda b, a: b.key[0].recip() * b.key[0].diff(a)
    DIFF_RULES["ite"] = lambda b, a: ite(b.key[0], b.key[1].diff(a), b.key[2].diff(a))
    DIFF_RULES["series"] = lambda b, a: opaque("dseries", b.key[0], b.key[1], b.key[2]) * b.key[2].diff(a)
    DIFF_RULES["fabs"] = lambda b, a: un("sign", b.key[0]) * b.key[0].diff(a)


_install_diff_rules()


def if_else(c, a, b, *rest):
    c = to_mat(c)
    a = to_mat(a)
    b = to_mat(b)
    k = "SX" if "SX" in (c.kind, a.kind, b.kind) else "DM"
    a, b = _bcast(a, b)
    if c.is_scalar():
        cc = c.s()
        return MatVal(a.r, a.c, [[ite(cc, a.cells[i][j], b.cells[i][j]) for j in range(a.c)] for i in range(a.r)], k)
    # CasADi: if_else is if_else_zero(c, a) + if_else_zero(!c, b), element-wise with scalar broadcasting
    c, a = _bcast(c, a)
    c, b = _bcast(c, b)
    return MatVal(a.r, a.c, [[ite(c.cells[i][j], a.cells[i][j], b.cells[i][j]) for j in range(a.c)] for i in range(a.r)], k)


# --------------------------------------------------------------------------- structure

def _casadi_kind(ms):
    k = kind_of(*ms)
    return "DM" if k == "PY" else k


def vertcat(*args):
    ms = [to_mat(a) for a in args]
    ms = [m for m in ms if not (m.r == 0 and m.c in (0, 1))]
    if not ms:
        return MatVal(0, 1, [], "DM")
    c = ms[0].c
    for m in ms:
        if m.c != c:
            raise InterpRaise("RuntimeError", "vertcat: dimension mismatch %s" % [m.shape for m in ms])
    return MatVal(sum(m.r for m in ms), c, [row[:] for m in ms for row in m.cells], _casadi_kind(ms))


def horzcat(*args):
    ms = [to_mat(a) for a in args]
    ms = [m for m in ms if not (m.c == 0 and m.r in (0, 1))]
    if not ms:
        return MatVal(1, 0, [[]], "DM")
    r = ms[0].r
    for m in ms:
        if m.r != r:
            raise InterpRaise("RuntimeError", "horzcat: dimension mismatch %s" % [m.shape for m in ms])
    return MatVal(r, sum(m.c for m in ms), [[p for m in ms for p in m.cells[i]] for i in range(r)], _casadi_kind(ms))


def diagcat(*args):
    ms = [to_mat(a) for a in args]
    R = sum(m.r for m in ms)
    C = sum(m.c for m in ms)
    out = MatVal(R, C, None, _casadi_kind(ms) if ms else "DM")
    i0 = j0 = 0
    for m in ms:
        for i in range(m.r):
            for j in range(m.c):
                out.cells[i0 + i][j0 + j] = m.cells[i][j]
        i0 += m.r
        j0 += m.c
    return out


def blockcat(*a):
    if len(a) == 4:
        return vertcat(horzcat(a[0], a[1]), horzcat(a[2], a[3]))
    if len(a) == 1:
        return vertcat(*[horzcat(*row) for row in a[0]])
    raise InterpRaise("TypeError", "blockcat expects 4 blocks or a list of lists")


def transpose(a):
    a = to_mat(a)
    return MatVal(a.c, a.r, [[a.cells[i][j] for i in range(a.r)] for j in range(a.c)], a.kind)


def matmul(a, b):
    a = to_mat(a)
    b = to_mat(b)
    if a.is_scalar() or b.is_scalar():
        return ew(a, b, pmul)
    if a.c != b.r:
        raise InterpRaise("RuntimeError", "mtimes: dimension mismatch %s @ %s" % (a.shape, b.shape))
    out = MatVal(a.r, b.c, None, kind_of(a, b))
    bcols = [[b.cells[k][j] for k in range(b.r)] for j in range(b.c)]
    for i in range(a.r):
        row = a.cells[i]
        nz = [k for k in range(a.c) if row[k].t]
        for j in range(b.c):
            col = bcols[j]
            s = ZERO
            for k in nz:
                y = col[k]
                if y.t:
                    s = s + row[k] * y
            out.cells[i][j] = s
    return out


def mtimes(*a):
    if len(a) == 1 and isinstance(a[0], (list, tuple)):
        out = a[0][0]
        for x in a[0][1:]:
            out = matmul(out, x)
        return to_mat(out)
    if len(a) != 2:
        raise InterpRaise("TypeError", "mtimes expects two arguments or one list")
    return matmul(*a)


def times(a, b):
    return ew(a, b, pmul)


def dot(a, b):
    a = to_mat(a)
    b = to_mat(b)
    if a.shape != b.shape:
        raise InterpRaise("RuntimeError", "dot: dimension mismatch %s vs %s" % (a.shape, b.shape))
    s = ZERO
    for i in range(a.r):
        for j in range(a.c):
            if a.cells[i][j].t and b.cells[i][j].t:
                s = s + a.cells[i][j] * b.cells[i][j]
    return scalar(s, kind_of(a, b))


def cross(a, b, *rest):
    a = to_mat(a)
    b = to_mat(b)
    if a.shape != b.shape or a.r * a.c != 3:
        raise InterpRaise("RuntimeError", "cross: needs two 3-vectors, got %s, %s" % (a.shape, b.shape))
    x = a.flat()
    y = b.flat()
    cells = [x[1] * y[2] - x[2] * y[1], x[2] * y[0] - x[0] * y[2], x[0] * y[1] - x[1] * y[0]]
    k = kind_of(a, b)
    if a.c == 1:
        return MatVal(3, 1, [[c] for c in cells], k)
    return MatVal(1, 3, [cells], k)


def sumsqr(a):
    a = to_mat(a)
    s = ZERO
    for p in a.flat():
        if p.t:
            s = s + p * p
    return scalar(s, a.kind)


def norm_2(a):
    a = to_mat(a)
    if a.r != 1 and a.c != 1:
        return scalar(opaque("norm2mat", *a.flat()), a.kind)
    nz = [p for p in a.flat() if p.t]
    if len(nz) == 1:
        return scalar(un("fabs", nz[0]), a.kind)      # CasADi: norm_2 of a (structurally) single entry is fabs
    return scalar(un("sqrt", sumsqr(a).s()), a.kind)


def trace(a):
    a = to_mat(a)
    if a.r != a.c:
        raise InterpRaise("RuntimeError", "trace: not square %s" % (a.shape,))
    s = ZERO
    for i in range(a.r):
        s = s + a.cells[i][i]
    return scalar(s, a.kind)


def reshape(a, *shape):
    a = to_mat(a)
    if len(shape) == 1:
        shape = shape[0]
    r, c = shape
    flat = a.flat()
    if r * c != len(flat):
        raise InterpRaise("RuntimeError", "reshape: size mismatch %s -> %s" % (a.shape, (r, c)))
    return MatVal(r, c, [[flat[j * r + i] for j in range(c)] for i in range(r)], a.kind)


def tril(a, include_diag=True):
    a = to_mat(a)
    return MatVal(a.r, a.c, [[a.cells[i][j] if (j < i or (include_diag and j == i)) else ZERO for j in range(a.c)] for i in range(a.r)], a.kind)


def triu(a, include_diag=True):
    a = to_mat(a)
    return MatVal(a.r, a.c, [[a.cells[i][j] if (j > i or (include_diag and j == i)) else ZERO for j in range(a.c)] for i in range(a.r)], a.kind)


def triu2symm(a):
    a = to_mat(a)
    return MatVal(a.r, a.c, [[a.cells[min(i, j)][max(i, j)] for j in range(a.c)] for i in range(a.r)], a.kind)


def tril2symm(a):
    a = to_mat(a)
    return MatVal(a.r, a.c, [[a.cells[max(i, j)][min(i, j)] for j in range(a.c)] for i in range(a.r)], a.kind)


def diag(a):
    a = to_mat(a)
    if a.c == 1 or a.r == 1:
        v = a.flat()
        n = len(v)
        m = MatVal(n, n, None, a.kind)
        for i in range(n):
            m.cells[i][i] = v[i]
        return m
    if a.r != a.c:
        raise InterpRaise("RuntimeError", "diag: not square")
    return MatVal(a.r, 1, [[a.cells[i][i]] for i in range(a.r)], a.kind)


def _split_offsets(n, inc):
    """CasADi vertsplit/horzsplit second argument: an increment (default 1) or an explicit offset list [0, ..., n]."""
    if not inc:
        step = 1
    else:
        v = inc[0]
        if isinstance(v, (list, tuple)):
            offs = [int(x) for x in v]
            if not offs or offs[0] != 0 or offs[-1] != n or any(b < a for a, b in zip(offs, offs[1:])):
                raise InterpRaise("RuntimeError", "split: offsets %s do not partition [0, %d]" % (offs, n))
            return offs
        if isinstance(v, MatVal):
            cv = v.s().const_value() if v.is_scalar() else None
            if cv is None:
                raise Unsupported("split with a symbolic increment")
            v = cv
        step = int(v)
        if step < 1:
            raise InterpRaise("RuntimeError", "split: increment must be positive")
    offs = list(range(0, n, step))
    return offs + [n]


def vertsplit(a, *inc):
    a = to_mat(a)
    offs = _split_offsets(a.r, inc)
    return [MatVal(hi - lo, a.c, [a.cells[i][:] for i in range(lo, hi)], a.kind) for lo, hi in zip(offs, offs[1:])]


def horzsplit(a, *inc):
    a = to_mat(a)
    offs = _split_offsets(a.c, inc)
    return [MatVal(a.r, hi - lo, [[a.cells[i][j] for j in range(lo, hi)] for i in range(a.r)], a.kind) for lo, hi in zip(offs, offs[1:])]


def diff(a, n=1, axis=-1):
    """ca.diff: n-th order difference along `axis`; with the default axis (-1) along the FIRST NON-SINGLETON dimension
    (MATLAB convention): down the rows unless the matrix has a single row."""
    a = to_mat(a)
    n = int(n.s().const_value()) if isinstance(n, MatVal) else int(n)
    axis = int(axis.s().const_value()) if isinstance(axis, MatVal) else int(axis)
    for _ in range(n):
        ax = axis if axis in (0, 1) else (0 if a.r > 1 else 1)
        if ax == 0:
            a = MatVal(max(a.r - 1, 0), a.c, [[psub(a.cells[i + 1][j], a.cells[i][j]) for j in range(a.c)] for i in range(a.r - 1)], a.kind)
        else:
            a = MatVal(a.r, max(a.c - 1, 0), [[psub(a.cells[i][j + 1], a.cells[i][j]) for j in range(a.c - 1)] for i in range(a.r)], a.kind)
    return a


def is_diagonal(a):
    return a.r == a.c and all(i == j or not a.cells[i][j].t for i in range(a.r) for j in range(a.c))


def inv(a):
    a = to_mat(a)
    if a.r != a.c:
        raise InterpRaise("RuntimeError", "inv: not square %s" % (a.shape,))
    if a.r == 1:
        return scalar(pdiv(ONE, a.s()), a.kind)
    if is_diagonal(a) and all(a.cells[i][i].t for i in range(a.r)):
        out = MatVal(a.r, a.c, None, a.kind)
        for i in range(a.r):
            out.cells[i][i] = a.cells[i][i].recip()
        return out
    args = tuple(a.flat())
    # a structurally triangular argument gets a structurally triangular inverse (as CasADi's sparsity propagation gives)
    lower = all(not a.cells[i][j].t for i in range(a.r) for j in range(i + 1, a.c))
    upper = all(not a.cells[i][j].t for i in range(a.r) for j in range(i))
    zero = lambda i, j: (lower and j > i) or (upper and j < i)
    return MatVal(a.r, a.c, [[ZERO if zero(i, j) else opaque("inv", i, j, a.r, *args) for j in range(a.c)] for i in range(a.r)], a.kind)


def solve(a, b, *rest):
    a = to_mat(a)
    b = to_mat(b)
    if a.r != a.c or a.r != b.r:
        raise InterpRaise("RuntimeError", "solve: dimension mismatch %s \\ %s" % (a.shape, b.shape))
    args = tuple(a.flat()) + tuple(b.flat())
    return MatVal(b.r, b.c, [[opaque("solve", i, j, a.r, b.c, *args) for j in range(b.c)] for i in range(b.r)], kind_of(a, b))


def qr(B):
    B = to_mat(B)
    n, m = B.r, B.c
    args = tuple(B.flat())
    Q = MatVal(n, m, [[opaque("qrQ", i, j, n, m, *args) for j in range(m)] for i in range(n)], B.kind)
    R = MatVal(m, m, [[opaque("qrR", i, j, n, m, *args) if j >= i else ZERO for j in range(m)] for i in range(m)], B.kind)
    return Q, R


def _sym_atoms(x, what):
    x = to_mat(x)
    out = []
    for p in x.flat():
        if not p.t:
            out.append(None)  # structural zero of a sparse symbol
            continue
        a = p.single_atom()
        if a is None or a.kind != "sym":
            raise Unsupported("%s: second argument must be purely symbolic" % what)
        out.append(a)
    return out


def jacobian(e, x, *opts):
    e = to_mat(e)
    xs = [a for a in _sym_atoms(x, "jacobian") if a is not None]
    es = e.flat()
    out = MatVal(len(es), len(xs), None, "SX")
    for i, p in enumerate(es):
        if not p.t:
            continue
        syms = poly_syms(p)
        for j, a in enumerate(xs):
            if a in syms:
                out.cells[i][j] = p.diff(a)
    return out


def subst_map(x, v, what="substitute"):
    x = to_mat(x)
    v = to_mat(v)
    if v.is_scalar() and not x.is_scalar():
        v = MatVal(x.r, x.c, [[v.s()] * x.c for _ in range(x.r)], v.kind)
    if x.shape != v.shape:
        if x.shape == (v.c, v.r) and (x.r == 1 or x.c == 1):
            v = transpose(v)
        else:
            raise InterpRaise("RuntimeError", "%s: dimension mismatch %s vs %s" % (what, x.shape, v.shape))
    m = {}
    for a, p in zip(_sym_atoms(x, what), v.flat()):
        if a is not None:
            m[a] = p
    return m


def apply_map(e, m):
    e = to_mat(e)
    memo = {}
    keys = frozenset(m)

    def f(a):
        if a.kind == "sym":
            return m.get(a)
        if not (atom_syms(a) & keys):
            return Poly.atom(a)
        return None

    return MatVal(e.r, e.c, [[deep_subs(p, f, memo) if p.t else p for p in row] for row in e.cells], e.kind)


def substitute(e, x, v):
    r = apply_map(e, subst_map(x, v))
    r.kind = "SX"
    return r


def depends_on(e, x):
    e = to_mat(e)
    xs = {a for a in _sym_atoms(x, "depends_on") if a is not None}
    for p in e.flat():
        if poly_syms(p) & xs:
            return True
    return False


def mmax(a):
    v = to_mat(a).flat()
    if not v:
        raise InterpRaise("RuntimeError", "mmax of empty")
    r = v[0]
    for p in v[1:]:
        r = _bin("fmax", r, p)
    return scalar(r, to_mat(a).kind)


def mmin(a):
    v = to_mat(a).flat()
    if not v:
        raise InterpRaise("RuntimeError", "mmin of empty")
    r = v[0]
    for p in v[1:]:
        r = _bin("fmin", r, p)
    return scalar(r, to_mat(a).kind)


def logic_all(a):
    a = to_mat(a)
    r = ONE
    for p in a.flat():
        r = _logic("and", r, p)
    return scalar(r, a.kind)


def logic_any(a):
    a = to_mat(a)
    r = ZERO
    for p in a.flat():
        r = _logic("or", r, p)
    return scalar(r, a.kind)


def sum1(a):
    a = to_mat(a)
    out = MatVal(1, a.c, None, a.kind)
    for j in range(a.c):
        s = ZERO
        for i in range(a.r):
            s = s + a.cells[i][j]
        out.cells[0][j] = s
    return out


def sum2(a):
    return transpose(sum1(transpose(a)))


def power(a, b):
    return ew(a, b, lambda x, y: _bin("pow", x, y))


# --------------------------------------------------------------------------- classes SX / DM / Sparsity

class SparsityVal:
    def __init__(self, kind, n):
        self.kind = kind
        self.n = n

    def mask(self, i, j):
        return {"lower": j <= i, "upper": j >= i, "diag": i == j, "dense": True}[self.kind]


class SparsityNS:
    @staticmethod
    def lower(n):
        return SparsityVal("lower", n)

    @staticmethod
    def upper(n):
        return SparsityVal("upper", n)

    @staticmethod
    def diag(n, *m):
        return SparsityVal("diag", n)

    @staticmethod
    def dense(n, m=1):
        return SparsityVal("dense", n)


class SymCounter:
    n = 0


class MatClass:
    """ca.SX / ca.DM as callable namespaces."""

    def __init__(self, name):
        self.name = name

    def __repr__(self):
        return "<casadi.%s>" % self.name

    def __call__(self, *a):
        if len(a) == 0:
            return MatVal(0, 0, [], self.name)
        if len(a) == 2 and all(isinstance(x, int) and not isinstance(x, bool) for x in a):
            return MatVal(a[0], a[1], None, self.name)
        if len(a) == 1:
            if isinstance(a[0], SparsityVal):
                return MatVal(a[0].n, a[0].n, None, self.name)
            m = to_mat(a[0])
            if self.name == "DM" and m.kind == "SX":
                raise InterpRaise("NotImplementedError", "DM(SX) is not allowed")
            return m.copy(self.name)
        raise InterpRaise("NotImplementedError", "%s%r" % (self.name, tuple(type(x).__name__ for x in a)))

    def sym(self, name, r=1, c=1, *rest):
        if self.name != "SX":
            raise InterpRaise("AttributeError", "DM has no attribute sym")
        if rest:
            raise Unsupported("SX.sym returning lists is not modelled")
        SymCounter.n += 1
        tag = "%s#%d" % (name, SymCounter.n)
        if isinstance(r, SparsityVal):
            n = r.n
            out = MatVal(n, n)
            k = 0
            for j in range(n):
                for i in range(n):
                    if r.mask(i, j):
                        out.cells[i][j] = Poly.sym(tag, k)
                        k += 1
            return out
        if not isinstance(r, int) or not isinstance(c, int) or isinstance(r, bool):
            raise InterpRaise("NotImplementedError", "SX.sym(%r, %r, %r)" % (name, r, c))
        if r == 1 and c == 1:
            return MatVal(1, 1, [[Poly.sym(tag, None)]])
        return MatVal(r, c, [[Poly.sym(tag, j * r + i) for j in range(c)] for i in range(r)])

    def eye(self, n):
        m = MatVal(n, n, None, self.name)
        for i in range(n):
            m.cells[i][i] = ONE
        return m

    def zeros(self, r=1, c=1):
        if isinstance(r, SparsityVal):
            return MatVal(r.n, r.n, None, self.name)
        if isinstance(r, tuple):
            r, c = r
        return MatVal(r, c, None, self.name)

    def ones(self, r=1, c=1):
        if isinstance(r, tuple):
            r, c = r
        return MatVal(r, c, [[ONE] * c for _ in range(r)], self.name)


SX = MatClass("SX")
DM = MatClass("DM")


# --------------------------------------------------------------------------- ca.Function / CodeGenerator

class FunctionVal:
    registry = []

    def __init__(self, name, ins, outs, in_names=None, out_names=None, *rest, node=None, module=None):
        if not isinstance(name, str):
            raise InterpRaise("NotImplementedError", "Function name must be a string")
        if isinstance(in_names, dict):
            in_names = None
        if not isinstance(ins, (list, tuple)) or not isinstance(outs, (list, tuple)):
            raise InterpRaise("NotImplementedError", "Function(%s): inputs and outputs must be lists" % name)
        self.fname = name
        self.ins = [to_mat(i) for i in ins]
        self.outs = [to_mat(o) for o in outs]
        self.in_names = list(in_names) if in_names is not None else None
        self.out_names = list(out_names) if out_names is not None else None
        self.node = node
        self.module = module
        self.problems = []
        if in_names is not None and len(in_names) != len(ins):
            self.problems.append("%d inputs but %d input names" % (len(ins), len(in_names)))
        if out_names is not None and len(out_names) != len(outs):
            self.problems.append("%d outputs but %d output names" % (len(outs), len(out_names)))
        for lst, what in ((self.in_names, "input"), (self.out_names, "output")):
            if lst is not None and len(set(lst)) != len(lst):
                self.problems.append("duplicate %s names %s" % (what, sorted(n for n in set(lst) if lst.count(n) > 1)))
        self.in_atoms = set()
        for k, i in enumerate(self.ins):
            try:
                for a in _sym_atoms(i, "Function"):
                    if a is not None:
                        if a in self.in_atoms:
                            self.problems.append("input symbol %r appears twice" % a)
                        self.in_atoms.add(a)
            except Unsupported:
                self.problems.append("input %d is not purely symbolic" % k)
        free = set()
        for o in self.outs:
            for p in o.flat():
                free |= {a for a in poly_syms(p) if a not in self.in_atoms and a.key[0] != "pi"}
        self.free = free
        if free:
            self.problems.append("free variables %s" % sorted({a.symname for a in free}))
        FunctionVal.registry.append(self)
        if self.problems:
            raise InterpRaise("RuntimeError", "Function '%s': %s" % (name, "; ".join(self.problems)))

    def name(self):
        return self.fname

    def n_in(self):
        return len(self.ins)

    def n_out(self):
        return len(self.outs)

    def __repr__(self):
        return "<Function %s>" % self.fname

    def __call__(self, *args, **kw):
        if kw and not args:
            if self.in_names is None:
                raise InterpRaise("RuntimeError", "Function %s has no input names" % self.fname)
            res = self._call([kw.get(n, 0) for n in self.in_names])
            return dict(zip(self.out_names, res))
        if len(args) != len(self.ins):
            raise InterpRaise("TypeError", "Function '%s' expects %d arguments, got %d" % (self.fname, len(self.ins), len(args)))
        outs = self._call(list(args))
        if len(outs) == 1:
            return outs[0]
        return tuple(outs)

    def _call(self, args):
        m = {}
        kinds = []
        for k, (i, a) in enumerate(zip(self.ins, args)):
            a = to_mat(a)
            kinds.append(a)
            try:
                m.update(subst_map(i, a, "Function '%s' argument %d" % (self.fname, k)))
            except InterpRaise as e:
                raise InterpRaise("RuntimeError", e.msg)
        k = "SX" if any(x.kind == "SX" for x in kinds) else "DM"
        outs = []
        for o in self.outs:
            r = apply_map(o, m)
            r.kind = k
            outs.append(r)
        return outs


FS = set()        # abstract file system: paths written by recording CodeGenerators and not removed since
FS_LOG = []


class CodeGeneratorVal:
    registry = []
    path = None

    def __init__(self, filename, opts=None, node=None, module=None):
        self.filename = filename
        self.opts = dict(opts) if isinstance(opts, dict) else opts
        self.added = []
        self.generated = []
        self.events = []
        self.node = node
        self.module = module
        CodeGeneratorVal.registry.append(self)

    def add(self, f, *rest):
        self.added.append(f)
        self.events.append(("add", f))

    def generate(self, prefix=None):
        self.generated.append(prefix)
        self.events.append(("generate", prefix))
        # abstract file system: the C file (and its header) now exist under the prefix
        pre = prefix if isinstance(prefix, str) else getattr(prefix, "s", None) if prefix is not None else ""
        if isinstance(pre, str) and isinstance(self.filename, str):
            path = (pre + self.filename).replace("//", "/")
            self.path = path
            FS.add(path)
            FS_LOG.append(("write", path))
            if isinstance(self.opts, dict) and self.opts.get("with_header") is True and "." in self.filename:
                FS.add(path[:path.rfind(".")] + ".h")
        return "<generated>"


# --------------------------------------------------------------------------- SERIES tables (opaque)

class SeriesFn:
    def __init__(self, key, squared):
        self.key = key
        self.squared = squared

    def __call__(self, x):
        x = to_mat(x)
        if not x.is_scalar():
            raise InterpRaise("RuntimeError", "series function called with a %s argument" % (x.shape,))
        return scalar(opaque("series", self.key, self.squared, x.s()), "SX" if x.kind == "SX" else "DM")


register_rebuild("series", lambda key, sq, p: opaque("series", key, sq, p))


class SeriesDict:
    def __init__(self, squared, keys, canon=None):
        self.squared = squared
        self._keys = list(keys)
        self.canon = canon or {}

    def getitem(self, k):
        if k not in self._keys:
            raise InterpRaise("KeyError", repr(k))
        return SeriesFn(self.canon.get(k, k), self.squared)

    def keys(self):
        return list(self._keys)


# --------------------------------------------------------------------------- the `ca` namespace

class _NS:
    pass


def make_ca():
    ca = _NS()
    ca.SX = SX
    ca.DM = DM
    ca.Sparsity = SparsityNS
    ca.pi = PI
    ca.inf = pynum(Poly.sym("inf", None))
    ca.vertcat = vertcat
    ca.horzcat = horzcat
    ca.diagcat = diagcat
    ca.blockcat = blockcat
    ca.hcat = lambda l: horzcat(*l)
    ca.vcat = lambda l: vertcat(*l)
    ca.veccat = lambda *a: vertcat(*[reshape(to_mat(x), (to_mat(x).r * to_mat(x).c, 1)) for x in a])
    ca.vec = lambda a: reshape(to_mat(a), (to_mat(a).r * to_mat(a).c, 1))
    ca.transpose = transpose
    ca.mtimes = mtimes
    ca.times = times
    ca.dot = dot
    ca.cross = cross
    ca.sumsqr = sumsqr
    ca.norm_2 = norm_2
    ca.norm_fro = lambda a: scalar(un("sqrt", sumsqr(a).s()), to_mat(a).kind)
    ca.trace = trace
    ca.reshape = reshape
    ca.tril = tril
    ca.triu = triu
    ca.triu2symm = triu2symm
    ca.tril2symm = tril2symm
    ca.diag = diag
    ca.vertsplit = vertsplit
    ca.horzsplit = horzsplit
    ca.inv = inv
    ca.inv_minor = inv
    ca.solve = solve
    ca.qr = qr
    ca.jacobian = jacobian
    ca.substitute = substitute
    ca.depends_on = depends_on
    ca.simplify = lambda a: to_mat(a).copy()
    ca.sparsify = lambda a, *t: to_mat(a).copy()
    ca.densify = lambda a: to_mat(a).copy()
    ca.if_else = if_else
    ca.mmax = mmax
    ca.mmin = mmin
    ca.logic_all = logic_all
    ca.logic_any = logic_any
    ca.logic_and = lambda a, b: ew(a, b, lambda x, y: _logic("and", x, y))
    ca.logic_or = lambda a, b: ew(a, b, lambda x, y: _logic("or", x, y))
    ca.logic_not = unop("not")
    ca.diff = diff
    ca.eq = rel("eq")
    ca.ne = rel("ne")
    ca.lt = rel("lt")
    ca.le = rel("le")
    ca.gt = rel("gt")
    ca.ge = rel("ge")
    ca.sum1 = sum1
    ca.sum2 = sum2
    ca.power = power
    ca.sq = lambda a: ew(a, a, pmul)
    for n in UNARY:
        setattr(ca, n, unop(n))
    ca.arctan = unop("atan")
    ca.arcsin = unop("asin")
    ca.arccos = unop("acos")
    ca.arctan2 = binop("atan2")
    for n in ("atan2", "fmin", "fmax", "remainder", "fmod", "copysign", "hypot"):
        setattr(ca, n, binop(n))
    ca.Function = FunctionVal
    ca.CodeGenerator = CodeGeneratorVal
    return ca


CA = make_ca()
