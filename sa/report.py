"""Obligations, findings, known-findings matching, evidence files and exit codes."""
import json
import os
import sys
import time

VERIF = os.path.dirname(os.path.dirname(os.path.abspath(__file__)))
EVIDENCE_DIR = os.environ.get("VERIF_EVIDENCE_DIR") or os.path.join(VERIF, "evidence")   # the override is used by selftest/run.py only
KNOWN = os.path.join(VERIF, "known_findings.json")

TRUSTED_BASE = [
    "Python's ast module (parsing /repo sources on every run)",
    "the analyser's abstract semantics of the CasADi entry points cyecca uses (sa/casadi_model.py): '*' element-wise, '@'/mtimes matrix product, column-major reshape and linear indexing, in-place SX.__setitem__, ca.SX(r,c) structurally zero, if_else as a pure select",
    "commutative-ring normal form over Q with opaque atoms (sa/poly.py); odd/even normalisation of sin/cos/tan/asin/atan/fabs arguments",
    "mathematical lemmas L1-L12 of DESIGN.md section 4.0",
]


class Ob:
    __slots__ = ("rule", "instance", "status", "msg", "file", "line", "fact", "nontrivial")

    def __init__(self, rule, instance, status, msg="", file=None, line=None, fact=None, nontrivial=True):
        self.rule = rule
        self.instance = instance
        self.status = status
        self.msg = msg
        self.file = file
        self.line = line
        self.fact = fact
        self.nontrivial = nontrivial

    def key(self):
        return (self.rule, self.instance)

    def as_dict(self):
        d = {"rule": self.rule, "instance": self.instance, "status": self.status}
        if self.msg:
            d["msg"] = self.msg
        if self.file:
            d["where"] = "%s:%s" % (self.file, self.line or 0)
        if self.fact is not None:
            d["fact"] = self.fact
        return d


class Report:
    def __init__(self, prop, tier):
        self.prop = prop
        self.tier = tier
        self.obs = []
        self.floors = {}
        self.notes = []
        self.t0 = time.time()
        self.rules_text = {}
        self.undecided = []
        self.analysed = {}

    # -- recording
    def rule(self, rule, text):
        self.rules_text[rule] = text

    def ok(self, rule, instance, fact=None, nontrivial=True):
        self.obs.append(Ob(rule, instance, "ok", fact=fact, nontrivial=nontrivial))

    def fail(self, rule, instance, msg, where=None, fact=None):
        f, l = (where[0], where[1]) if where else (None, None)
        self.obs.append(Ob(rule, instance, "fail", msg, f, l, fact))

    def incomplete(self, rule, instance, msg, where=None):
        f, l = (where[0], where[1]) if where else (None, None)
        self.obs.append(Ob(rule, instance, "incomplete", msg, f, l))

    def na(self, rule, instance, msg=""):
        self.obs.append(Ob(rule, instance, "na", msg, nontrivial=False))

    def check(self, rule, instance, cond, msg, where=None, fact=None, nontrivial=True):
        if cond:
            self.ok(rule, instance, fact, nontrivial)
        else:
            self.fail(rule, instance, msg, where, fact)
        return bool(cond)

    def floor(self, rule, n):
        self.floors[rule] = n

    def note(self, s):
        self.notes.append(s)

    def undecided_clause(self, s):
        self.undecided.append(s)

    # -- finishing
    def finish(self, extra_cov=None):
        known, fixed = load_known()
        os.makedirs(EVIDENCE_DIR, exist_ok=True)
        wall = time.time() - self.t0
        by_rule = {}
        for o in self.obs:
            by_rule.setdefault(o.rule, []).append(o)
        floor_errors = []
        for r, n in self.floors.items():
            have = len([o for o in by_rule.get(r, []) if o.status in ("ok", "fail")])
            if have < n:
                floor_errors.append("rule %s decided %d instances, floor is %d" % (r, have, n))
        fails = [o for o in self.obs if o.status == "fail"]
        incompl = [o for o in self.obs if o.status == "incomplete"]
        oks = [o for o in self.obs if o.status == "ok"]
        nas = [o for o in self.obs if o.status == "na"]
        known_keys = {(k["rule"], k["instance"]): k for k in known if k.get("property") == self.prop}
        new = []
        listed = []
        seen = set()
        for o in fails:
            if o.key() in seen:
                continue
            seen.add(o.key())
            if o.key() in known_keys:
                listed.append(o)
            else:
                new.append(o)
        out = sys.stdout
        print("== %s tier=%s : %d obligations (%d ok, %d fail, %d incomplete, %d n/a) over %d rules in %.2fs" % (
            self.prop, self.tier, len(self.obs), len(oks), len(fails), len(incompl), len(nas), len(by_rule), wall), file=out)
        for r in sorted(by_rule):
            obs = by_rule[r]
            print("   rule %-28s %3d ok %2d fail %2d incomplete %2d n/a%s" % (
                r, sum(o.status == "ok" for o in obs), sum(o.status == "fail" for o in obs),
                sum(o.status == "incomplete" for o in obs), sum(o.status == "na" for o in obs),
                "  (floor %d)" % self.floors[r] if r in self.floors else ""), file=out)
        for s in self.notes:
            print("   note: %s" % s, file=out)
        for o in listed:
            print("KNOWN-FINDING: property=%s %s" % (self.prop, known_keys[o.key()].get("what", "%s %s" % o.key())), file=out)
        for o in incompl:
            print("ANALYSIS-INCOMPLETE: %s:%s rule=%s instance=%s : %s" % (o.file or "-", o.line or 0, o.rule, o.instance, o.msg), file=out)
        for e in floor_errors:
            print("ANALYSIS-ERROR: %s" % e, file=out)
        replay = os.path.join(EVIDENCE_DIR, "%s.finding.json" % self.prop)
        for o in new:
            print("%s:%s rule=%s instance=%s : %s" % (o.file or "-", o.line or 0, o.rule, o.instance, o.msg), file=out)
        code = 0
        if new:
            with open(replay, "w") as f:
                json.dump({"property": self.prop, "tier": self.tier,
                           "replay": "cd /verif && ./check.py %s --tier %s" % (self.prop, self.tier),
                           "findings": [o.as_dict() for o in new]}, f, indent=1, default=str)
            print("VIOLATION property=%s replay=%s" % (self.prop, replay), file=out)
            code = 1
        else:
            if os.path.exists(replay):
                os.remove(replay)
            if incompl or floor_errors:
                code = 2
        decided = oks + fails
        samples = []
        per_rule_seen = {}
        for o in decided:
            c = per_rule_seen.get(o.rule, 0)
            if c < 3:
                per_rule_seen[o.rule] = c + 1
                samples.append(o.as_dict())
        distinct_nontrivial = len({o.key() for o in decided if o.nontrivial})
        cov = {
            "explanation": "Static analysis of /repo sources (no execution of cyecca, casadi not importable in this interpreter). "
                           "Rules applied: " + "; ".join("%s = %s" % kv for kv in sorted(self.rules_text.items())),
            "obligations": len(decided) + len(incompl),
            "discharged": len(oks),
            "evaluations": len(self.obs),
            "distinct_nontrivial": distinct_nontrivial,
            "rule": "one obligation per (rule, instance) generated from the current source; non-trivial = the decision consulted "
                    "at least one non-constant value number or a control-flow fact (n/a and pure-constant obligations excluded)",
            "samples": samples[:60],
            "trusted_base": TRUSTED_BASE,
            "checker_cmd": "./check.py %s --tier %s" % (self.prop, self.tier),
            "per_rule": {r: {"ok": sum(o.status == "ok" for o in obs), "fail": sum(o.status == "fail" for o in obs),
                             "incomplete": sum(o.status == "incomplete" for o in obs), "na": sum(o.status == "na" for o in obs),
                             "floor": self.floors.get(r)} for r, obs in sorted(by_rule.items())},
            "undecided_clauses": self.undecided,
            "known_findings_matched": [o.as_dict() for o in listed],
            "analysed": self.analysed,
            "exhaustive": False,
        }
        if extra_cov:
            cov.update(extra_cov)
        ev = {
            "property_id": self.prop,
            "tier": self.tier,
            "seed": int(os.environ.get("VERIF_SEED", "0") or 0),
            "level": "other",
            "coverage": cov,
            "assumptions": TRUSTED_BASE + ["clauses listed under coverage.undecided_clauses are NOT decided by this check"],
            "wall_s": round(wall, 3),
            "violations": len(new),
        }
        os.makedirs(EVIDENCE_DIR, exist_ok=True)
        with open(os.path.join(EVIDENCE_DIR, "%s.json" % self.prop), "w") as f:
            json.dump(ev, f, indent=1, default=str)
        return code


def load_known():
    if not os.path.exists(KNOWN):
        return [], []
    with open(KNOWN) as f:
        d = json.load(f)
    return d.get("findings", []), d.get("fixed", [])
