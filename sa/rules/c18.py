"""C18 - Bezier trajectories: Bernstein evaluation, exact derivatives, boundary-value solvers (DESIGN 4, C18)."""
from math import comb

from .common import *
from .liecommon import *
from ..frontend import AnchorMissing
from ..poly import Poly, all_atoms, deep_subs

MOD = "cyecca.models.bezier"


def bernstein(P, t, T, n):
    """sum_i C(n,i) beta^i (1-beta)^(n-i) P_i, beta = t/T; P is m x (n+1)."""
    beta = cm.pdiv(t, T)
    out = MatVal(P.r, 1)
    for i in range(n + 1):
        wgt = (beta ** i) * ((cm.ONE - beta) ** (n - i))
        wgt = wgt.scale(comb(n, i))
        for r in range(P.r):
            out.cells[r][0] = out.cells[r][0] + wgt * P.cells[r][i]
    return out


def tdiff(M, ta, k):
    for _ in range(k):
        M = mat_diff(M, ta)
    return M


def subs_t(M, ta, val):
    from ..poly import deep_subs
    return MatVal(M.r, M.c, [[deep_subs(p, lambda a: val if a is ta else None) if p.t else p for p in row] for row in M.cells], M.kind)


def check_eval(w, rep, tier):
    mod = w.mod(MOD)
    if "Bezier" not in mod:
        raise AnchorMissing(MOD + ".Bezier")
    B = mod["Bezier"]
    W = w.where(MOD, "Bezier.eval")
    Wd = w.where(MOD, "Bezier.deriv")
    degrees = range(1, 9 if tier == "quick" else 10)
    for n in degrees:
        for m in ((1, 2) if n in (3,) else (1,)):
            P = w.sym("P", m, n + 1)
            T = w.sym("T")
            t = w.sym("t")
            ta = t.s().single_atom()
            with with_maxdeg(2 * n + 4):
                ok, bz = guarded(w, rep, "C18.eval", "Bezier(P[%dx%d], T)" % (m, n + 1), lambda: w.callf(B, P, T))
                if not ok:
                    continue
                ref = bernstein(P, t.s(), T.s(), n)
                ok, ev = guarded(w, rep, "C18.eval", "degree %d eval" % n, lambda: w.call(bz, "eval", t))
                if ok:
                    inst_ = "degree %d (dim %d): eval(t) = sum C(n,i) b^i (1-b)^(n-i) P_i, b = t/T" % (n, m)
                    cases_ = minmax_cases(ev) if any(a.kind in ("fmin", "fmax") for p_ in ev.flat() for a in all_atoms(p_)) else None
                    bad_ = None
                    for lab_, ev_c in (cases_ or []):
                        v_, d_ = decide_mat(ev_c, ref)
                        if v_ == DIFFERENT:
                            bad_ = (lab_, d_)
                            break
                    if bad_:
                        # a clamp of the time argument: in the clamped case (t free, so the case is not empty) the value is not the polynomial
                        rep.fail("C18.eval", inst_, "De Casteljau evaluation is not the Bernstein polynomial when %s: %s" % bad_, where=W)
                    else:
                        verdict(rep, "C18.eval", inst_, ev, ref, (), W, "De Casteljau evaluation is not the Bernstein polynomial")
                for k in range(1, min(n, 4) + 1):
                    ok, dk = guarded(w, rep, "C18.deriv", "degree %d deriv %d" % (n, k), lambda: w.call(w.call(bz, "deriv", k), "eval", t))
                    if ok:
                        verdict(rep, "C18.deriv", "degree %d (dim %d): deriv(%d).eval(t) = d^%d/dt^%d of the curve" % (n, m, k, k, k), dk, tdiff(ref, ta, k), (), Wd,
                                "derivative curve is not the exact time derivative")
                if n >= 2:
                    ok, d11 = guarded(w, rep, "C18.deriv", "degree %d deriv().deriv()" % n, lambda: w.call(w.call(w.call(bz, "deriv"), "deriv"), "eval", t))
                    if ok:
                        verdict(rep, "C18.deriv", "degree %d (dim %d): deriv().deriv().eval(t) = second derivative" % (n, m), d11, tdiff(ref, ta, 2), (), Wd, "chained derivative curves are not the second derivative")


def extract_linear_solve(sol):
    """sol cells are sum_j inv(i, j)[A] * b_j.  -> (A as MatVal, b list) or None."""
    cells = sol.flat()
    n = len(cells)
    A = None
    b = [None] * n
    for i, p in enumerate(cells):
        bi = [None] * n
        for mono, c in p.t.items():
            invs = [(a, e) for a, e in mono if a.kind == "inv"]
            if len(invs) != 1 or invs[0][1] != 1:
                return None
            ia = invs[0][0]
            ii, jj, nn = ia.key[0], ia.key[1], ia.key[2]
            if nn != n or ii != i:
                return None
            Acells = ia.key[3:]
            if A is None:
                A = Acells
            elif A != Acells:
                return None
            rest = Poly({tuple((a, e) for a, e in mono if a is not ia): c})
            bi[jj] = (bi[jj] + rest) if bi[jj] is not None else rest
        for j in range(n):
            if bi[j] is not None:
                if b[j] is None:
                    b[j] = bi[j]
                elif b[j] != bi[j]:
                    return None
    if A is None or any(x is None for x in b):
        return None
    M = MatVal(n, n, [[A[j * n + i] for j in range(n)] for i in range(n)])   # column-major flat
    return M, b


def exact_inverse(M):
    """Gauss-Jordan inverse of a matrix of canonical forms, pivoting only on entries that are single terms (units of the
    Laurent ring: a constant times powers of symbols), so that no division is ever approximate or opaque.  Boundary-value
    matrices of Bezier curves (constants over powers of T, block triangular) invert this way.  None when a pivot of
    that kind is missing."""
    n = M.r
    A = [list(r) for r in M.cells]
    E = [[cm.ONE if i == j else Poly() for j in range(n)] for i in range(n)]
    unit = lambda p: len(p.t) == 1 and all(a.kind == "sym" for a, e in next(iter(p.t)))
    rows, cols, piv = set(range(n)), set(range(n)), {}
    for _ in range(n):
        cand = [(sum(1 for c2 in cols if A[r][c2].t), r, c) for r in rows for c in cols if unit(A[r][c])]
        if not cand:
            return None
        _, r, c = min(cand)
        pin = A[r][c].recip()
        A[r] = [x * pin if x.t else x for x in A[r]]
        E[r] = [x * pin if x.t else x for x in E[r]]
        for k in range(n):
            if k != r and A[k][c].t:
                f = A[k][c]
                A[k] = [x - f * y if y.t else x for x, y in zip(A[k], A[r])]
                E[k] = [x - f * y if y.t else x for x, y in zip(E[k], E[r])]
        rows.discard(r)
        cols.discard(c)
        piv[c] = r
    return MatVal(n, n, [E[piv[c]] for c in range(n)], "SX")


def resolve_inverses(sol):
    """sol with every inv(A)[i, j] atom replaced by the exact inverse's cell, or None if some A has no exact inverse."""
    fams = {}
    for p_ in sol.flat():
        for a in all_atoms(p_):
            if a.kind == "inv":
                fams.setdefault((a.key[2],) + tuple(a.key[3:]), None)
    for fam in fams:
        nn, flat = fam[0], fam[1:]
        M = MatVal(nn, nn, [[flat[j * nn + i] for j in range(nn)] for i in range(nn)], "SX")     # column-major flat
        X = exact_inverse(M)
        if X is None:
            return None
        fams[fam] = X

    def f(a):
        if a.kind == "inv":
            return fams[(a.key[2],) + tuple(a.key[3:])].cells[a.key[0]][a.key[1]]
        return None
    return MatVal(sol.r, sol.c, [[deep_subs(p_, f) if p_.t else p_ for p_ in row] for row in sol.cells], sol.kind)


def check_solver(w, rep, fn, key_solve, key_traj, n, nbc):
    mod = w.mod(MOD)
    if fn not in mod:
        raise AnchorMissing("%s.%s" % (MOD, fn))
    W = w.where(MOD, fn)
    with with_maxdeg(2 * n + 6):
        ok, eqs = guarded(w, rep, "C18.boundary", "%s()" % fn, lambda: w.callf(mod[fn]))
        if not ok:
            return None
        fs = eqs.get(key_solve) if isinstance(eqs, dict) else None
        ft = eqs.get(key_traj) if isinstance(eqs, dict) else None
        if not isinstance(fs, cm.FunctionVal) or not isinstance(ft, cm.FunctionVal):
            rep.fail("C18.boundary", "%s exports %s and %s" % (fn, key_solve, key_traj), "missing Function", where=W)
            return None
        good = [i.shape for i in fs.ins] == [(nbc, 1), (nbc, 1), (1, 1)] and fs.outs[0].shape == (1, n + 1)
        if not rep.check("C18.boundary", "%s(wp_0[%d], wp_1[%d], T) -> P[1x%d]" % (key_solve, nbc, nbc, n + 1), good, "signature %s -> %s" % ([i.shape for i in fs.ins], fs.outs[0].shape), where=W):
            return ft
        wp0, wp1, T = w.sym("wp0", nbc), w.sym("wp1", nbc), w.sym("T")
        sol = fs(wp0, wp1, T)
        def verify_direct(sol_, how):
            """an explicit solution: verify the boundary conditions directly on the Bernstein curve it defines"""
            t = w.sym("tref")
            ta = t.s().single_atom()
            curve = bernstein(sol_, t.s(), T.s(), n).cells[0][0]
            for e_, wp in ((0, wp0), (1, wp1)):
                for k in range(nbc):
                    dk = curve
                    for _ in range(k):
                        dk = dk.diff(ta)
                    val = deep_subs(dk, lambda a: (T.s() if e_ else Poly()) if a is ta else None)
                    inst = "%s (%s): derivative of order %d at t = %s equals the requested value" % (key_solve, how, k, "T" if e_ else "0")
                    v = decide(val, wp.cells[k][0])
                    if v == EQUAL:
                        rep.ok("C18.boundary", inst)
                    elif v == DIFFERENT:
                        rep.fail("C18.boundary", inst, "the returned control points give %s there, requested %s" % (short(val, 60), short(wp.cells[k][0], 30)), where=W)
                    else:
                        rep.incomplete("C18.boundary", inst, "cannot decide", where=W)

        ex = extract_linear_solve(sol)
        if ex is None:
            if any(a.kind == "inv" for p_ in sol.flat() for a in all_atoms(p_)):
                # a solution assembled from inverses in some other way (blocks, reuse of one block): invert exactly
                # and verify the boundary conditions on the result
                sol = resolve_inverses(sol) or sol
            if not any(a.kind in ("inv", "solve") for p_ in sol.flat() for a in all_atoms(p_)):
                verify_direct(sol, "closed form")
                return ft
            rep.incomplete("C18.boundary", "%s is inv(A) @ b" % key_solve, "solution is not of the form inv(A) b with a single constraint matrix", where=W)
            return ft
        A, b = ex
        exact = resolve_inverses(sol)
        if exact is not None:
            verify_direct(exact, "inverse evaluated exactly")
        # reference functionals: k-th derivative of the Bernstein curve at t = e T
        P = w.sym("Pref", 1, n + 1)
        t = w.sym("tref")
        ta = t.s().single_atom()
        ref = bernstein(P, t.s(), T.s(), n)
        Pa = sym_atoms_of(P)
        expected = {}
        for e_, wp in ((0, wp0), (1, wp1)):
            for k in range(nbc):
                val = subs_t(tdiff(ref, ta, k), ta, T.s() if e_ else Poly())
                row = tuple(val.cells[0][0].diff(a) for a in Pa)
                expected[(e_, k)] = (row, wp.cells[k][0])
        used = {}
        rows_ok = True
        for r in range(n + 1):
            row = tuple(A.cells[r][j] for j in range(n + 1))
            match = [ek for ek, (erow, eb) in expected.items() if all(decide(x, y) == EQUAL for x, y in zip(row, erow))]
            tgt = b[r]
            names = {0: "start (t = 0)", 1: "end (t = T)"}
            if not match:
                rows_ok = False
                rep.fail("C18.boundary", "%s constraint row %d is a boundary functional of the curve" % (key_solve, r), "row %d of the constraint Jacobian is not a derivative of the curve at t = 0 or t = T" % r, where=W)
                continue
            paired = [ek for ek in match if expected[ek][1] == tgt]
            if not paired:
                rows_ok = False
                ek = match[0]
                # which waypoint entry is it paired with?
                who, we, wk = "an unknown value", None, None
                for (e2, k2), (_, eb) in expected.items():
                    if eb == tgt:
                        who, we, wk = "wp_%d[%d]" % (e2, k2), e2, k2
                msg = "the boundary value %s" % who
                if we is not None:
                    msg += " (derivative order %d at the %s)" % (wk, names[we])
                msg += " is imposed on the order-%d derivative at the %s" % (ek[1], names[ek[0]])
                rep.fail("C18.boundary", "%s: condition %s is imposed where it belongs" % (key_solve, who), msg, where=W,
                         fact={"row": r, "functional": "d^%d/dt^%d at %s" % (ek[1], ek[1], names[ek[0]]), "value": who})
                continue
            used.setdefault(paired[0], []).append(r)
        missing = [ek for ek in expected if ek not in used]
        dup = [ek for ek, rs in used.items() if len(rs) > 1]
        if rows_ok:
            rep.check("C18.boundary", "%s imposes every boundary condition exactly once (%d at each end)" % (key_solve, nbc), not missing and not dup,
                      "missing %s duplicated %s" % (missing, dup), where=W, fact={"conditions": 2 * nbc})
        return ft


def check_traj(w, rep, ft, key, n, orders, W):
    """traj(t, T, P) stacks the curve and its first derivatives."""
    if not isinstance(ft, cm.FunctionVal):
        return
    t, T, P = w.sym("t"), w.sym("T"), w.sym("P", 1, n + 1)
    with with_maxdeg(2 * n + 6):
        ok, r = guarded(w, rep, "C18.traj", "%s call" % key, lambda: ft(t, T, P))
        if not ok:
            return
        ref = bernstein(P, t.s(), T.s(), n)
        ta = t.s().single_atom()
        want = cm.vertcat(*[tdiff(ref, ta, k) for k in range(orders)])
        verdict(rep, "C18.traj", "%s(t, T, P) = (curve, d/dt, ..., d^%d/dt^%d)" % (key, orders - 1, orders - 1), r, want, (), W, "stacked trajectory outputs are not successive exact derivatives of the curve")


def check_multirotor(w, rep):
    mod = w.mod(MOD)
    W = w.where(MOD, "derive_multirotor")
    with with_maxdeg(22):
        ok, eqs = guarded(w, rep, "C18.wiring", "derive_multirotor()", lambda: w.callf(mod["derive_multirotor"]))
        if not ok:
            return
        f = eqs.get("bezier_multirotor") if isinstance(eqs, dict) else None
        if not isinstance(f, cm.FunctionVal):
            rep.fail("C18.wiring", "bezier_multirotor exported", "missing", where=W)
            return
        good = f.in_names == ["t", "T", "PX", "PY", "PZ", "Ppsi"] and f.out_names == ["x", "y", "z", "psi", "psidot", "psiddot", "v", "a", "j", "s"]
        if not rep.check("C18.wiring", "bezier_multirotor signature", good, "%s -> %s" % (f.in_names, f.out_names), where=W):
            return
        t, T = w.sym("t"), w.sym("T")
        PX, PY, PZ, Pp = w.sym("PX", 1, 8), w.sym("PY", 1, 8), w.sym("PZ", 1, 8), w.sym("Ppsi", 1, 4)
        outs = f(t, T, PX, PY, PZ, Pp)
        ta = t.s().single_atom()
        cx, cy, cz, cp = (bernstein(P, t.s(), T.s(), n) for P, n in ((PX, 7), (PY, 7), (PZ, 7), (Pp, 3)))
        exp = [cx, cy, cz, cp, tdiff(cp, ta, 1), tdiff(cp, ta, 2)]
        for k in range(1, 5):
            exp.append(cm.vertcat(tdiff(cx, ta, k), tdiff(cy, ta, k), tdiff(cz, ta, k)))
        for nm, got, want in zip(f.out_names, outs, exp):
            verdict(rep, "C18.wiring", "bezier_multirotor.%s is the matching derivative of the matching axis" % nm, got, want, (), W, "output %s is wired to the wrong axis or derivative order" % nm)


def run(w, rep, tier):
    rep.rule("C18.eval", "Bezier.eval equals the Bernstein polynomial for degrees 1..8 (lemma L6 checked per degree)")
    rep.rule("C18.deriv", "deriv(m).eval equals the m-th time derivative, m <= 4; deriv().deriv() composes")
    rep.rule("C18.boundary", "bezier3_solve / bezier7_solve = inv(A) b where the rows of A are exactly the derivatives of order 0..k of the curve at t = 0 and t = T, each paired with the boundary value of that order and end, each once")
    rep.rule("C18.traj", "bezier3_traj / bezier7_traj stack the curve and its successive derivatives")
    rep.rule("C18.wiring", "bezier_multirotor outputs are the matching derivative order of the matching axis")
    check_eval(w, rep, tier)
    ft7 = check_solver(w, rep, "derive_bezier7", "bezier7_solve", "bezier7_traj", 7, 4)
    check_traj(w, rep, ft7, "bezier7_traj", 7, 5, w.where(MOD, "derive_bezier7"))
    ft3 = check_solver(w, rep, "derive_bezier3", "bezier3_solve", "bezier3_traj", 3, 2)
    check_traj(w, rep, ft3, "bezier3_traj", 3, 3, w.where(MOD, "derive_bezier3"))
    check_multirotor(w, rep)
    rep.floor("C18.eval", 8)
    rep.floor("C18.deriv", 20)
    rep.floor("C18.wiring", 10)
    rep.undecided_clause("invertibility of the constraint Jacobian for every T > 0 (a determinant condition)")
