"""C07 - SO(3) representation conversions preserve the rotation and return valid parameters (DESIGN 4, C07)."""
import ast
import math

from .common import *
from .liecommon import *
from .c03 import is_shadowed
from ..poly import Poly, all_atoms

SUFFIX = {"SO3Quat": "Quat", "SO3Mrp": "Mrp", "SO3Dcm": "Dcm", "SO3EulerB321": "Euler"}

# (source, destination) pairs whose rotation-preservation identity the canonical forms decide today; for these an
# UNKNOWN verdict is an analysis failure (exit 2), for the others it is recorded as not decided.
DECIDED = {("SO3Quat", "SO3Dcm"), ("SO3Quat", "SO3EulerB321"), ("SO3Quat", "SO3Mrp"), ("SO3Mrp", "SO3Quat"), ("SO3Mrp", "SO3Dcm"),
           ("SO3EulerB321", "SO3Dcm"), ("SO3EulerB321", "SO3Quat")}


_const_float = cm.const_float


def pole_band(c, theta=None):
    """Recognises an Euler gimbal-band test.  -> (pole sign, half width in rad, tested quantity) or None.
    Form A: fabs(theta -+ pi/2) < w  (theta the pitch angle, any value number).
    Form B: +-s > k / +-s < -k with k a constant in (0, 1): a test on s = sin(pitch); half width acos(k)."""
    import math
    a = c.single_atom()
    if a is None or a.kind not in ("lt", "le") or not isinstance(a.key[0], Poly):
        return None
    lo, hi = a.key
    f = lo.single_atom()
    if f is not None and f.kind == "fabs" and len(lo.t) == 1 and hi.const_value() is not None:
        arg = f.key[0]
        if not any(x.kind == "sym" and x.key[0] == "pi" for x in arg.atoms()):
            # form C: fabs(s -+ 1) < w, a test on the sine of the pitch: half width acos(1 - w)
            wv = float(hi.const_value())
            for sgn in (1, -1):
                for flip in (1, -1):
                    sq = arg.scale(flip) + Poly.const(sgn)          # arg = flip * (s - sgn)
                    if sq.const_value() is None and () not in sq.t and 0 < wv < 1:
                        if theta is None:
                            return 0, math.acos(1 - wv), sq
                        st = cm.un("sin", theta)
                        if sq == st:
                            return sgn, math.acos(1 - wv), sq
                        if sq == -st:
                            return -sgn, math.acos(1 - wv), sq
            return None
        for sgn in (1, -1):
            for flip in (1, -1):
                # arg = flip * (theta - sgn*pi/2); fabs normalises the sign of the leading term, so the pole is only known
                # once the pitch value number theta is given
                th = arg.scale(flip) + cm.PI_POLY.scale(Fraction(sgn, 2))
                if any(x.kind == "sym" and x.key[0] == "pi" for x in th.atoms()):
                    continue
                if theta is None:
                    return 0, float(hi.const_value()), th
                if th == theta:
                    return sgn, float(hi.const_value()), th
        return None
    # form B: k < s  (s > k: upper pole) or s < -k, i.e. lt(s, -k) (lower pole); k = constant
    kl, kh = _const_float(lo) if not any(x.kind == "sym" and x.key[0] != "pi" for x in all_atoms(lo)) else None, \
        _const_float(hi) if not any(x.kind == "sym" and x.key[0] != "pi" for x in all_atoms(hi)) else None
    # k must be near 1 (a band around the pole: cos 0.5 rad at the very widest), which also keeps small tolerance guards
    # such as |T| > 1e-3 from being mistaken for a gimbal test
    if kl is not None and kh is None and 0.87 < kl < 1:
        sg, q = 1, hi           # k < q
    elif kh is not None and kl is None and -1 < kh < -0.87:
        sg, q = -1, lo          # q < -k
        kl = -kh
    else:
        return None
    if theta is None:
        return 0, math.acos(kl), q
    st = cm.un("sin", theta)
    if q == st:
        return sg, math.acos(kl), q
    if q == -st:
        return -sg, math.acos(kl), q
    return None


def pole_conditions(M):
    """if_else conditions that are Euler gimbal-band tests (either recognised form)."""
    return [c for c in ite_conditions(M) if pole_band(c) is not None]


def shadow_conditions(M):
    out = []
    for c in ite_conditions(M):
        a = c.single_atom()
        if a is not None and a.kind == "lt" and a.key[0].const_value() == 1:
            out.append(c)
    return out


def regular_branches(M):
    """Branches of M with the Euler pole conditions and MRP shadow conditions set to False (regular band, principal
    MRP); all remaining conditions (Shepperd selectors) enumerated."""
    fixed = {c: False for c in pole_conditions(M) + shadow_conditions(M)}
    M1 = assign_ites(M, fixed) if fixed else M
    return branches(M1, limit=4), len(fixed)


def check_pairs(w, rep, tier, only=None, RP="C07.preserve", RA="C07.API", extra_sources=None):
    """only: restrict to a set of (source, destination) pairs; RP / RA: rule ids to report under (other properties reuse
    single pairs of this rule for the conversions their own clauses are routed through)."""
    reps = {nm: w.G(nm) for nm in SO3_REPS}
    sources = dict(reps)
    if extra_sources:
        sources = dict(extra_sources)
    for src, Gs in sources.items():
        X, xp = w.fresh(Gs, "X")
        quats = quats_of(w, Gs, xp)
        okm, M = guarded(w, rep, RA, "%s.to_Matrix" % src, lambda: w.call(X, "to_Matrix"))
        for dst, Gd in reps.items():
            if src == dst or (only is not None and (src, dst) not in only):
                continue
            meth = "from_" + SUFFIX.get(src, "Euler")
            inst = "%s.%s" % (dst, meth) + ("" if src in SUFFIX else " [%s]" % src)
            W = w.method_where(Gd, meth)[:2]
            ok, Y = guarded(w, rep, RA, inst, lambda: w.call(Gd, meth, X))
            if not ok:
                continue
            good = isinstance(Y, Instance) and Y.attrs.get("group") is Gd
            rep.check(RA, "%s returns an element of %s" % (inst, dst), good, "conversion does not return an element of the destination group", where=W)
            if not good or not okm:
                continue
            if src == "SO3Dcm":
                rep.na(RP, "%s keeps the rotation matrix" % inst, "a DCM source is nine unconstrained symbols (orthonormality is not expressible in the canonical form); routing is checked by C07.flow")
                continue
            if dst == "SO3Mrp" and src != "SO3Quat":
                rep.na(RP, "%s keeps the rotation matrix" % inst, "decided by composition: C07.flow routes it through SO3Quat, and SO3Mrp.from_Quat is decided directly")
                continue
            okt, M2 = guarded(w, rep, RP, "%s to_Matrix" % inst, lambda: w.call(Y, "to_Matrix"))
            if not okt:
                continue
            with with_maxdeg(30):
                bs, nfixed = regular_branches(M2)
                if bs is None:
                    rep.incomplete(RP, "%s keeps the rotation matrix" % inst, "too many if_else conditions", where=W)
                    continue
                alleq = True
                for desc, Mb in bs:
                    v, d = decide_by_cases(Mb, M, quats)
                    if v == EQUAL:
                        continue
                    alleq = False
                    label = "%s keeps the rotation matrix [branch %s]" % (inst, desc[:80])
                    if v == DIFFERENT:
                        rep.fail(RP, label, "to_Matrix(%s(X)) differs from to_Matrix(X): %s" % (inst, d), where=W, fact={"difference": d})
                    elif (src if src in SUFFIX else "SO3EulerB321", dst) in DECIDED:
                        rep.incomplete(RP, label, "cannot decide: %s" % d, where=W)
                    else:
                        rep.na(RP, label, "not decided: %s" % d)
                if alleq:
                    rep.ok(RP, "%s keeps the rotation matrix (all %d selector branches; regular Euler band, principal MRP)" % (inst, len(bs)),
                           fact={"branches": len(bs), "fixed_conditions": nfixed})


SPACE_FIXED = "space-fixed xyz Euler group"


def space_fixed_group(w):
    """An Euler group of the other type the class supports (space-fixed, sequence x-y-z), built by running the class's
    constructor abstractly: conversions FROM such a group must keep its rotation matrix too."""
    m = w.mod("cyecca.lie.group_so3")
    for need in ("SO3EulerLieGroup", "EulerType", "Axis"):
        if need not in m:
            raise AnchorMissing("cyecca.lie.group_so3.%s" % need)
    return w.callf(m["SO3EulerLieGroup"], euler_type=w.attr(m["EulerType"], "space_fixed"), sequence=[w.attr(m["Axis"], a) for a in "xyz"])


def check_space_fixed(w, rep, tier, RP="C07.preserve", RA="C07.API", dsts=("SO3Dcm", "SO3Quat")):
    ok, G = guarded(w, rep, RA, "SO3EulerLieGroup(space_fixed, [x, y, z])", lambda: space_fixed_group(w))
    if ok:
        check_pairs(w, rep, tier, only={(SPACE_FIXED, d) for d in dsts}, RP=RP, RA=RA, extra_sources={SPACE_FIXED: G})


def check_from_matrix(w, rep, R="C07.from-matrix", RV="C07.valid", RS="C07.shepperd"):
    """from_Matrix entry points: right inverse of to_Matrix on structured rotation matrices, all Shepperd branches."""
    Q, Mr, D, E = (w.G(n) for n in SO3_REPS)
    sources = []
    Xq, q = w.fresh(Q, "q")
    sources.append(("R(q)", w.call(Xq, "to_Matrix"), quats_of(w, Q, q)))
    Xr, r = w.fresh(Mr, "r")
    sources.append(("M(r)", w.call(Xr, "to_Matrix"), []))
    Xe, e = w.fresh(E, "e")
    sources.append(("M(euler)", w.call(Xe, "to_Matrix"), []))
    with with_maxdeg(30):
        for label, M, quats in sources:
            ok, Y = guarded(w, rep, R, "SO3Quat.from_Matrix(%s)" % label, lambda: w.call(Q, "from_Matrix", M))
            if not ok:
                continue
            qp = w.param(Y)
            bs = branches(qp, limit=4)
            if bs is None:
                rep.incomplete(R, "SO3Quat.from_Matrix(%s)" % label, "too many branches")
                continue
            W = w.method_where(Q, "from_Matrix")[:2]
            for k, (desc, qb) in enumerate(bs):
                Rb = w.call(w.elem(Q, qb), "to_Matrix")
                v, d = decide_mat(Rb, M, quats)
                inst = "SO3Quat.from_Matrix(%s): to_Matrix(result) = matrix, Shepperd selection %d/%d" % (label, k + 1, len(bs))
                if v == EQUAL:
                    rep.ok(R, inst)
                elif v == DIFFERENT:
                    rep.fail(R, inst, "Shepperd branch is not a right inverse of to_Matrix: %s" % d, where=W)
                else:
                    rep.incomplete(R, inst, "cannot decide: %s" % d, where=W)
                vn = decide(cm.sumsqr(qb).s(), cm.ONE, quats)
                instn = "SO3Quat.from_Matrix(%s): unit norm, Shepperd selection %d/%d" % (label, k + 1, len(bs))
                if vn == EQUAL:
                    rep.ok(RV, instn)
                elif vn == DIFFERENT:
                    rep.fail(RV, instn, "quaternion returned by from_Matrix does not have unit norm", where=W)
                else:
                    rep.na(RV, instn, "not decided")
    # Shepperd selector: the pivot slot of each selection is the component declared largest by its guard
    ok, Y = guarded(w, rep, RS, "from_Matrix(symbolic)", lambda: w.call(Q, "from_Matrix", w.sym("R", 3, 3)))
    if ok:
        qp = w.param(Y)
        Rm = None
        conds = ite_conditions(qp)
        W = w.method_where(Q, "from_Matrix")[:2]
        # walk the selection tree of slot 0
        def leaves(p, path):
            a = p.single_atom()
            if a is not None and a.kind == "ite":
                yield from leaves(a.key[1], path + [(a.key[0], True)])
                yield from leaves(a.key[2], path + [(a.key[0], False)])
            else:
                yield path, p
        cells = qp.flat()
        per_slot = [list(leaves(c, [])) for c in cells]
        nleaf = len(per_slot[0])
        good = nleaf == 4 and all(len(x) == 4 for x in per_slot)
        pivots = []
        if good:
            for k in range(4):
                piv = [s for s in range(4) if _is_half_sqrt(per_slot[s][k][1])]
                pivots.append(piv)
            good = all(len(p) == 1 for p in pivots) and [p[0] for p in pivots] == [0, 1, 2, 3]
        rep.check(RS, "selection k returns its pivot in slot k (trace, R00, R11, R22 in that order)", good,
                  "the four Shepperd candidates are not selected in pivot order: pivots per selection %s" % pivots, where=W)
        if good:
            # radicand sign pattern of pivot k: +R_kk for the largest diagonal, all plus for the trace branch
            okpat = True
            for k in range(4):
                rad = _radicand(per_slot[k][k][1])
                signs = _diag_signs(rad)
                want = [(1, 1, 1), (1, -1, -1), (-1, 1, -1), (-1, -1, 1)][k]
                if signs != want:
                    okpat = False
                    rep.fail(RS, "pivot %d radicand sign pattern" % k, "radicand is 1 %s, expected signs %s" % (signs, want), where=W)
            if okpat:
                rep.ok(RS, "pivot radicands are 1 + tr, 1 + R00 - R11 - R22, 1 - R00 + R11 - R22, 1 - R00 - R11 + R22")
                check_shepperd_selection(rep, RS, per_slot[0], w.sym, W)


def check_shepperd_selection(rep, RS, leaves0, _sym, W):
    """The selection tree only compares diagonal entries (and tests the trace): a finite set of orderings decides it.
    For a rotation matrix the four radicands sum to 4; with tr <= 0 the radicand of the LARGEST diagonal entry is
    1 + 2 R_kk - tr >= 1, the others can vanish.  So: selection 1 exactly under tr > 0, and for each of the six strict
    orderings of (R00, R11, R22) the selection reached with tr <= 0 must be the one whose pivot is the largest entry -
    otherwise the chosen candidate divides by a pivot that is zero for rotations about the other axes (NaN)."""
    import itertools

    def diag_index(p):
        a = p.single_atom()
        if a is not None and a.kind == "sym" and isinstance(a.key[1], int) and a.symname == "R":
            # 3x3 symbol, column-major linear index
            i = a.key[1]
            if i in (0, 4, 8):
                return i // 4
        return None

    def is_trace_test(p):
        a = p.single_atom()
        if a is None or a.kind != "lt" or a.key[0].const_value() != 0:
            return False
        t = a.key[1]
        return len(t.t) == 3 and all(c == 1 for c in t.t.values()) and sorted(diag_index(Poly({m: 1})) for m in t.t) == [0, 1, 2]

    def ev(p, rank):
        """Truth value of a condition under a strict ordering (rank[i] = position of R_ii), None if not an ordering test."""
        cv = p.const_value()
        if cv is not None:
            return cv != 0
        a = p.single_atom()
        if a is None:
            return None
        if a.kind in ("lt", "le"):
            i, j = diag_index(a.key[0]), diag_index(a.key[1])
            if i is None or j is None:
                return None
            return rank[i] < rank[j]
        if a.kind in ("and", "or"):
            x, y = ev(a.key[0], rank), ev(a.key[1], rank)
            if x is None or y is None:
                return None
            return (x and y) if a.kind == "and" else (x or y)
        if a.kind == "not":
            x = ev(a.key[0], rank)
            return None if x is None else not x
        return None

    names = ["trace", "R00", "R11", "R22"]
    # leaf k = (path, value); pivot of leaf k is slot k (checked by the caller)
    for k, (path, _) in enumerate(leaves0):
        tests = [(c, t) for c, t in path if is_trace_test(c)]
        want = [True] if k == 0 else [False]
        if [t for _, t in tests] != want or (k == 0 and len(path) != 1):
            rep.incomplete(RS, "selection %d guard" % (k + 1), "the trace test is not the outermost selector in the expected polarity", where=W)
            return
    bad = []
    undecided = False
    for perm in itertools.permutations(range(3)):
        rank = {d: perm.index(d) for d in range(3)}          # larger rank = larger entry
        largest = perm[2]
        reached = []
        for k, (path, _) in enumerate(leaves0):
            if k == 0:
                continue
            okp = True
            for c, t in path:
                if is_trace_test(c):
                    continue
                v = ev(c, rank)
                if v is None:
                    undecided = True
                    okp = False
                    break
                if v != t:
                    okp = False
                    break
            if okp:
                reached.append(k)
        if undecided:
            break
        if reached != [largest + 1]:
            bad.append((" < ".join(names[d + 1] for d in perm), [names[k] for k in reached]))
    inst = "with trace <= 0 the candidate whose pivot is the largest diagonal entry is selected (all 6 orderings)"
    if undecided:
        rep.incomplete(RS, inst, "a selector is not a comparison of diagonal entries", where=W)
    else:
        rep.check(RS, inst, not bad, "; ".join("for %s the %s candidate is selected" % (o, "/".join(r) or "no") for o, r in bad) +
                  ": it divides by a pivot that vanishes for rotations about another axis (NaN), the largest pivot is >= 1/2", where=W, fact={"orderings": 6})


def _is_half_sqrt(p):
    if len(p.t) != 1:
        return False
    (m, c), = p.t.items()
    return c == Fraction(1, 2) and len(m) == 1 and m[0][0].kind == "sqrt" and m[0][1] == 1


def _radicand(p):
    (m, c), = p.t.items()
    return m[0][0].key[0]


def _diag_signs(rad):
    out = {}
    for m, c in rad.t.items():
        if len(m) == 1 and m[0][0].kind == "sym" and m[0][1] == 1:
            idx = m[0][0].key[1]
            if idx in (0, 4, 8):
                out[idx] = (c > 0) - (c < 0)
    return (out.get(0), out.get(4), out.get(8))


def check_siblings_and_validity(w, rep):
    Q, Mr, D, E = (w.G(n) for n in SO3_REPS)
    Xr, r = w.fresh(Mr, "r")
    with with_maxdeg(30):
        # D2 siblings
        ok, ms = guarded(w, rep, "C07.SIB", "SO3Dcm.from_Mrp", lambda: (w.call(w.call(D, "from_Mrp", Xr), "to_Matrix"), w.call(Xr, "to_Matrix")))
        if ok:
            verdict_by_branches(rep, "C07.SIB", "SO3Dcm.from_Mrp(r) = SO3Mrp.to_Matrix(r)", ms[0], ms[1], (), w.method_where(D, "from_Mrp")[:2],
                    "the DCM built from an MRP is not the MRP's rotation matrix")
            verdict_by_branches(rep, "C07.valid", "SO3Dcm.from_Mrp(r) is orthonormal", cm.matmul(ms[0], cm.transpose(ms[0])), eye(3), (), w.method_where(D, "from_Mrp")[:2],
                    "DCM returned by from_Mrp is not orthonormal")
        ok, alt = guarded(w, rep, "C07.SIB", "SO3Dcm.from_Mrp_alternative", lambda: w.call(w.call(D, "from_Mrp_alternative", Xr), "to_Matrix"))
        if ok:
            verdict_by_branches(rep, "C07.SIB", "SO3Dcm.from_Mrp_alternative(r) = SO3Mrp.to_Matrix(r)", alt, w.call(Xr, "to_Matrix"), (), w.method_where(D, "from_Mrp_alternative")[:2],
                    "from_Mrp_alternative disagrees with the MRP rotation matrix")
        # validity
        ok, qm = guarded(w, rep, "C07.valid", "SO3Quat.from_Mrp", lambda: w.param(w.call(Q, "from_Mrp", Xr)))
        if ok:
            verdict(rep, "C07.valid", "SO3Quat.from_Mrp(r) has unit norm", cm.sumsqr(qm), cm.scalar(cm.ONE), (), w.method_where(Q, "from_Mrp")[:2], "quaternion from MRP is not unit")
        Rm = w.call(Xr, "to_Matrix")
        verdict(rep, "C07.valid", "SO3Mrp.to_Matrix(r) is orthonormal", cm.matmul(Rm, cm.transpose(Rm)), eye(3), (), w.method_where(Mr, "to_Matrix")[:2], "MRP rotation matrix is not orthonormal")
        Xe, e = w.fresh(E, "e")
        Me = w.call(Xe, "to_Matrix")
        verdict(rep, "C07.valid", "SO3EulerB321.to_Matrix(e) is orthonormal", cm.matmul(Me, cm.transpose(Me)), eye(3), (), w.method_where(E, "to_Matrix")[:2], "Euler rotation matrix is not orthonormal")
    # MRP results are shadow-switched
    for name, thunk in (("from_Quat", lambda: w.call(Mr, "from_Quat", w.fresh(Q, "q")[0])), ("from_Dcm", lambda: w.call(Mr, "from_Dcm", w.fresh(D, "R")[0])),
                        ("from_Euler", lambda: w.call(Mr, "from_Euler", w.fresh(E, "e")[0])), ("from_Matrix", lambda: w.call(Mr, "from_Matrix", w.sym("M", 3, 3)))):
        ok, val = guarded(w, rep, "C07.valid", "SO3Mrp.%s" % name, thunk)
        if ok:
            good, why = is_shadowed(w.param(val))
            rep.check("C07.valid", "SO3Mrp.%s returns the non-shadow representative (|r| <= 1)" % name, good, "result does not pass through the shadow switch: %s" % why,
                      where=w.method_where(Mr, name)[:2])
    # Euler from_Matrix: pitch slot is asin(.) in all three branches; both pole branches with the same band
    ok, val = guarded(w, rep, "C07.euler", "SO3EulerB321.from_Matrix", lambda: w.call(E, "from_Matrix", w.sym("M", 3, 3)))
    if ok:
        p = w.param(val)
        W = w.method_where(E, "from_Matrix")[:2]
        bs = branches(p, limit=3)
        pitch_ok = bs is not None and all((b.cells[1][0].signed_atom() is not None and b.cells[1][0].signed_atom()[1].kind == "asin") for _, b in bs)
        rep.check("C07.euler", "pitch slot is asin(.) on every branch (pitch in [-pi/2, pi/2])", pitch_ok, "the pitch slot is not an asin value on every branch", where=W)
        check_euler_band(w, rep, p, "C07.euler", W)
    # every entry point INTO the Euler chart needs the same two gimbal selections (a closed-form shortcut that skips
    # from_Matrix is correct away from the poles and undefined - atan2(0, 0) - on them)
    Q, Mr, D = w.G("SO3Quat"), w.G("SO3Mrp"), w.G("SO3Dcm")
    for meth, src in (("from_Quat", Q), ("from_Mrp", Mr), ("from_Dcm", D)):
        okc, val = guarded(w, rep, "C07.euler", "SO3EulerB321.%s" % meth, lambda: w.call(E, meth, w.fresh(src, "s")[0]))
        if okc:
            check_euler_band(w, rep, w.param(val), "C07.euler", w.method_where(E, meth)[:2], label="SO3EulerB321.%s" % meth)


def check_euler_band_rule(w, rep, RULE):
    """Entry point for other properties whose clauses are routed through SO3EulerB321.from_Matrix (C02: Euler exp)."""
    E = w.G("SO3EulerB321")
    ok, val = guarded(w, rep, RULE, "SO3EulerB321.from_Matrix", lambda: w.call(E, "from_Matrix", w.sym("M", 3, 3)))
    if ok:
        check_euler_band(w, rep, w.param(val), RULE, w.method_where(E, "from_Matrix")[:2])


def check_euler_band(w, rep, p, RULE, W, label="SO3EulerB321.from_Matrix"):
    """Both gimbal poles are tested, each with a band of half width <= 1e-3 rad (the documented band) around +-pi/2.
    The test may be written on the angle (fabs(theta -+ pi/2) < w) or on its sine (s > cos w); what is compared is the
    half width in radians, so an equivalent rewrite is accepted and sin(theta) > 1 - 1e-3 (a 2.6 degree band) is not."""
    conds = pole_conditions(p)
    theta = assign_ites(p, {c: False for c in conds}).cells[1][0]       # pitch on the regular branch
    bands = [b for b in (pole_band(c, theta) for c in conds) if b is not None]
    signs = sorted(b[0] for b in bands)
    inst = "%s tests both gimbal poles (+pi/2 and -pi/2)" % label
    n_sel = len(ite_conditions(p))
    if signs == [-1, 1]:
        rep.ok(RULE, inst, fact={"poles": signs})
    elif n_sel > len(bands):
        # there are selections whose test is in none of the recognised forms: not a verdict
        rep.incomplete(RULE, inst, "%d selection(s) of from_Matrix are not recognised as a gimbal test (forms: |theta -+ pi/2| < w, +-s > k, |s -+ 1| < w)" % (n_sel - len(bands)), where=W)
    else:
        rep.fail(RULE, inst, "gimbal handling is not symmetric: pole tests for %s only" % (signs or "no pole"), where=W, fact={"poles": signs})
    # regular branch: yaw and roll range over the whole circle, so each must come from the two-argument arctangent (or
    # carry its own quadrant selection); a bare atan(y/x) returns them modulo pi
    reg = assign_ites(p, {c: False for c in conds})
    if reg.r == 3:
        for idx, nm in ((0, "yaw"), (2, "roll")):
            kinds = {a.kind for a in all_atoms(reg.cells[idx][0])}
            inst2 = "%s regular branch recovers %s over the full circle (two-argument arctangent)" % (label, nm)
            if "atan" in kinds and not ({"atan2", "ite", "sign"} & kinds):
                rep.fail(RULE, inst2, "%s is atan(y/x) of matrix entries: its range is (-pi/2, pi/2), so a %s beyond a quarter turn (x < 0) comes back off by pi and to_Matrix of the result is a different rotation"
                         % (nm, nm), where=W)
            elif "atan2" in kinds:
                rep.ok(RULE, inst2)
            else:
                rep.na(RULE, inst2, "angle is not recovered by an arctangent form this rule knows")
    for sgn, width, _ in bands:
        rep.check(RULE, "%sgimbal band at %spi/2 has half width <= 1e-3 rad" % ("" if label.endswith("from_Matrix") else label + ": ", "+" if sgn > 0 else "-"), 0 < width <= 1e-3 * (1 + 1e-9),
                  "the degenerate (roll := 0) branch is taken within %.4g rad of the pole, the documented band is 1e-3 rad: conversions are wrong for pitch in between" % width, where=W,
                  fact={"half_width_rad": width})


def check_antipode(w, rep):
    """q = (-1, 0, 0, 0) is a unit quaternion of the identity rotation ("for all rotations ... near-identity"): constant
    propagation of that point through every conversion with a quaternion source (and through to_Matrix) must not meet a
    division by zero, sqrt(0), acos/asin(+-1) or atan2(0,0) on the selected path."""
    from ..pointscan import Scan
    Q = w.G("SO3Quat")
    X, q = w.fresh(Q, "q")
    pt = dict(zip(sym_atoms_of(q), [Fraction(-1), Fraction(0), Fraction(0), Fraction(0)]))
    for dst in ("SO3Mrp", "SO3Dcm", "SO3EulerB321"):
        G = w.G(dst)
        ok, Y = guarded(w, rep, "C07.valid", "%s.from_Quat at q = -1" % dst, lambda: w.call(G, "from_Quat", X))
        if not ok:
            continue
        sc = Scan(pt)
        for p_ in w.param(Y).flat():
            sc.poly(p_)
        inst = "%s.from_Quat(q = (-1,0,0,0)) evaluates no singular operator" % dst
        if sc.flags:
            a0, why = sc.flags[0]
            rep.fail("C07.valid", inst, "%s [%s]: the identity rotation given with a negative scalar part converts to NaN" % (why, short(Poly.atom(a0), 80)),
                     where=w.method_where(G, "from_Quat")[:2])
        else:
            rep.ok("C07.valid", inst, fact={"atoms_visited": len(sc.memo)})


def check_poles(w, rep):
    """Euler from_Matrix at the gimbal poles: with pitch exactly +-pi/2 the pole branch must reproduce the matrix."""
    E = w.G("SO3EulerB321")
    W = w.method_where(E, "from_Matrix")[:2]
    psi, phi = w.sym("psi"), w.sym("phi")
    for sgn, label in ((1, "+pi/2"), (-1, "-pi/2")):
        th = cm.pynum(cm.PI_POLY.scale(Fraction(sgn, 2)))
        e = w.elem(E, cm.vertcat(psi, th, phi))
        ok, vals = guarded(w, rep, "C07.euler", "pole %s" % label, lambda: (w.call(e, "to_Matrix"), w.call(E, "from_Matrix", w.call(e, "to_Matrix"))))
        if not ok:
            continue
        M, back = vals
        p = w.param(back)
        conds = pole_conditions(p)
        if not conds:
            # the pole conditions folded to constants: the selected branch is already chosen
            sel = p
        else:
            rep.incomplete("C07.euler", "pitch = %s selects its pole branch" % label, "pole conditions did not fold at the exact pole", where=W)
            continue
        M2 = w.call(w.elem(E, sel), "to_Matrix")
        with with_maxdeg(20):
            verdict(rep, "C07.euler", "pitch = %s exactly: to_Matrix(from_Matrix(M)) = M on the pole branch" % label, M2, M, (), W,
                    "the gimbal branch for pitch %s does not reproduce the rotation" % label)


def check_pole_approach(w, rep):
    """Inside the gimbal band but not on the pole (pitch = +-pi/2 -+ delta, 0 < delta < band): cos(pitch) > 0 is a common
    positive factor of R[2,1], R[2,2], R[1,0], R[0,0], and atan2(k y, k x) = atan2(y, x) for k > 0.  After that exact
    cancellation the limit delta -> 0 of the pole branch must reproduce the matrix: a pole branch that returns the
    regular-branch roll next to a yaw that already contains it is right AT the pole (atan2(0,0) = 0) and off by the roll
    angle everywhere else in the band."""
    E = w.G("SO3EulerB321")
    W = w.method_where(E, "from_Matrix")[:2]
    psi, th, phi = w.sym("psi"), w.sym("theta"), w.sym("phi")
    e = w.elem(E, cm.vertcat(psi, th, phi))
    ok, vals = guarded(w, rep, "C07.euler", "pole approach", lambda: (w.call(e, "to_Matrix"), w.call(E, "from_Matrix", w.call(e, "to_Matrix"))))
    if not ok:
        return
    M, back = vals
    p = w.param(back)
    conds = pole_conditions(p)
    reg = assign_ites(p, {c: False for c in conds})
    pitch = reg.cells[1][0] if reg.r == 3 else None
    cth = cm.un("cos", th.s()).single_atom()
    sth = cm.un("sin", th.s()).single_atom()
    if cth is None or sth is None or pitch is None:
        return

    def cancel(a):
        if a.kind != "atan2":
            return None
        y, x = a.key[0], a.key[1]
        if y.t and x.t and all(any(f is cth and e_ >= 1 for f, e_ in m) for q in (y, x) for m in q.t):
            ic = Poly({((cth, -1),): 1})
            return cm._bin("atan2", y * ic, x * ic)
        return None

    for c in conds:
        b = pole_band(c, pitch)
        if b is None or b[0] == 0:
            continue
        sgn = b[0]
        label = "%spi/2" % ("+" if sgn > 0 else "-")
        sel = assign_ites(p, {c2: (c2 == c) for c2 in conds})
        memo = {}
        sel = MatVal(sel.r, sel.c, [[deep_subs(q, cancel, memo) for q in row] for row in sel.cells], sel.kind)
        at_pole = {cth: Poly(), sth: Poly.const(sgn), th.s().single_atom(): cm.PI_POLY.scale(Fraction(sgn, 2))}
        memo2 = {}
        lim = lambda Mx: MatVal(Mx.r, Mx.c, [[deep_subs(q, lambda a: at_pole.get(a), memo2) for q in row] for row in Mx.cells], Mx.kind)
        inst = "pitch -> %s inside the band: limit of the pole branch reproduces the matrix" % label
        try:
            sel0, M0 = lim(sel), lim(M)
            M2 = w.call(w.elem(E, sel0), "to_Matrix")
        except (InterpRaise, Unsupported) as ex:
            rep.na("C07.euler", inst, "limit not computable: %s" % ex)
            continue
        with with_maxdeg(20):
            v, d = decide_mat(M2, M0, ())
        if v == EQUAL:
            rep.ok("C07.euler", inst)
        elif v == DIFFERENT:
            rep.fail("C07.euler", inst, "approaching the pole from inside the band (cos(pitch) > 0 cancelled exactly in the two-argument arctangents) the pole branch returns another rotation: %s" % d, where=W)
        else:
            rep.na("C07.euler", inst, "not decided: %s" % d)


def check_flow(w, rep):
    """Routing of the conversions that are defined by composition."""
    Q, Mr, D, E = (w.G(n) for n in SO3_REPS)
    M9 = w.sym("M", 3, 3)
    XD, dp = w.fresh(D, "R")
    XE, ep = w.fresh(E, "e")
    XQ, qp = w.fresh(Q, "q")
    XM, mp = w.fresh(Mr, "r")
    P = w.param
    cases = [
        ("SO3Quat.from_Dcm(R) = from_Matrix(to_Matrix(R))", Q, "from_Dcm", lambda: P(w.call(Q, "from_Dcm", XD)), lambda: P(w.call(Q, "from_Matrix", w.call(XD, "to_Matrix")))),
        ("SO3Quat.from_Euler(e) = from_Matrix(to_Matrix(e))", Q, "from_Euler", lambda: P(w.call(Q, "from_Euler", XE)), lambda: P(w.call(Q, "from_Matrix", w.call(XE, "to_Matrix")))),
        ("SO3Mrp.from_Dcm(R) = from_Quat(SO3Quat.from_Dcm(R))", Mr, "from_Dcm", lambda: P(w.call(Mr, "from_Dcm", XD)), lambda: P(w.call(Mr, "from_Quat", w.call(Q, "from_Dcm", XD)))),
        ("SO3Mrp.from_Matrix(M) = from_Dcm(SO3Dcm.from_Matrix(M))", Mr, "from_Matrix", lambda: P(w.call(Mr, "from_Matrix", M9)), lambda: P(w.call(Mr, "from_Dcm", w.call(D, "from_Matrix", M9)))),
        ("SO3Mrp.from_Euler(e) = from_Matrix(to_Matrix(e))", Mr, "from_Euler", lambda: P(w.call(Mr, "from_Euler", XE)), lambda: P(w.call(Mr, "from_Matrix", w.call(XE, "to_Matrix")))),
        ("SO3EulerB321.from_Dcm(R) = from_Matrix(to_Matrix(R))", E, "from_Dcm", lambda: P(w.call(E, "from_Dcm", XD)), lambda: P(w.call(E, "from_Matrix", w.call(XD, "to_Matrix")))),
        ("SO3EulerB321.from_Quat(q) = from_Matrix(to_Matrix(q))", E, "from_Quat", lambda: P(w.call(E, "from_Quat", XQ)), lambda: P(w.call(E, "from_Matrix", w.call(XQ, "to_Matrix")))),
        ("SO3EulerB321.from_Mrp(r) = from_Matrix(to_Matrix(r))", E, "from_Mrp", lambda: P(w.call(E, "from_Mrp", XM)), lambda: P(w.call(E, "from_Matrix", w.call(XM, "to_Matrix")))),
        ("SO3Dcm.from_Euler(e) = from_Quat(SO3Quat.from_Euler(e))", D, "from_Euler", lambda: P(w.call(D, "from_Euler", XE)), lambda: P(w.call(D, "from_Quat", w.call(Q, "from_Euler", XE)))),
        ("SO3Dcm.from_Matrix(M) / to_Matrix are inverse reshapes", D, "from_Matrix", lambda: w.call(w.call(D, "from_Matrix", M9), "to_Matrix"), lambda: M9),
    ]
    for label, G, meth, a, b in cases:
        ok, vals = guarded(w, rep, "C07.flow", label, lambda: (a(), b()))
        if ok:
            verdict(rep, "C07.flow", label, vals[0], vals[1], (), w.method_where(G, meth)[:2], "conversion is not routed as stated")
    rep.floor("C07.flow", 10)


def run(w, rep, tier):
    rep.rule("C07.API", "all 12 ordered conversions resolve and return an element of the destination group")
    rep.rule("C07.preserve", "to_Matrix(dst.from_src(X)) = to_Matrix(X) as canonical forms on every Shepperd selection (regular Euler band, principal MRP); unit quaternions modulo |q|=1")
    rep.rule("C07.from-matrix", "SO3Quat.from_Matrix is a right inverse of to_Matrix on matrices built from a quaternion, an MRP and Euler angles, on each of the four Shepperd selections")
    rep.rule("C07.shepperd", "Shepperd selections return their pivot in slot order with the matching radicand sign pattern")
    rep.rule("C07.SIB", "SO3Dcm.from_Mrp, from_Mrp_alternative and SO3Mrp.to_Matrix denote the same matrix")
    rep.rule("C07.valid", "results are valid representatives: unit quaternions, orthonormal matrices, shadow-switched MRPs; the identity given as q = (-1,0,0,0) converts without a singular operation")
    rep.rule("C07.euler", "Euler from_Matrix: asin in the pitch slot on every branch; both gimbal poles tested with a band of half width <= 1e-3 rad (test on the angle or on its sine); exact poles reproduce the matrix, and so does the limit of each pole branch approaching the pole inside the band; yaw and roll of the regular branch come from a two-argument arctangent")
    rep.rule("C07.flow", "conversions defined by composition are routed through the stated intermediate representation")
    check_pairs(w, rep, tier)
    check_space_fixed(w, rep, tier)
    check_from_matrix(w, rep)
    check_siblings_and_validity(w, rep)
    check_poles(w, rep)
    check_pole_approach(w, rep)
    check_antipode(w, rep)
    check_flow(w, rep)
    rep.floor("C07.API", 12)
    rep.floor("C07.preserve", 6)
    rep.floor("C07.from-matrix", 12)
    rep.undecided_clause("conversions whose source is a DCM (nine unconstrained symbols) and MRP -> Euler; the 1e-3 rad tolerance inside the Euler gimbal band; determinant +1 (orthonormality is decided)")
