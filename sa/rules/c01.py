"""C01 - group axioms under the matrix representation (DESIGN 4, C01)."""
import ast

from .common import *
from ..engine import is_identity, mat_subs
from ..poly import Poly, Atom, deep_subs
from .liecommon import decide_cell_by_cases

UNDECIDABLE_ROT = ("mrp", "euler", "so2", "dcm")


def rot_block(w, G):
    """Set of (i, j) matrix cells belonging to the rotation block of to_Matrix."""
    k = rot_kind(w, G)
    ms = w.attr(G, "matrix_shape")
    if k == "none":
        return set()
    R = rot_factor(w, G)
    if R is G:
        return {(i, j) for i in range(ms[0]) for j in range(ms[1])}
    d = w.attr(R, "matrix_shape")[0]
    return {(i, j) for i in range(d) for j in range(d)}


def compare_blocks(w, rep, rule, inst, L, Rm, G, quats, where, what, dcm_inverse=False):
    """Cell-wise comparison split into rotation block / rest, with the verdict policy of DESIGN C01-D4."""
    rb = rot_block(w, G)
    kind = rot_kind(w, G)
    if L.shape != Rm.shape:
        rep.fail(rule, inst, "%s: shapes differ %s vs %s" % (what, L.shape, Rm.shape), where=where)
        return
    res = {"rot": [0, None, None], "rest": [0, None, None]}   # equal count, first different, first unknown
    for i in range(L.r):
        for j in range(L.c):
            part = "rot" if (i, j) in rb else "rest"
            v, case = decide_cell_by_cases(L.cells[i][j], Rm.cells[i][j], quats)
            if v == EQUAL:
                res[part][0] += 1
            elif v == DIFFERENT and res[part][1] is None:
                res[part][1] = "%scell (%d,%d): %s  vs  %s" % (case + ": " if case else "", i, j, short(L.cells[i][j], 120), short(Rm.cells[i][j], 120))
            elif v == UNKNOWN and res[part][2] is None:
                res[part][2] = "cell (%d,%d): %s  vs  %s" % (i, j, short(L.cells[i][j], 120), short(Rm.cells[i][j], 120))
    for part in ("rest", "rot"):
        n_eq, diff, unk = res[part]
        ncell = len(rb) if part == "rot" else L.r * L.c - len(rb)
        if ncell == 0:
            continue
        name = "%s/%s" % (inst, "rotation-block" if part == "rot" else "translation-and-border")
        if diff is not None:
            rep.fail(rule, name, "%s: %s" % (what, diff), where=where, fact={"difference": diff})
        elif unk is not None:
            if part == "rot" and kind in UNDECIDABLE_ROT:
                rep.na(rule, name, "rotation block of a %s factor: transcendental/rational identity, not decided (%s)" % (kind, unk))
            elif kind == "euler" and rule == "C01.inv" and rot_factor(w, G) is not G:
                # the translation of X^-1 is -R(X^-1) t and the Euler inverse is from_Matrix(R^T): atan2/asin of products
                rep.na(rule, name, "translation cells of the inverse over an Euler factor go through from_Matrix (atan2/asin): not decided (%s)" % unk)
            else:
                rep.incomplete(rule, name, "%s: cannot decide, %s" % (what, unk), where=where)
        else:
            rep.ok(rule, name, fact={"cells_equal": n_eq})


def atan2_table(p):
    """Lemma L11 (and its seven sign/swap variants): atan2(+-sin a, +-cos a) and atan2(+-cos a, +-sin a)
    are exact affine functions of a modulo 2 pi."""
    PIP = cm.PI_POLY

    def f(a):
        if a.kind != "atan2":
            return None
        y, x = a.key
        sy, sx = y.signed_atom(), x.signed_atom()
        if sy is None or sx is None:
            return None
        (s1, ay), (s2, ax) = sy, sx
        if ay.kind == "sin" and ax.kind == "cos" and ay.key == ax.key:
            ang = ay.key[0]
            return {(1, 1): ang, (-1, 1): -ang, (1, -1): PIP - ang, (-1, -1): ang - PIP}[(s1, s2)]
        if ay.kind == "cos" and ax.kind == "sin" and ay.key == ax.key:
            ang = ay.key[0]
            h = PIP.scale(Fraction(1, 2))
            return {(1, 1): h - ang, (1, -1): h + ang, (-1, 1): ang - h, (-1, -1): -h - ang}[(s1, s2)]
        return None
    return deep_subs(p, f)


from fractions import Fraction  # noqa: E402


def check_group(w, rep, name, G, tier):
    n = w.attr(G, "n_param")
    ms = w.attr(G, "matrix_shape")
    kind = rot_kind(w, G)
    X, xp, qx = fresh_on_manifold(w, G, "X")
    Y, yp, qy = fresh_on_manifold(w, G, "Y")
    Z, zp, qz = fresh_on_manifold(w, G, "Z")
    quats = qx + qy + qz
    W = lambda m: w.method_where(G, m)[:2]

    # ---- D1 API + shape
    ok_id, E = guarded(w, rep, "C01.API", "%s.identity" % name, lambda: w.call(G, "identity"))
    ok_pr, P = guarded(w, rep, "C01.API", "%s.product" % name, lambda: w.call(G, "product", X, Y))
    ok_inv, Xi = guarded(w, rep, "C01.API", "%s.inverse" % name, lambda: w.call(G, "inverse", X))
    ok_tm, TX = guarded(w, rep, "C01.API", "%s.to_Matrix" % name, lambda: w.call(X, "to_Matrix"))
    for okf, val, op in ((ok_id, E, "identity"), (ok_pr, P, "product"), (ok_inv, Xi, "inverse")):
        if okf:
            good = isinstance(val, Instance) and isinstance(val.attrs.get("param"), MatVal) and val.attrs["param"].shape == (n, 1) and val.attrs.get("group") is G
            rep.ok("C01.API", "%s.%s" % (name, op)) if good else rep.fail(
                "C01.API", "%s.%s" % (name, op), "does not return an element of the same group with a %dx1 parameter vector" % n, where=W(op))
    if ok_tm:
        rep.ok("C01.API", "%s.to_Matrix" % name)
        rep.check("C01.SHP", "%s.to_Matrix shape" % name, isinstance(TX, MatVal) and TX.shape == tuple(ms),
                  "to_Matrix returns shape %s, matrix_shape is %s" % (getattr(TX, "shape", None), ms), where=W("to_Matrix"))
        if not (isinstance(TX, MatVal) and TX.shape == tuple(ms)):
            ok_tm = False
    # ---- the matrix of an element must not depend on how its parameter vector is STORED: a vector with structural zeros
    # (ca.SX(n,1) with single entries assigned, the way identity() and hand-built elements are made) denotes the same element
    if ok_tm and isinstance(xp, MatVal) and all(p_.single_atom() is not None for p_ in xp.flat()) and rot_kind(w, G) != "dcm":
        from .c16 import subs_syms
        xa_ = sym_atoms_of(xp)
        bad_k = None
        undec = False
        for k_ in range(n):
            sp = MatVal(n, 1, None, "SX")
            sp.cells[k_][0] = xp.cells[k_][0]
            oks, Ts = guarded(w, rep, "C01.SHP", "%s to_Matrix of a sparse parameter vector" % name, lambda: w.call(w.elem(G, sp), "to_Matrix"))
            if not oks:
                undec = True
                break
            want = subs_syms(TX, {a: Poly() for j_, a in enumerate(xa_) if j_ != k_})
            v_, d_ = decide_mat(Ts, want)
            if v_ == DIFFERENT:
                bad_k = (k_, d_)
                break
            if v_ == UNKNOWN:
                undec = True
        inst_ = "%s: to_Matrix of a parameter vector with structural zeros = to_Matrix with those entries set to 0" % name
        if bad_k is not None:
            rep.fail("C01.SHP", inst_, "with only parameter %d stored (the others structurally zero) the matrix differs from the dense evaluation: the element's matrix depends on the sparsity pattern of its "
                     "parameter vector (e.g. iterating param.nonzeros()): %s" % bad_k, where=W("to_Matrix"))
        elif undec:
            rep.na("C01.SHP", inst_, "not decided for this group")
        else:
            rep.ok("C01.SHP", inst_, fact={"patterns": n})
    M = w.sym("M", ms[0], ms[1])
    ok_fm, FM = guarded(w, rep, "C01.API", "%s.from_Matrix" % name, lambda: w.call(G, "from_Matrix", M))
    if ok_fm:
        good = isinstance(FM, Instance) and FM.attrs.get("group") is G and FM.attrs["param"].shape == (n, 1)
        rep.ok("C01.API", "%s.from_Matrix" % name) if good else rep.fail(
            "C01.API", "%s.from_Matrix" % name, "from_Matrix does not return an element of %s" % name, where=W("from_Matrix"))

    # ---- D2 identity -> identity matrix
    if ok_id and ok_tm:
        okm, TE = guarded(w, rep, "C01.identity", "%s to_Matrix(identity())" % name, lambda: w.call(E, "to_Matrix"))
        if okm:
            rep.check("C01.identity", "%s to_Matrix(identity())" % name, is_identity(TE),
                      "to_Matrix(identity()) is not the identity matrix: %s" % first_diff(TE, eye(ms[0])), where=W("identity"),
                      fact={"matrix": str(TE.cells) if ms[0] <= 3 else "%dx%d" % tuple(ms)}, nontrivial=True)

    # ---- homomorphism  T(XY) = T(X) T(Y)
    if ok_pr and ok_tm:
        okm, TP = guarded(w, rep, "C01.hom", "%s to_Matrix(product)" % name, lambda: w.call(P, "to_Matrix"))
        okm2, TY = guarded(w, rep, "C01.hom", "%s to_Matrix(Y)" % name, lambda: w.call(Y, "to_Matrix"))
        if okm and okm2:
            compare_blocks(w, rep, "C01.hom", "%s T(XY)=T(X)T(Y)" % name, TP, cm.matmul(TX, TY), G, quats, W("product"),
                           "matrix of the product vs product of the matrices")
    # ---- inverse  T(X^-1) T(X) = I   (DCM: T(X^-1) = T(X)^T, the inverse of an orthonormal matrix)
    if ok_inv and ok_tm:
        okm, TI = guarded(w, rep, "C01.inv", "%s to_Matrix(inverse)" % name, lambda: w.call(Xi, "to_Matrix"))
        if okm:
            if kind == "dcm" and rot_factor(w, G) is G:
                verdict(rep, "C01.inv", "%s T(X^-1)=T(X)^T" % name, TI, cm.transpose(TX), quats, W("inverse"),
                        "DCM inverse must be the transpose")
            elif kind == "dcm":
                # composite group on a DCM factor: rotation block is transpose, translation block cancels
                compare_blocks(w, rep, "C01.inv", "%s T(X^-1)T(X)=I" % name, cm.matmul(TI, TX), eye(ms[0]), G, quats, W("inverse"),
                               "matrix of the inverse times matrix")
            else:
                compare_blocks(w, rep, "C01.inv", "%s T(X^-1)T(X)=I" % name, cm.matmul(TI, TX), eye(ms[0]), G, quats, W("inverse"),
                               "matrix of the inverse times the matrix vs identity")
                compare_blocks(w, rep, "C01.inv", "%s T(X)T(X^-1)=I" % name, cm.matmul(TX, TI), eye(ms[0]), G, quats, W("inverse"),
                               "matrix times matrix of the inverse vs identity")
    # ---- neutral element on both sides
    if ok_id:
        for side, thunk in (("e*X", lambda: w.call(G, "product", E, X)), ("X*e", lambda: w.call(G, "product", X, E))):
            okn, Q = guarded(w, rep, "C01.neutral", "%s %s" % (name, side), thunk)
            if okn:
                verdict(rep, "C01.neutral", "%s %s=X" % (name, side), w.param(Q), xp, quats, W("product"),
                        "identity is not neutral (%s)" % side, unknown_ok=(kind in ("euler",)))
    # ---- associativity (consequence; checked directly where canonical forms decide it)
    if ok_pr and kind == "mrp" and tier != "thorough":
        rep.na("C01.assoc", "%s (XY)Z=X(YZ)" % name, "rational identity of degree > 12 in 9 variables: attempted in the thorough tier only")
    elif ok_pr:
        oka, A1 = guarded(w, rep, "C01.assoc", "%s (XY)Z" % name, lambda: w.call(G, "product", w.call(G, "product", X, Y), Z))
        okb, A2 = guarded(w, rep, "C01.assoc", "%s X(YZ)" % name, lambda: w.call(G, "product", X, w.call(G, "product", Y, Z)))
        if oka and okb:
            verdict(rep, "C01.assoc", "%s (XY)Z=X(YZ)" % name, w.param(A1), w.param(A2), quats, W("product"),
                    "composition is not associative", unknown_ok=(kind in UNDECIDABLE_ROT))
    # ---- semidirect structure (L1): rotation slot and rotation block are the factor's own operations
    R = rot_factor(w, G)
    if R is not None and R is not G and ok_tm:
        a, b = rot_slice(w, G)
        RX = w.elem(R, w.sl(xp, a, b))
        RY = w.elem(R, w.sl(yp, a, b))
        d = w.attr(R, "matrix_shape")[0]
        okr, MR = guarded(w, rep, "C01.L1", "%s rotation block" % name, lambda: w.call(RX, "to_Matrix"))
        if okr:
            verdict(rep, "C01.L1", "%s to_Matrix[:%d,:%d] = factor.to_Matrix(R)" % (name, d, d), w.blk(TX, 0, d, 0, d), MR, quats,
                    W("to_Matrix"), "rotation block of to_Matrix is not the rotation factor's matrix")
        if ok_pr:
            okp, RP = guarded(w, rep, "C01.L1", "%s factor product" % name, lambda: w.call(R, "product", RX, RY))
            if okp:
                verdict(rep, "C01.L1", "%s product rotation slot = factor.product(R_left, R_right)" % name, w.sl(w.param(P), a, b), w.param(RP),
                        quats, W("product"), "rotation slot of the product is not R_left * R_right")
        if ok_inv:
            oki, RI = guarded(w, rep, "C01.L1", "%s factor inverse" % name, lambda: w.call(R, "inverse", RX))
            if oki:
                verdict(rep, "C01.L1", "%s inverse rotation slot = factor.inverse(R)" % name, w.sl(w.param(Xi), a, b), w.param(RI),
                        quats, W("inverse"), "rotation slot of the inverse is not R^-1")
        # border rows are constant [0 ... 0 | I]
        border_ok = all(TX.cells[i][j] == (cm.ONE if i == j else cm.ZERO) for i in range(d, ms[0]) for j in range(ms[1]))
        rep.check("C01.L1", "%s to_Matrix border rows = [0 | I]" % name, border_ok, "bottom rows of to_Matrix are not [0 | I]", where=W("to_Matrix"))
    # ---- D7 right inverse by composition:  from_Matrix(to_Matrix(X)) = X
    if ok_fm and ok_tm:
        okc, Back = guarded(w, rep, "C01.right-inverse", "%s from_Matrix(to_Matrix(X))" % name, lambda: w.call(G, "from_Matrix", TX))
        if okc:
            bp = w.param(Back)
            if kind == "so2":
                bp = MatVal(bp.r, bp.c, [[atan2_table(p) for p in row] for row in bp.cells])
            if kind in ("quat",) and rot_factor(w, G) is G:
                rep.na("C01.right-inverse", "%s from_Matrix(to_Matrix(X))=X" % name, "decided selection by selection below (Shepperd, shared with C07.from-matrix)")
            else:
                a_b = rot_slice(w, G)
                if a_b and kind in ("quat", "mrp", "euler") and rot_factor(w, G) is not G:
                    a, b = a_b
                    # translations exactly; rotation slot equals the factor's from_Matrix of the factor's to_Matrix
                    verdict(rep, "C01.right-inverse", "%s from_Matrix(to_Matrix(X)) translation slots" % name, w.sl(bp, 0, a), w.sl(xp, 0, a),
                            quats, W("from_Matrix"), "from_Matrix does not read back the columns to_Matrix wrote")
                    Rf = rot_factor(w, G)
                    okq, RB = guarded(w, rep, "C01.right-inverse", "%s factor round trip" % name,
                                      lambda: w.call(Rf, "from_Matrix", w.call(w.elem(Rf, w.sl(xp, a, b)), "to_Matrix")))
                    if okq:
                        verdict(rep, "C01.right-inverse", "%s from_Matrix(to_Matrix(X)) rotation slot = factor round trip" % name,
                                w.sl(bp, a, b), w.param(RB), quats, W("from_Matrix"), "rotation slot is not the factor's from_Matrix of the rotation block")
                else:
                    verdict(rep, "C01.right-inverse", "%s from_Matrix(to_Matrix(X))=X" % name, bp, xp, quats, W("from_Matrix"),
                            "from_Matrix is not a right inverse of to_Matrix" + (" (modulo 2 pi, lemma L11 table applied)" if kind == "so2" else ""),
                            unknown_ok=(kind in ("euler", "mrp")))


def check_quaternion_tables(w, rep):
    """D3: the quaternion group exactly, for all unit quaternions of either sign."""
    G = w.G("SO3Quat")
    Q, q = w.fresh(G, "q")
    P, p = w.fresh(G, "p")
    qa, pa = tuple(sym_atoms_of(q)), tuple(sym_atoms_of(p))
    W = lambda m: w.method_where(G, m)[:2]
    ok, QP = guarded(w, rep, "C01.quat", "product", lambda: w.param(w.call(G, "product", Q, P)))
    ok2, Qi = guarded(w, rep, "C01.quat", "inverse", lambda: w.param(w.call(G, "inverse", Q)))
    ok3, RQ = guarded(w, rep, "C01.quat", "to_Matrix", lambda: w.call(Q, "to_Matrix"))
    if not (ok and ok2 and ok3):
        return
    nq = cm.sumsqr(q).s()
    npp = cm.sumsqr(p).s()
    # bilinearity: degree 1 in q and in p separately
    bil = all(all(sum(e for a, e in m if a in qa) == 1 and sum(e for a, e in m if a in pa) == 1 and len(m) == 2 for m in c.t) for c in QP.flat())
    rep.check("C01.quat", "product is bilinear with constant coefficients", bil, "quaternion product is not a constant-coefficient bilinear form", where=W("product"))
    # norm multiplicativity |qp|^2 = |q|^2 |p|^2  (exact polynomial identity, no unit assumption)
    v = decide(cm.sumsqr(QP).s(), nq * npp)
    rep.check("C01.quat", "|q*p|^2 = |q|^2 |p|^2", v == EQUAL, "Hamilton product does not preserve the norm (Hurwitz identity fails)", where=W("product"))
    # q q* = |q|^2 e0
    okc, QQi = guarded(w, rep, "C01.quat", "q*conj(q)", lambda: w.param(w.call(G, "product", Q, w.call(G, "inverse", Q))))
    if okc:
        tgt = cm.vertcat(cm.scalar(nq), 0, 0, 0)
        verdict(rep, "C01.quat", "q * q^-1 = |q|^2 e0", QQi, tgt, (), W("inverse"), "conjugate is not the inverse")
    # R(q*) = R(q)^T
    okc, RQi = guarded(w, rep, "C01.quat", "R(conj q)", lambda: w.call(w.call(G, "inverse", Q), "to_Matrix"))
    if okc:
        verdict(rep, "C01.quat", "R(q^-1) = R(q)^T", RQi, cm.transpose(RQ), [qa], W("to_Matrix"), "matrix of the conjugate is not the transpose")
    # R(q) R(q)^T = I on the unit sphere, det = +1 via R(e0)=I and continuity (not needed)
    verdict(rep, "C01.quat", "R(q) R(q)^T = I (|q|=1)", cm.matmul(RQ, cm.transpose(RQ)), eye(3), [qa], W("to_Matrix"), "rotation matrix of a unit quaternion is not orthonormal")
    # R(-q) = R(q)
    neg = w.call(w.elem(G, cm.neg(q)), "to_Matrix")
    verdict(rep, "C01.quat", "R(-q) = R(q)", neg, RQ, [qa], W("to_Matrix"), "to_Matrix depends on the sign of the quaternion")
    # R(qp) = R(q)R(p) exactly
    RP = w.call(P, "to_Matrix")
    RQP = w.call(w.elem(G, QP), "to_Matrix")
    verdict(rep, "C01.quat", "R(q*p) = R(q) R(p)", RQP, cm.matmul(RQ, RP), [qa, pa], W("product"), "quaternion -> matrix is not a homomorphism")
    # D5 sibling: SO3Dcm.from_Quat is the same nine polynomials
    D = w.G("SO3Dcm")
    okc, DQ = guarded(w, rep, "C01.SIB", "SO3Dcm.from_Quat", lambda: w.call(w.call(D, "from_Quat", Q), "to_Matrix"))
    if okc:
        verdict(rep, "C01.SIB", "SO3Dcm.from_Quat(q) = SO3Quat.to_Matrix(q)", DQ, RQ, [qa], w.method_where(D, "from_Quat")[:2],
                "the two copies of the quaternion->matrix table disagree")


def check_default_product(w, rep):
    """D6: SO3LieGroup.product (used by DCM and Euler) is from_Matrix(to_Matrix(left) @ to_Matrix(right))."""
    for name in ("SO3Dcm", "SO3EulerB321"):
        G = w.G(name)
        X, xp = w.fresh(G, "X")
        Y, yp = w.fresh(G, "Y")
        seen = []

        def hook(f, env, _G=G):
            if f.name == "from_Matrix" and env.get("self") is _G and len(w.it.stack) <= 2:
                seen.append(env.get("arg"))
        w.it.trace_calls = hook
        try:
            ok, P = guarded(w, rep, "C01.default-product", "%s.product" % name, lambda: w.call(G, "product", X, Y))
        finally:
            w.it.trace_calls = None
        if not ok:
            continue
        where = w.method_where(G, "product")[:2]
        want = cm.matmul(w.call(X, "to_Matrix"), w.call(Y, "to_Matrix"))
        if not seen:
            # product not routed through from_Matrix: then its matrix must equal the matrix product directly
            verdict(rep, "C01.default-product", "%s to_Matrix(product) = to_Matrix(X) @ to_Matrix(Y)" % name, w.call(P, "to_Matrix"), want, (), where,
                    "default product is not the matrix product")
        else:
            verdict(rep, "C01.default-product", "%s product = from_Matrix(to_Matrix(left) @ to_Matrix(right))" % name, seen[0], want, (), where,
                    "matrix handed to from_Matrix is not to_Matrix(left) @ to_Matrix(right) (order, transpose or element-wise product)")


def check_mrp_product(w, rep, tier, rule="C01.hom"):
    """SO3Mrp.product is rational of high degree once pushed through to_Matrix; the quick tier compares it, as canonical
    value numbers, with the composition formula of the MRP (Schaub & Junkins eq. 3.152, for T(left) T(right))
        ((1 - |a|^2) b + (1 - |b|^2) a - 2 b x a) / (1 + |a|^2 |b|^2 - 2 a.b),
    and the thorough tier decides T(XY) = T(X) T(Y) itself (about half a minute per cell), which is what makes the
    formula the right reference.  SE3Mrp / SE23Mrp reach it through the semidirect rule (C01.semidirect)."""
    G = w.G("SO3Mrp")
    X, a = w.fresh(G, "X")
    Y, b = w.fresh(G, "Y")
    W = w.method_where(G, "product")[:2]
    ok, P = guarded(w, rep, rule, "SO3Mrp.product", lambda: w.call(G, "product", X, Y))
    if not ok:
        return
    na, nb, ab = cm.sumsqr(a).s(), cm.sumsqr(b).s(), cm.dot(a, b).s()
    den = cm.ONE + na * nb - ab.scale(2)
    cr = cm.cross(b, a)
    want = MatVal(3, 1, [[cm.pdiv((cm.ONE - na) * b.cells[i][0] + (cm.ONE - nb) * a.cells[i][0] - cr.cells[i][0].scale(2), den)] for i in range(3)], "SX")
    verdict(rep, rule, "SO3Mrp.product(a, b) = ((1-|a|^2) b + (1-|b|^2) a - 2 b x a) / (1 + |a|^2 |b|^2 - 2 a.b)", w.param(P), want, (), W,
            "MRP product is not the composition formula of the modified Rodrigues parameters, so to_Matrix(X*Y) is not to_Matrix(X) to_Matrix(Y)")
    if tier == "thorough":
        TP, TX, TY = w.call(P, "to_Matrix"), w.call(X, "to_Matrix"), w.call(Y, "to_Matrix")
        with with_maxdeg(30):
            verdict(rep, rule, "SO3Mrp T(XY) = T(X) T(Y) decided on all nine cells (lemma behind the composition formula)", TP, cm.matmul(TX, TY), (), W,
                    "matrix of the MRP product vs product of the matrices")


def check_direct_product(w, rep, factors, label, prebuilt=None):
    """D4 (direct products): slices partition the parameter vector, every operation is applied factor-wise to its own
    slice, the matrix is block diagonal in factor order."""
    it = w.it
    G = factors[0] if prebuilt is None else prebuilt
    ok = True
    for F in (factors[1:] if prebuilt is None else []):
        ok, G = guarded(w, rep, "C01.direct-product", "%s construction" % label, lambda G=G, F=F: it.binop(ast.Mult(), G, F, None))
        if not ok:
            return
    where = w.method_where(G, "sub_param")[:2]
    ns = [w.attr(F, "n_param") for F in factors]
    n = w.attr(G, "n_param")
    rep.check("C01.direct-product", "%s n_param = sum of factors" % label, n == sum(ns), "n_param %s != %s" % (n, sum(ns)), where=where)
    starts = w.attr(G, "subparam_start")
    pref = [sum(ns[:i]) for i in range(len(ns) + 1)]
    rep.check("C01.direct-product", "%s subparam_start = prefix sums" % label, list(starts) == pref, "subparam_start %s != %s" % (starts, pref), where=where)
    X, xp = w.fresh(G, "X")
    Y, yp = w.fresh(G, "Y")
    # sub_param(i) is exactly the slice [start_i, start_i + n_i)
    good = True
    for i, F in enumerate(factors):
        oks, sp = guarded(w, rep, "C01.direct-product", "%s sub_param(%d)" % (label, i), lambda i=i: w.call(G, "sub_param", i=i, param=xp))
        if not oks:
            return
        want = w.sl(xp, pref[i], pref[i + 1])
        if not (sp.shape == want.shape and mat_equal(sp, want)):
            good = False
            rep.fail("C01.direct-product", "%s sub_param(%d) slice" % (label, i), "sub_param(%d) returns %s cells, expected param[%d:%d]" % (i, sp.shape, pref[i], pref[i + 1]), where=where)
    if good:
        rep.ok("C01.direct-product", "%s sub_param slices partition [0,%d)" % (label, n))
    quats = []
    for i, F in enumerate(factors):
        if rot_kind(w, F) == "quat":
            a, b = rot_slice(w, F)
            for pv in (xp, yp):
                at = sym_atoms_of(pv)
                quats.append(tuple(at[pref[i] + a: pref[i] + b]))
    ops = {
        "product": (lambda: w.param(w.call(G, "product", X, Y)),
                    lambda i, F: w.param(w.call(F, "product", w.elem(F, w.sl(xp, pref[i], pref[i + 1])), w.elem(F, w.sl(yp, pref[i], pref[i + 1]))))),
        "inverse": (lambda: w.param(w.call(G, "inverse", X)),
                    lambda i, F: w.param(w.call(F, "inverse", w.elem(F, w.sl(xp, pref[i], pref[i + 1]))))),
        "identity": (lambda: w.param(w.call(G, "identity")), lambda i, F: w.param(w.call(F, "identity"))),
    }
    for op, (whole, part) in ops.items():
        okw, val = guarded(w, rep, "C01.direct-product", "%s %s" % (label, op), whole)
        if not okw:
            continue
        okp, parts = guarded(w, rep, "C01.direct-product", "%s %s factors" % (label, op), lambda: [part(i, F) for i, F in enumerate(factors)])
        if not okp:
            continue
        verdict(rep, "C01.direct-product", "%s %s is factor-wise on its own slices, in factor order" % (label, op), val, cm.vertcat(*parts), quats,
                w.method_where(G, op)[:2], "direct product %s is not the concatenation of the factors' %s" % (op, op))
    okm, TM = guarded(w, rep, "C01.direct-product", "%s to_Matrix" % label, lambda: w.call(X, "to_Matrix"))
    if okm:
        okp, blocks = guarded(w, rep, "C01.direct-product", "%s to_Matrix factors" % label,
                              lambda: [w.call(w.elem(F, w.sl(xp, pref[i], pref[i + 1])), "to_Matrix") for i, F in enumerate(factors)])
        if okp:
            verdict(rep, "C01.direct-product", "%s to_Matrix is block diagonal in factor order" % label, TM, cm.diagcat(*blocks), quats,
                    w.method_where(G, "to_Matrix")[:2], "direct product to_Matrix is not diagcat of the factors' matrices")
            ms = w.attr(G, "matrix_shape")
            rep.check("C01.direct-product", "%s matrix_shape" % label, tuple(ms) == TM.shape, "matrix_shape %s != to_Matrix shape %s" % (ms, TM.shape), where=where)


def run(w, rep, tier):
    rep.rule("C01.API", "every group offers identity/product/inverse/to_Matrix/(from_Matrix) and each resolves, binds, passes beartype and returns an element of the same group")
    rep.rule("C01.SHP", "to_Matrix has shape matrix_shape")
    rep.rule("C01.identity", "to_Matrix(identity()) is the identity matrix by constant propagation")
    rep.rule("C01.hom", "to_Matrix(X*Y) = to_Matrix(X) @ to_Matrix(Y) cell by cell as canonical forms (unit quaternions reduced modulo |q|=1); rotation block of MRP/Euler/SO(2) factors not decided")
    rep.rule("C01.inv", "to_Matrix(X^-1) to_Matrix(X) = I (DCM: inverse is the transpose)")
    rep.rule("C01.neutral", "identity() * X = X * identity() = X on parameters")
    rep.rule("C01.assoc", "(XY)Z = X(YZ) on parameters where canonical forms decide it")
    rep.rule("C01.L1", "semidirect structure: rotation slot/block of SE(2), SE(3), SE_2(3) are the rotation factor's own product/inverse/to_Matrix")
    rep.rule("C01.quat", "quaternion tables: bilinear, norm-multiplicative, conjugate inverse, R(q^-1)=R(q)^T, R orthonormal on |q|=1, R(-q)=R(q), R(qp)=R(q)R(p)")
    rep.rule("C01.SIB", "SO3Dcm.from_Quat and SO3Quat.to_Matrix are the same function")
    rep.rule("C01.default-product", "SO3LieGroup.product hands to_Matrix(left) @ to_Matrix(right) to from_Matrix")
    rep.rule("C01.direct-product", "direct products: prefix-sum slices partition the parameters; operations factor-wise; block-diagonal matrix")
    rep.rule("C01.right-inverse", "from_Matrix(to_Matrix(X)) = X by composition (SO(2) via the exact atan2 table L11)")
    groups = [(nm, w.G(nm)) for nm in GROUPS12]
    if tier == "thorough":
        se3 = w.obj("cyecca.lie.group_se3", "SE3LieGroup")
        se23 = w.obj("cyecca.lie.group_se23", "SE23LieGroup")
        for rn in ("SO3Dcm", "SO3EulerB321"):
            for cls, lab in ((se3, "SE3"), (se23, "SE23")):
                okc, Gx = guarded(w, rep, "C01.API", "%s(SO3=%s) construction" % (lab, rn), lambda cls=cls, rn=rn: w.callf(cls, SO3=w.G(rn)))
                if okc:
                    groups.append(("%s[%s]" % (lab, rn), Gx))
    for nm, G in groups:
        check_group(w, rep, nm, G, tier)
    check_quaternion_tables(w, rep)
    check_mrp_product(w, rep, tier)
    from .c07 import check_from_matrix
    check_from_matrix(w, rep, R="C01.right-inverse", RV="C01.right-inverse", RS="C01.right-inverse")
    # SO3Mrp.from_Matrix (and SE3Mrp / SE23Mrp through it) is routed Dcm -> Quat -> Mrp (C07.flow): its right-inverse
    # property is the Shepperd rule above composed with "SO3Mrp.from_Quat keeps the rotation matrix" (both signs of q0)
    from .c07 import check_pairs
    check_pairs(w, rep, tier, only={("SO3Quat", "SO3Mrp")}, RP="C01.right-inverse", RA="C01.API")
    # Euler product, inverse and X*identity all end in SO3EulerB321.from_Matrix (default product of SO3LieGroup): outside the
    # documented 1e-3 rad gimbal band the regular branch must be taken (rule shared with C07.euler; seeded C01-6)
    from .c07 import check_euler_band_rule
    check_euler_band_rule(w, rep, "C01.default-product")
    check_default_product(w, rep)
    prods = [("SO3Mrp*R3", ["SO3Mrp", "R3"]), ("SO3Quat*R3", ["SO3Quat", "R3"]), ("SE2*R2*SO2", ["SE2", "R2", "SO2"])]
    if tier == "thorough":
        names = GROUPS12
        for a in names:
            for b in names:
                if (a, b) not in (("SO3Mrp", "R3"), ("SO3Quat", "R3")):
                    prods.append(("%s*%s" % (a, b), [a, b]))
        prods.append(("SE23Quat*SO3Mrp*R2", ["SE23Quat", "SO3Mrp", "R2"]))
    for label, fs in prods:
        check_direct_product(w, rep, [w.G(f) for f in fs], label)
    # a product object that is kept and multiplied again: building G1 * C must leave G1 itself (and an earlier G1 * B) as
    # they were (`*` returns a new group; seeded C01-11 extended the left operand's factor list in place)
    mul = lambda a, b: w.it.binop(ast.Mult(), a, b, None)
    okr, built = guarded(w, rep, "C01.direct-product", "reuse: G1 = SE2*R3; G2 = G1*R3; G3 = G1*SO3Quat", lambda: (lambda g1: (g1, mul(g1, w.G("R3")), mul(g1, w.G("SO3Quat"))))(mul(w.G("SE2"), w.G("R3"))))
    if okr:
        g1, g2, g3 = built
        check_direct_product(w, rep, [w.G("SE2"), w.G("R3")], "G1 = SE2*R3 after G1*R3 and G1*SO3Quat were built", prebuilt=g1)
        check_direct_product(w, rep, [w.G("SE2"), w.G("R3"), w.G("R3")], "G2 = G1*R3 after G1*SO3Quat was built", prebuilt=g2)
        check_direct_product(w, rep, [w.G("SE2"), w.G("R3"), w.G("SO3Quat")], "G3 = G1*SO3Quat", prebuilt=g3)
    rep.floor("C01.API", 12 * 4)
    rep.floor("C01.identity", 12)
    rep.floor("C01.hom", 9)
    rep.floor("C01.quat", 7)
    rep.floor("C01.direct-product", 3 * 6)
    rep.undecided_clause("product/inverse homomorphism of the MRP (rational), Euler and SO(2) (trigonometric) rotation blocks themselves")
    rep.undecided_clause("right inverse of from_Matrix for Euler and MRP (composition through asin/atan2 and the Shepperd branches)")
