"""C19 - sympy <-> CasADi conversion (DESIGN 4, C19): dispatch discipline, semantic tables, leaves, symbol tables.

Pure syntax-tree rules over cyecca/symbolic.py.  Every return expression of a dispatch branch is brought to a
canonical form (operands renamed _0, _1; helper calls and temporaries inlined; 'a > b' rewritten 'b < a';
module aliases resolved) and compared, as ast.dump, with the rows of the tables below.  Nothing is evaluated.
"""
import ast

REL = "cyecca/symbolic.py"


# ------------------------------------------------------------------ canonical forms
def D(node):
    """Dump after an unparse/parse round trip, so hand-built and parsed trees compare equal."""
    try:
        return ast.dump(ast.parse(ast.unparse(ast.fix_missing_locations(node)), mode="eval").body)
    except SyntaxError:   # not an expression on its own (operator, context, starred...)
        return "<%s>" % ast.dump(node)


def U(node):
    return ast.unparse(ast.fix_missing_locations(node))


def P(src):
    """Table entry (python expression over _0, _1) -> canonical dump."""
    return D(Canon({}).visit(ast.parse(src, mode="eval").body))


def clone(n):
    """Copy of a syntax tree over its _fields only (the front end's _parent links are not followed)."""
    if isinstance(n, list):
        return [clone(x) for x in n]
    if not isinstance(n, ast.AST):
        return n
    return type(n)(**{f: clone(getattr(n, f)) for f in n._fields if hasattr(n, f)})


def operator_form(n):
    """The function forms of the operators are the operators: operator.add(a, b) is a + b, ... -> rewritten node or None."""
    if not isinstance(n, ast.Call) or n.keywords:
        return None
    fq = U(n.func)
    if not fq.startswith("operator."):
        return None
    nm = fq[len("operator."):].strip("_")
    nm = nm[1:] if nm.startswith("i") and nm[1:] in ("add", "sub", "mul", "truediv", "pow", "matmul") else nm
    bins = {"add": ast.Add, "sub": ast.Sub, "mul": ast.Mult, "truediv": ast.Div, "pow": ast.Pow, "matmul": ast.MatMult, "mod": ast.Mod}
    cmps = {"lt": ast.Lt, "le": ast.LtE, "eq": ast.Eq, "ne": ast.NotEq}
    if nm in bins and len(n.args) == 2:
        return ast.BinOp(n.args[0], bins[nm](), n.args[1])
    if nm in cmps and len(n.args) == 2:
        return ast.Compare(n.args[0], [cmps[nm]()], [n.args[1]])
    if nm in ("gt", "ge") and len(n.args) == 2:
        return ast.Compare(n.args[1], [ast.Lt() if nm == "gt" else ast.LtE()], [n.args[0]])
    if nm == "neg" and len(n.args) == 1:
        return ast.UnaryOp(ast.USub(), n.args[0])
    if nm == "pos" and len(n.args) == 1:
        return n.args[0]
    return None


class OperatorForms(ast.NodeTransformer):
    def visit_Call(self, n):
        n = self.generic_visit(n)
        return operator_form(n) or n


class Canon(ast.NodeTransformer):
    """env: Name -> replacement expression.  Also a > b => b < a, abs => sympy.Abs, alias.X => sympy.X / ca.X."""

    def __init__(self, env, aliases=None, hooks=()):
        self.env, self.aliases, self.hooks = env, aliases or {}, hooks

    def visit_Name(self, n):
        if n.id in self.env:
            return clone(self.env[n.id])
        if n.id in self.aliases:
            return clone(self.aliases[n.id])
        return ast.Name(n.id, ast.Load())

    def visit_Compare(self, n):
        n = self.generic_visit(n)
        if len(n.ops) == 1 and isinstance(n.ops[0], (ast.Gt, ast.GtE)):
            op = ast.Lt() if isinstance(n.ops[0], ast.Gt) else ast.LtE()
            return ast.Compare(n.comparators[0], [op], [n.left])
        return n

    def visit_Call(self, n):
        n = self.generic_visit(n)
        if isinstance(n.func, ast.Name) and n.func.id == "abs" and len(n.args) == 1:
            n = ast.Call(ast.Attribute(ast.Name("sympy", ast.Load()), "Abs", ast.Load()), n.args, [])
        r_ = operator_form(n)
        if r_ is not None:
            return r_
        for h in self.hooks:
            r = h(n)
            if r is not None:
                return r
        return n


def aliases_of(tree):
    """import sympy as sp / from sympy import sin  ->  {'sp': sympy, 'sin': sympy.sin} (same for casadi -> ca)."""
    out = {}
    canon = {"sympy": "sympy", "casadi": "ca"}
    for n in tree.body:
        if isinstance(n, ast.Import):
            for a in n.names:
                if a.name in canon:
                    out[a.asname or a.name] = ast.Name(canon[a.name], ast.Load())
        elif isinstance(n, ast.ImportFrom) and n.module in canon:
            for a in n.names:
                out[a.asname or a.name] = ast.Attribute(ast.Name(canon[n.module], ast.Load()), a.name, ast.Load())
    return out


def inline(stmts, canon):
    """Straight-line body -> list of ('return'|'raise'|'if'|'other', payload) with temporaries substituted."""
    out = []
    for s in stmts:
        if isinstance(s, ast.Assign) and len(s.targets) == 1 and isinstance(s.targets[0], ast.Name):
            canon.env[s.targets[0].id] = canon.visit(clone(s.value))
        elif isinstance(s, ast.Assign) and len(s.targets) == 1 and isinstance(s.targets[0], ast.Tuple) \
                and all(isinstance(e, ast.Name) for e in s.targets[0].elts):
            v = canon.visit(clone(s.value))
            for k, e in enumerate(s.targets[0].elts):
                canon.env[e.id] = ast.Subscript(clone(v), ast.Constant(k), ast.Load())
        elif isinstance(s, ast.Return) and s.value is not None:
            out.append(("return", canon.visit(clone(s.value))))
        elif isinstance(s, ast.Raise):
            out.append(("raise", s))
        elif isinstance(s, ast.If):
            out.append(("if", (canon.visit(clone(s.test)), inline(s.body, canon), inline(s.orelse, canon))))
        elif isinstance(s, ast.Expr) and isinstance(s.value, ast.Constant):
            continue
        else:
            out.append(("other", s))
    return out


def raised_error(stmts):
    """Name of the exception if the block is a single 'raise X(...)', else None."""
    if len(stmts) == 1 and isinstance(stmts[0], ast.Raise) and stmts[0].exc is not None:
        e = stmts[0].exc
        e = e.func if isinstance(e, ast.Call) else e
        return e.id if isinstance(e, ast.Name) else None
    return None


def terminates(stmts):
    return bool(stmts) and isinstance(stmts[-1], (ast.Return, ast.Raise))


def chain_of(fn, key_of):
    """Flatten the if/elif dispatch (also a run of consecutive terminating ifs) -> ([(key, test, body, ifnode)], final block).
    An elif whose test key_of does not recognise gets the key ('?', text)."""
    branches, started = [], False
    for idx, s in enumerate(fn.body):
        if not (isinstance(s, ast.If) and key_of(s.test) is not None):
            if started:
                return branches, fn.body[idx:]
            continue
        started, node = True, s
        while True:
            branches.append((key_of(node.test) or ("?", U(node.test)), node.test, node.body, node))
            if len(node.orelse) == 1 and isinstance(node.orelse[0], ast.If):
                node = node.orelse[0]
                continue
            break
        if node.orelse or not all(terminates(b[2]) for b in branches):
            return branches, node.orelse
    return branches, []


# ------------------------------------------------------------------ tables (the trusted part of this rule)
def row(reason, *accepted, wrong=None, multi=False):
    return {"why": reason, "ok": {P(a): a for a in accepted}, "bad": {P(k): v for k, v in (wrong or {}).items()}, "multi": multi}


def comm(fmt):
    return (fmt.format(a="_0", b="_1"), fmt.format(a="_1", b="_0"))


def unary_fn(name, why=None):
    return row(why or "same elementary function", "sympy.%s(_0)" % name)


def minmax(lt, name):
    alts = []
    for a, b in (("_0", "_1"), ("_1", "_0")):
        for strict in ("<", "<="):
            x, y = (a, b) if lt else (b, a)
            alts.append("sympy.Piecewise((%s, %s %s %s), (%s, True))" % (a, x, strict, y, b))
        alts.append("sympy.%s(%s, %s)" % (name, a, b))
    return alts


# CasADi opcode -> sympy construct.  Operands: _0 = dep(0), _1 = dep(1).
OPS = {
    "OP_ASSIGN": row("identity", "_0"),
    "OP_ADD": row("sum (commutative)", *comm("{a} + {b}")),
    "OP_SUB": row("dep(0) - dep(1), order matters", "_0 - _1", "_0 + -_1", wrong={"_1 - _0": "operands swapped: 3 - 1 gives -2"}),
    "OP_MUL": row("product (commutative)", *comm("{a} * {b}")),
    "OP_DIV": row("dep(0) / dep(1), order matters", "_0 / _1", "_0 * _1 ** -1", wrong={"_1 / _0": "operands swapped: 1/2 gives 2"}),
    "OP_NEG": row("negation", "-_0", "-1 * _0", "_0 * -1", "0 - _0"),
    "OP_EXP": unary_fn("exp"),
    "OP_LOG": row("natural logarithm", "sympy.log(_0)", "sympy.ln(_0)"),
    "OP_POW": row("dep(0) ** dep(1), order matters", "_0 ** _1", "sympy.Pow(_0, _1)", wrong={"_1 ** _0": "operands swapped: 2**3 gives 9"}),
    "OP_CONSTPOW": row("power with constant exponent", "_0 ** _1", "sympy.Pow(_0, _1)"),
    "OP_SQRT": row("square root", "sympy.sqrt(_0)", "_0 ** sympy.Rational(1, 2)", "_0 ** sympy.S.Half"),
    "OP_SQ": row("square", "_0 ** 2", "_0 * _0", "sympy.Pow(_0, 2)"),
    "OP_TWICE": row("2 x", "2 * _0", "_0 * 2", "_0 + _0", wrong={"_0 ** 2": "square instead of double: 3 gives 9, not 6"}),
    "OP_SIN": unary_fn("sin"), "OP_COS": unary_fn("cos"), "OP_TAN": unary_fn("tan"),
    "OP_ASIN": unary_fn("asin"), "OP_ACOS": unary_fn("acos"), "OP_ATAN": unary_fn("atan"),
    "OP_LT": row("dep(0) < dep(1)", "_0 < _1", "sympy.Lt(_0, _1)", "sympy.StrictLessThan(_0, _1)", "sympy.Gt(_1, _0)"),
    "OP_LE": row("dep(0) <= dep(1)", "_0 <= _1", "sympy.Le(_0, _1)", "sympy.LessThan(_0, _1)", "sympy.Ge(_1, _0)"),
    "OP_EQ": row("needs a relational object", *comm("sympy.Eq({a}, {b})"), *comm("sympy.Equality({a}, {b})"), multi=True,
                 wrong={k: "Python == on sympy expressions is structural equality and returns a bool: x == y gives False, "
                           "which is not the relation (at x = y = 1 CasADi gives 1)" for k in comm("{a} == {b}")}),
    "OP_NE": row("needs a relational object", *comm("sympy.Ne({a}, {b})"), *comm("sympy.Unequality({a}, {b})"), multi=True,
                 wrong={k: "Python != on sympy expressions is structural and returns a bool: x != y gives True, "
                           "which is not the relation (at x = y = 1 CasADi gives 0)" for k in comm("{a} != {b}")}),
    "OP_NOT": row("logical negation", "sympy.Not(_0)", "~_0"),
    "OP_AND": row("conjunction (commutative)", *comm("sympy.And({a}, {b})"), *comm("{a} & {b}")),
    "OP_OR": row("disjunction (commutative)", *comm("sympy.Or({a}, {b})"), *comm("{a} | {b}")),
    "OP_FLOOR": unary_fn("floor"),
    "OP_CEIL": row("ceiling; sympy's name is 'ceiling'", "sympy.ceiling(_0)", "-sympy.floor(-_0)",
                   wrong={"sympy.ceil(_0)": "module sympy has no attribute 'ceil' (the function is sympy.ceiling): converting ca.ceil(x) "
                                            "dies with AttributeError although the construct is accepted and representable"}),
    "OP_FMOD": row("C fmod: result has the sign of the dividend", "sympy.sign(_0) * sympy.Mod(sympy.Abs(_0), sympy.Abs(_1))",
                   "sympy.Mod(sympy.Abs(_0), sympy.Abs(_1)) * sympy.sign(_0)", multi=True,
                   wrong={"sympy.Mod(_0, _1)": "sympy.Mod takes the sign of the divisor, C fmod that of the dividend: fmod(-1, 3) = -1 but Mod(-1, 3) = 2",
                          "_0 - _1 * sympy.trunc(_0 / _1)": "sympy.trunc is polynomial truncation trunc(f, p), not rounding toward zero: the call raises TypeError",
                          "_0 - sympy.trunc(_0 / _1) * _1": "sympy.trunc is polynomial truncation trunc(f, p), not rounding toward zero: the call raises TypeError",
                          "_0 % _1": "sympy % is Mod (sign of the divisor): fmod(-1, 3) = -1 but (-1) % 3 = 2",
                          "sympy.sign(_0) * sympy.Mod(sympy.Abs(_0), _1)": "Mod takes the sign of its divisor: fmod(5.5, -2) = 1.5 but sign(5.5)*Mod(5.5, -2) = -0.5",
                          "sympy.Mod(sympy.Abs(_0), _1) * sympy.sign(_0)": "Mod takes the sign of its divisor: fmod(5.5, -2) = 1.5 but Mod(5.5, -2)*sign(5.5) = -0.5",
                          "sympy.sign(_0) * sympy.Mod(_0, sympy.Abs(_1))": "Mod(a, |b|) is non-negative: fmod(-1, 3) = -1 but sign(-1)*Mod(-1, 3) = -2"}),
    "OP_FABS": row("absolute value", "sympy.Abs(_0)"),
    "OP_SIGN": unary_fn("sign", "sign with sign(0) = 0 in both libraries"),
    "OP_COPYSIGN": row("|dep(0)| with the sign of dep(1); no exact total sympy form known to this table", multi=True),
    "OP_IF_ELSE_ZERO": row("dep(0) is the condition, dep(1) the value", "sympy.Piecewise((_1, _0), (0, True))",
                           wrong={"sympy.Piecewise((_0, _1), (0, True))": "condition and value swapped"}),
    "OP_ERF": unary_fn("erf"),
    "OP_FMIN": row("minimum", *minmax(True, "Min"), wrong={k: "this is the maximum: (1, 2) gives 2" for k in minmax(False, "Max")}),
    "OP_FMAX": row("maximum", *minmax(False, "Max"), wrong={k: "this is the minimum: (1, 2) gives 1" for k in minmax(True, "Min")}),
    "OP_INV": row("reciprocal", "1 / _0", "_0 ** -1", "sympy.Pow(_0, -1)", "1.0 / _0"),
    "OP_SINH": unary_fn("sinh"), "OP_COSH": unary_fn("cosh"), "OP_TANH": unary_fn("tanh"),
    "OP_ASINH": unary_fn("asinh"), "OP_ACOSH": unary_fn("acosh"), "OP_ATANH": unary_fn("atanh"),
    "OP_ATAN2": row("atan2(dep(0) = y, dep(1) = x)", "sympy.atan2(_0, _1)", wrong={"sympy.atan2(_1, _0)": "arguments swapped: atan2(0, 1) = 0 becomes pi/2"}),
    "OP_ERFINV": unary_fn("erfinv"),
    "OP_LOG1P": row("log(1 + x)", "sympy.log(_0 + 1)", "sympy.log(1 + _0)"),
    "OP_EXPM1": row("exp(x) - 1", "sympy.exp(_0) - 1", "-1 + sympy.exp(_0)"),
    "OP_HYPOT": row("sqrt(x^2 + y^2)", *comm("sympy.sqrt({a} ** 2 + {b} ** 2)")),
    "OP_REMAINDER": row("IEEE remainder: x - y*n, n = x/y rounded to nearest (ties to even); result in [-|y|/2, |y|/2]", multi=True,
                        wrong={"sympy.Mod(_0 + _1, _1) - _1": "lies in (-y, 0] for y > 0: remainder(1, 4) = 1 but Mod(1 + 4, 4) - 4 = -3",
                               "sympy.Mod(_0, _1)": "sympy.Mod is the floored modulus: remainder(3, 4) = -1 but Mod(3, 4) = 3",
                               "_0 % _1": "sympy % is the floored modulus: remainder(3, 4) = -1 but 3 % 4 = 3",
                               "_0 - _1 * sympy.floor(_0 / _1)": "floored, not rounded to nearest: remainder(3, 4) = -1, this gives 3"}),
}
# forms of the ambiguous rows that are exact but hard to enumerate are left to the incomplete verdict on purpose

# sympy type / function name -> CasADi construct.  _0, _1 = prs(f.args[0]), prs(f.args[1]); F = the sympy object itself.
LEAVES = {
    "Integer": row("exact integer", "int(F)", "F.p", "float(F)"),
    "int": row("python int passes through", "F", "int(F)"), "float": row("python float passes through", "F", "float(F)"),
    "Float": row("floating-point constant keeps its fraction", "float(F)", multi=True,
                 wrong={"int(F)": "int() truncates the fraction: Float(2.5) becomes 2"}),
    "Rational": row("numerator / denominator, in that order", "prs(F.numerator) / prs(F.denominator)", "prs(F.p) / prs(F.q)", "F.p / F.q",
                    "F.numerator / F.denominator", "int(F.p) / int(F.q)", "float(F)", "float(F.p) / float(F.q)", multi=True,
                    wrong={"prs(F.denominator) / prs(F.numerator)": "numerator and denominator swapped: 1/3 becomes 3",
                           "prs(F.q) / prs(F.p)": "numerator and denominator swapped: 1/3 becomes 3", "F.q / F.p": "swapped: 1/3 becomes 3",
                           "F.denominator / F.numerator": "swapped: 1/3 becomes 3", "int(F)": "int() truncates: 1/3 becomes 0",
                           "F.p // F.q": "integer division: 1/3 becomes 0", "F.numerator // F.denominator": "integer division: 1/3 becomes 0"}),
}
LEAVES.update({"Pi": row("the constant pi", "ca.pi", "math.pi", "float(F)", multi=True), "Exp1": row("the constant e", "ca.exp(1)", "math.e", "float(F)", multi=True),
               "Infinity": row("+inf", "ca.inf", "float(F)", multi=True), "NegativeInfinity": row("-inf", "-ca.inf", "float(F)", multi=True)})
CONSTS = {"One": 1, "Zero": 0, "NegativeOne": -1, "Half": 0.5}
FUNCS = {  # sympy function name -> accepted CasADi heads
    "sin": ("sin",), "cos": ("cos",), "tan": ("tan",), "asin": ("asin", "arcsin"), "acos": ("acos", "arccos"), "atan": ("atan", "arctan"),
    "sinh": ("sinh",), "cosh": ("cosh",), "tanh": ("tanh",), "asinh": ("asinh", "arcsinh"), "acosh": ("acosh", "arccosh"),
    "atanh": ("atanh", "arctanh"), "exp": ("exp",), "log": ("log",), "sqrt": ("sqrt",), "Abs": ("fabs",), "sign": ("sign",),
    "floor": ("floor",), "ceiling": ("ceil",), "erf": ("erf",), "erfinv": ("erfinv",),
}
FUNCS2 = {"atan2": ("atan2", "arctan2"), "Min": ("fmin",), "Max": ("fmax",)}

REV = {}
for _op, _r in OPS.items():
    for _d in _r["ok"]:
        REV.setdefault(_d, _op)


# ------------------------------------------------------------------ generic deciders
class Ctx:
    def __init__(self, w, rep):
        self.w, self.rep = w, rep
        self.sf = w.fe.get(REL)
        self.aliases = aliases_of(self.sf.tree)

    def at(self, node):
        return (REL, getattr(node, "lineno", 0))


def name(i):
    return ast.Name("_%d" % i, ast.Load())


def bind(call, params):
    """Arguments of a call, by parameter name of the callee."""
    out = dict(zip(params, call.args))
    out.update({k.arg: k.value for k in call.keywords if k.arg})
    return out


def is_name(n, s):
    return isinstance(n, ast.Name) and n.id == s


def verdict(cx, rule, inst, table_row, expr, node, extra=""):
    """Look one canonical return expression up in its row: accepted -> ok, known wrong -> fail, else fail / incomplete."""
    expr = OperatorForms().visit(clone(expr))
    d, txt = D(expr), U(expr)
    if d in table_row["ok"]:
        cx.rep.ok(rule, inst, fact={"returns": txt, "reason": table_row["why"]})
    elif d in table_row["bad"]:
        cx.rep.fail(rule, inst, "returns %s: %s" % (txt, table_row["bad"][d]), where=cx.at(node), fact={"returns": txt})
    elif table_row["multi"]:
        cx.rep.incomplete(rule, inst, "returns %s, which is neither an accepted nor a known-wrong form of this row (%s)%s" % (
            txt, table_row["why"], extra), where=cx.at(node))
    else:
        other = REV.get(d)
        cx.rep.fail(rule, inst, "returns %s%s; the row (%s) accepts only: %s" % (
            txt, " (the construct of %s)" % other if other else "", table_row["why"], " | ".join(sorted(table_row["ok"].values())[:4])),
            where=cx.at(node), fact={"returns": txt})


def single_return(items):
    return items[0][1] if len(items) == 1 and items[0][0] == "return" else None


def if_two_returns(items):
    """if T: return A / else: return B   (or fall-through return B)  ->  (T, A, B) or None."""
    if items and items[0][0] == "if":
        t, body, orelse = items[0][1]
        rest = orelse if len(items) == 1 else (items[1:] if not orelse else None)
        a, b = single_return(body), single_return(rest or [])
        if a is not None and b is not None:
            return t, a, b
    return None


def symtab(cx, inst, body, table, keys, node):
    """Lookup-before-create, and the STORED object is what is returned."""
    rule, canon = "C19.symtab", Canon({}, cx.aliases)
    rets = [s for b in body for s in ast.walk(b) if isinstance(s, ast.Return) and s.value is not None]
    if not rets:
        return cx.rep.incomplete(rule, inst, "no return in the symbol branch", where=cx.at(node))
    for s in (s for b in body for s in ast.walk(b) if isinstance(s, (ast.Assign, ast.AugAssign))):
        for t in (s.targets if isinstance(s, ast.Assign) else [s.target]):
            if isinstance(t, ast.Subscript) and is_name(t.value, table):
                k = D(canon.visit(clone(t.slice)))
                par = getattr(s, "_parent", None)
                guard = isinstance(par, ast.If) and s in par.body and isinstance(par.test, ast.Compare) and len(par.test.ops) == 1 \
                    and isinstance(par.test.ops[0], ast.NotIn) and is_name(par.test.comparators[0], table) \
                    and D(canon.visit(clone(par.test.left))) == k
                if k not in keys:
                    return cx.rep.incomplete(rule, inst, "unrecognised table key %s" % U(t.slice), where=cx.at(s))
                if not guard:
                    return cx.rep.fail(rule, inst, "%s[%s] is (re)created without a preceding '%s not in %s' test: a second occurrence of the "
                                       "same name maps to a different variable" % (table, U(t.slice), U(t.slice), table), where=cx.at(s))
    for r in rets:
        v = canon.visit(clone(r.value))
        stored = isinstance(v, ast.Subscript) and is_name(v.value, table) and D(v.slice) in keys
        setdef = isinstance(v, ast.Call) and isinstance(v.func, ast.Attribute) and v.func.attr == "setdefault" and is_name(v.func.value, table) \
            and v.args and D(v.args[0]) in keys
        if stored or setdef:
            continue
        if isinstance(v, ast.Call) and not any(is_name(x, table) for x in ast.walk(v)):
            return cx.rep.fail(rule, inst, "returns a freshly created object (%s) instead of the one stored in %s: the same name maps to "
                               "different variables" % (U(v), table), where=cx.at(r))
        return cx.rep.incomplete(rule, inst, "cannot relate the returned %s to the table %s" % (U(v), table), where=cx.at(r))
    cx.rep.ok(rule, inst, fact={"table": table, "pattern": "lookup-before-create, returns stored object"})


def matrix_fill(cx, inst, body, canon, bases, rows, cols, value_forms, node):
    """for x in range(rows): for y in range(cols): BASE[x, y] = value(x, y); return BASE."""
    rule, loops, stores, rets = "C19.matrix", {}, [], []

    def walk(stmts):
        for s in stmts:
            if isinstance(s, ast.For) and isinstance(s.target, ast.Name) and not s.orelse:
                loops[s.target.id] = D(canon.visit(clone(s.iter)))
                walk(s.body)
            elif isinstance(s, ast.For) and isinstance(s.target, ast.Tuple) and len(s.target.elts) == 2 and all(isinstance(e, ast.Name) for e in s.target.elts) and not s.orelse \
                    and isinstance(s.iter, ast.Call) and U(s.iter.func) in ("itertools.product", "product") and len(s.iter.args) == 2 and not s.iter.keywords:
                # one loop over the Cartesian product of the two ranges: the nested loops in one statement
                for e, rng in zip(s.target.elts, s.iter.args):
                    loops[e.id] = D(canon.visit(clone(rng)))
                walk(s.body)
            elif isinstance(s, ast.Assign) and len(s.targets) == 1 and isinstance(s.targets[0], ast.Subscript):
                stores.append((canon.visit(clone(s.targets[0])), canon.visit(clone(s.value)), s))
            elif isinstance(s, ast.Return) and s.value is not None:
                rets.append(canon.visit(clone(s.value)))
            elif isinstance(s, ast.Assign):
                inline([s], canon)
            else:
                return False
        return True
    shape_ok = walk(body) and len(stores) == 1 and len(rets) == 1 and isinstance(stores[0][0].slice, ast.Tuple) \
        and len(stores[0][0].slice.elts) == 2 and all(isinstance(e, ast.Name) and e.id in loops for e in stores[0][0].slice.elts)
    if not shape_ok:
        return cx.rep.incomplete(rule, inst, "matrix branch is not a two-level fill loop with one store and one return", where=cx.at(node))
    tgt, val, st = stores[0]
    x, y = (e.id for e in tgt.slice.elts)
    if D(tgt.value) not in [P(b) for b in bases] or D(rets[0]) != D(tgt.value):
        return cx.rep.incomplete(rule, inst, "unrecognised result matrix %s / returned %s" % (U(tgt.value), U(rets[0])), where=cx.at(st))
    if (loops[x], loops[y]) == (P("range(%s)" % cols), P("range(%s)" % rows)):
        return cx.rep.fail(rule, inst, "store %s: first index runs over the columns and second over the rows (transposed; out of range for "
                           "non-square input)" % U(tgt), where=cx.at(st))
    if (loops[x], loops[y]) != (P("range(%s)" % rows), P("range(%s)" % cols)):
        return cx.rep.incomplete(rule, inst, "loop bounds %s not recognised" % loops, where=cx.at(st))
    good, bad = value_forms(x, y)
    d = D(val)
    if d in [P(g) for g in good]:
        cx.rep.ok(rule, inst, fact={"store": U(tgt), "value": U(val)})
    elif d in {P(k): v for k, v in bad.items()}:
        cx.rep.fail(rule, inst, "store %s = %s: %s" % (U(tgt), U(val), {P(k): v for k, v in bad.items()}[d]), where=cx.at(st))
    else:
        cx.rep.incomplete(rule, inst, "element expression %s not recognised" % U(val), where=cx.at(st))


def dispatch(cx, who, branches, final, fn, meant_for=lambda body: None):
    """D1: unique tests, final else raises.  Returns the reachable (first) branch of each key."""
    rule, first = "C19.dispatch", {}
    for key, test, body, node in branches:
        if isinstance(key, tuple):
            cx.rep.incomplete(rule, "%s test %s" % (who, key[1]), "dispatch test of unrecognised form", where=cx.at(node))
            continue
        if key in first:
            hint = ""
            if len(body) == 1 and isinstance(body[0], ast.Return) and body[0].value is not None:
                hint = "; the dead branch returns %s" % U(body[0].value)
            other = meant_for(body)
            if other and other != key:
                hint += ", the accepted construct of %s, which no branch tests: %s is never converted" % (other, other)
            cx.rep.fail(rule, "%s %s tested twice" % (who, key), "the chain tests %s a second time; the second branch is unreachable%s" % (key, hint),
                        where=cx.at(node), fact={"key": key, "meant_for": other})
            continue
        first[key] = (test, body, node)
    for key in first:
        cx.rep.ok(rule, "%s %s" % (who, key), fact={"tests": 1})
    inst = "%s final else" % who
    if not final:
        cx.rep.fail(rule, inst, "the dispatch chain has no final else: an unhandled construct makes the function return None silently "
                    "instead of raising", where=cx.at(branches[-1][3] if branches else fn))
    elif raised_error(final) is None and not isinstance(final[-1], ast.Raise):
        cx.rep.fail(rule, inst, "the final else does not raise (%s): unhandled constructs are passed on altered" % U(final[-1])[:60], where=cx.at(final[-1]))
    else:
        cx.rep.ok(rule, inst, fact={"raises": raised_error(final) or "exception"})
    return first


# ------------------------------------------------------------------ CasADi -> sympy
def rec_hook(fname, params, e, s):
    """casadi_to_sympy(e.dep(k), s)  ->  _k   (anything else is left in place and will not match a table row)."""
    def h(n):
        if isinstance(n, ast.Call) and is_name(n.func, fname):
            b = bind(n, params)
            a0, a1 = b.get(params[0]), b.get(params[1])
            if a1 is not None and is_name(a1, s) and isinstance(a0, ast.Call) and isinstance(a0.func, ast.Attribute) and a0.func.attr == "dep" \
                    and is_name(a0.func.value, e) and len(a0.args) == 1 and isinstance(a0.args[0], ast.Constant) and a0.args[0].value in (0, 1):
                return name(a0.args[0].value)
        return None
    return h


def casadi_side(cx):
    rep, fn = cx.rep, cx.w.fe.find_def(REL, "casadi_to_sympy")
    who, params = fn.name, [a.arg for a in fn.args.args]
    if len(params) < 2:
        return rep.incomplete("C19.plumb", who, "expected (expr, syms) parameters", where=cx.at(fn))
    E, S = params[0], params[1]

    # recursion helpers: def binary(expr, f): return f(rec(expr.dep(0)), rec(expr.dep(1)))
    helpers = {}
    for h in (s for s in fn.body if isinstance(s, ast.FunctionDef)):
        hp = [a.arg for a in h.args.args]
        if len(hp) != 2 or S in hp:
            continue
        ret = single_return(inline(h.body, Canon({}, cx.aliases, [rec_hook(who, params, hp[0], S)])))
        inst = "%s.%s" % (who, h.name)
        if not (isinstance(ret, ast.Call) and is_name(ret.func, hp[1])):
            rep.incomplete("C19.plumb", inst, "helper body is not 'return f(...)'", where=cx.at(h))
            continue
        helpers[h.name] = len(ret.args)
        want = [D(name(k)) for k in range(len(ret.args))]
        got = [D(a) for a in ret.args]
        if got == want and not ret.keywords:
            rep.ok("C19.plumb", inst, fact={"applies": U(ret)})
        elif sorted(got) == want:
            rep.fail("C19.plumb", inst, "passes the operands in the order %s: every non-commutative binary opcode (SUB, DIV, POW, LT, ATAN2...) is "
                     "converted with swapped operands" % ", ".join("dep(%s)" % U(a)[1:] for a in ret.args), where=cx.at(h))
        else:
            rep.fail("C19.plumb", inst, "operands are not %s(%s.dep(k), %s) for k = 0.. in order (got %s): wrong operand, or the symbol table is "
                     "not forwarded" % (who, hp[0], S, U(ret)), where=cx.at(h))

    problems = []

    def helper_hook(n):
        if isinstance(n, ast.Call) and isinstance(n.func, ast.Name) and n.func.id in helpers and len(n.args) == 2 and is_name(n.args[0], E):
            ar, f = helpers[n.func.id], n.args[1]
            if isinstance(f, ast.Lambda):
                lp = [a.arg for a in f.args.args]
                if len(lp) != ar:
                    problems.append("lambda of %d parameter(s) given to the %d-operand helper %s" % (len(lp), ar, n.func.id))
                return Canon({p: name(k) for k, p in enumerate(lp)}).visit(clone(f.body))
            return ast.Call(f, [name(k) for k in range(ar)], [])
        return None

    def fresh():
        return Canon({}, cx.aliases, [rec_hook(who, params, E, S), helper_hook])

    # matrix branch
    mat = [s for s in fn.body if isinstance(s, ast.If) and any(isinstance(x, ast.Attribute) and x.attr in ("numel", "shape", "size1", "is_scalar")
                                                              for x in ast.walk(s.test))]
    if not mat:
        rep.na("C19.matrix", "%s matrix branch" % who, "no matrix branch")
    else:
        R, C = "%s.shape[0]" % E, "%s.shape[1]" % E

        def forms(x, y):
            rec = who + "(%s, " + S + ")"
            el = E + ".elements()[%s]"
            good = [rec % (el % i) for i in ("{x} + {R} * {y}", "{x} + {y} * {R}", "{R} * {y} + {x}", "{y} * {R} + {x}")] + [rec % (E + "[{x}, {y}]")]
            bad = {rec % (el % i): "elements() is column-major, this index is row-major: the matrix comes out scrambled/transposed"
                   for i in ("{y} + {C} * {x}", "{x} * {C} + {y}", "{C} * {x} + {y}", "{y} + {x} * {C}")}
            bad.update({rec % (el % i): "wrong stride (%s): column-major linear index is i + rows*j" % i
                        for i in ("{y} + {R} * {x}", "{x} + {C} * {y}", "{x} + {y}")})
            bad[rec % (E + "[{y}, {x}]")] = "transposed element"
            bad.update({g.replace(", " + S + ")", ")"): "the symbol table %s is not forwarded to the recursive call" % S for g in good})
            f = lambda s: s.format(x=x, y=y, R=R, C=C)
            return [f(g) for g in good], {f(k): v for k, v in bad.items()}
        bases = ["sympy.zeros(%s, %s)" % (R, C), "sympy.Matrix.zeros(%s, %s)" % (R, C), "sympy.zeros(*%s.shape)" % E]
        matrix_fill(cx, "%s matrix branch" % who, mat[0].body, Canon({}, cx.aliases), bases, R, C, forms, mat[0])

    # dispatch chain
    opvars = {t.id for s in fn.body if isinstance(s, ast.Assign) for t in s.targets if isinstance(t, ast.Name)
              and D(Canon({}, cx.aliases).visit(clone(s.value))) == P("%s.op()" % E)}

    def key_of(test):
        if isinstance(test, ast.Compare) and len(test.ops) == 1 and isinstance(test.ops[0], ast.Eq):
            for a, b in ((test.left, test.comparators[0]), (test.comparators[0], test.left)):
                if ((isinstance(a, ast.Name) and a.id in opvars) or D(a) == P("%s.op()" % E)) \
                        and isinstance(b, ast.Attribute) and b.attr.startswith("OP_"):
                    return b.attr
        return None
    branches, final = chain_of(fn, key_of)
    if not branches:
        return rep.incomplete("C19.dispatch", who, "no 'op == ca.OP_*' dispatch chain found", where=cx.at(fn))
    def meant_for(body):
        e = single_return(inline(body, fresh()))
        return REV.get(D(e)) if e is not None else None
    for key, (test, body, node) in dispatch(cx, who, branches, final, fn, meant_for).items():
        inst = "%s %s" % (who, key)
        if raised_error(body) is not None:
            rep.ok("C19.refuse", inst, fact={"raises": raised_error(body)})
        elif key == "OP_PARAMETER":
            symtab(cx, inst, body, S, {P(E), P("str(%s)" % E), P("%s.name()" % E)}, node)
        elif key == "OP_CONST":
            const_branch(cx, inst, inline(body, fresh()), E, node)
        elif key not in OPS:
            rep.incomplete("C19.table", inst, "opcode is converted but the semantic table has no row for it", where=cx.at(node))
        else:
            del problems[:]
            expr = single_return(inline(body, fresh()))
            if expr is None:
                rep.incomplete("C19.table", inst, "branch is not a single return/raise", where=cx.at(node))
            elif problems:
                rep.fail("C19.table", inst, problems[0], where=cx.at(node))
            else:
                left = [U(x) for x in ast.walk(expr) if isinstance(x, ast.Call) and is_name(x.func, who)]
                verdict(cx, "C19.table", inst, OPS[key], expr, node,
                        "; recursive call %s is not of the form %s(%s.dep(k), %s)" % (left[0], who, E, S) if left else "")


def const_branch(cx, inst, items, E, node):
    """OP_CONST: int(expr) may only be returned under a test establishing float(expr) == int(expr)."""
    rule = "C19.leaf"
    strip = lambda v: strip(v.args[0]) if isinstance(v, ast.Call) and len(v.args) == 1 and D(v.func) in (
        P("sympy.Integer"), P("sympy.Float"), P("sympy.sympify"), P("sympy.S"), P("sympy.Number")) else v
    FL, IN = P("float(%s)" % E), P("int(%s)" % E)
    eq = ["float({e}) - int({e}) == 0", "int({e}) - float({e}) == 0", "float({e}) == int({e})", "int({e}) == float({e})",
          "float({e}).is_integer()", "{e}.is_integer()"]
    ne = ["float({e}) - int({e}) != 0", "float({e}) != int({e})", "int({e}) != float({e})", "not float({e}).is_integer()"]
    one, two = single_return(items), if_two_returns(items)
    if one is not None:
        d = D(strip(one))
        if d == FL:
            return cx.rep.ok(rule, inst, fact={"returns": U(one)})
        if d == IN:
            return cx.rep.fail(rule, inst, "constant is narrowed with int(): SX(2.5) becomes 2", where=cx.at(node))
    elif two is not None:
        c0 = two[0]
        if isinstance(c0, ast.Compare) and len(c0.ops) == 1 and isinstance(c0.ops[0], (ast.Lt, ast.LtE)) and D(c0.left) == P("float({e}) - int({e})".format(e=E)) \
                and isinstance(c0.comparators[0], ast.Constant) and isinstance(c0.comparators[0].value, (int, float)) and c0.comparators[0].value > 0 \
                and D(strip(two[1])) == IN:
            return cx.rep.fail(rule, inst, "one-sided tolerance `%s`: int() truncates toward zero, so for every negative non-integer the difference is negative and the integer is returned: -2.5 becomes -2" % U(c0),
                               where=cx.at(node))
        if isinstance(c0, ast.Compare) and len(c0.ops) == 1 and isinstance(c0.ops[0], (ast.Lt, ast.LtE)) and isinstance(c0.left, ast.Call) and U(c0.left.func) in ("abs", "math.fabs", "np.abs", "numpy.abs", "sympy.Abs", "fabs") \
                and len(c0.left.args) == 1 and D(c0.left.args[0]) in (P("float({e}) - int({e})".format(e=E)), P("int({e}) - float({e})".format(e=E))) \
                and isinstance(c0.comparators[0], ast.Constant) and isinstance(c0.comparators[0].value, (int, float)) and c0.comparators[0].value > 0 and D(strip(two[1])) == IN:
            return cx.rep.fail(rule, inst, "tolerance test `%s`: every constant within the tolerance of its truncation is replaced by the integer, so a regularisation constant such as 1e-12 becomes 0 "
                               "(sqrt(x*x + 1e-12) turns into sqrt(x**2)): the value is not preserved" % U(c0), where=cx.at(node))
        if isinstance(c0, ast.Call) and U(c0.func) in ("math.isclose", "isclose", "np.isclose", "numpy.isclose") and len(c0.args) == 2 \
                and {D(c0.args[0]), D(c0.args[1])} == {FL, IN}:
            kw = {k.arg: k.value for k in c0.keywords}
            zero = lambda v: isinstance(v, ast.Constant) and isinstance(v.value, (int, float)) and v.value == 0
            exact = "rel_tol" in kw and zero(kw["rel_tol"]) and ("abs_tol" not in kw or zero(kw["abs_tol"])) if "math" in U(c0.func) or U(c0.func) == "isclose" \
                else "rtol" in kw and zero(kw["rtol"]) and "atol" in kw and zero(kw["atol"])
            if not exact and D(strip(two[1])) == IN:
                return cx.rep.fail(rule, inst, "tolerance test `%s` (relative tolerance 1e-9 unless both tolerances are given as 0): a non-integer constant within the tolerance of its truncation is replaced by the "
                                   "integer - 4000000000.5 becomes 4000000000: the value is not preserved" % U(c0), where=cx.at(node))
            if exact and D(strip(two[1])) in (IN, FL) and D(strip(two[2])) == FL:
                return cx.rep.ok(rule, inst, fact={"int_only_if": U(c0)})
        t, a, b = D(two[0]), D(strip(two[1])), D(strip(two[2]))
        if t in [P(x.format(e=E)) for x in ne]:
            t, a, b = "eq", b, a
        elif t in [P(x.format(e=E)) for x in eq]:
            t = "eq"
        if t == "eq" and a in (IN, FL) and b == FL:
            return cx.rep.ok(rule, inst, fact={"int_only_if": U(two[0])})
        if t == "eq" and b == IN:
            return cx.rep.fail(rule, inst, "returns int(%s) for a constant that is not an integer: 2.5 becomes 2" % E, where=cx.at(node))
    cx.rep.incomplete(rule, inst, "constant branch of unrecognised form", where=cx.at(node))


# ------------------------------------------------------------------ sympy -> CasADi
def last(n):
    return n.attr if isinstance(n, ast.Attribute) else n.id if isinstance(n, ast.Name) else None


def fold_branch(cx, inst, body, F, recs, want, neutral, node):
    """acc = neutral; for a in F.args: acc <op>= prs(a); return acc."""
    rule, sym = "C19.fold", {ast.Add: "+", ast.Mult: "*"}
    is_rec = lambda c, v: isinstance(c, ast.Call) and isinstance(c.func, ast.Name) and c.func.id in recs and len(c.args) == 1 and is_name(c.args[0], v)
    if len(body) == 1 and isinstance(body[0], ast.Return) and want is ast.Add:
        v = body[0].value
        if isinstance(v, ast.Call) and is_name(v.func, "sum") and len(v.args) == 1 and isinstance(v.args[0], (ast.GeneratorExp, ast.ListComp)):
            g = v.args[0]
            if len(g.generators) == 1 and not g.generators[0].ifs and D(g.generators[0].iter) == P("%s.args" % F) \
                    and isinstance(g.generators[0].target, ast.Name) and is_rec(g.elt, g.generators[0].target.id):
                return cx.rep.ok(rule, inst, fact={"fold": "sum over all args"})
    if len(body) == 3 and isinstance(body[0], ast.Assign) and isinstance(body[1], ast.For) and isinstance(body[2], ast.Return) \
            and len(body[0].targets) == 1 and isinstance(body[0].targets[0], ast.Name) and is_name(body[2].value, body[0].targets[0].id) \
            and isinstance(body[1].target, ast.Name) and len(body[1].body) == 1 and not body[1].orelse:
        acc, v, st = body[0].targets[0].id, body[1].target.id, body[1].body[0]
        op = None
        if isinstance(st, ast.AugAssign) and is_name(st.target, acc) and is_rec(st.value, v):
            op = type(st.op)
        elif isinstance(st, ast.Assign) and len(st.targets) == 1 and is_name(st.targets[0], acc) and isinstance(st.value, ast.BinOp) and (
                (is_name(st.value.left, acc) and is_rec(st.value.right, v)) or (is_name(st.value.right, acc) and is_rec(st.value.left, v))):
            op = type(st.value.op)
        init = body[0].value
        if op in sym and isinstance(init, ast.Constant) and isinstance(init.value, (int, float)) and D(body[1].iter) == P("%s.args" % F):
            if op is not want:
                return cx.rep.fail(rule, inst, "arguments are combined with '%s' instead of '%s'" % (sym[op], sym[want]), where=cx.at(st))
            if init.value != neutral:
                return cx.rep.fail(rule, inst, "accumulator starts from %r, the neutral element of '%s' is %d: e.g. x%sy becomes %s" % (
                    init.value, sym[want], neutral, sym[want], "0" if want is ast.Mult else "x + y + %r" % init.value), where=cx.at(body[0]))
            return cx.rep.ok(rule, inst, fact={"fold": "%s over all args from %d" % (sym[want], neutral)})
        if op in sym and D(body[1].iter) != P("%s.args" % F) and isinstance(init, ast.Constant):
            return cx.rep.fail(rule, inst, "the fold runs over %s, not over all of %s.args: operands are dropped" % (U(body[1].iter), F), where=cx.at(body[1]))
    cx.rep.incomplete(rule, inst, "fold of unrecognised form", where=cx.at(node))


def pow_branch(cx, inst, items, node):
    rule = "C19.leaf"
    plain = row("base ** exponent, order matters", "_0 ** _1", "ca.power(_0, _1)", "ca.pow(_0, _1)",
                wrong={"_1 ** _0": "base and exponent swapped: 2**3 becomes 9"}, multi=True)
    root = row("exponent 1/2 is the square root of the BASE", "ca.sqrt(_0)", "_0 ** 0.5",
               wrong={"ca.sqrt(_1)": "square root of the exponent", "_0 ** 2": "square instead of root"}, multi=True)
    # integer powers expanded into a product loop: res = B; for _ in range(E): res = res * B  computes B ** (E + 1)
    for lp in [x for x in ast.walk(node) if isinstance(x, ast.For)]:
        if not (isinstance(lp.iter, ast.Call) and is_name(lp.iter.func, "range") and len(lp.iter.args) == 1 and len(lp.body) == 1):
            continue
        st = lp.body[0]
        acc = st.target.id if isinstance(st, ast.AugAssign) and isinstance(st.op, ast.Mult) and isinstance(st.target, ast.Name) else \
            st.targets[0].id if isinstance(st, ast.Assign) and len(st.targets) == 1 and isinstance(st.targets[0], ast.Name) and isinstance(st.value, ast.BinOp) and isinstance(st.value.op, ast.Mult) else None
        if acc is None:
            continue
        factor = st.value if isinstance(st, ast.AugAssign) else (st.value.right if is_name(st.value.left, acc) else st.value.left)
        par = getattr(lp, "_parent", None)
        sibs = getattr(par, "body", []) if lp in getattr(par, "body", []) else getattr(par, "orelse", [])
        init = next((x for x in sibs if isinstance(x, ast.Assign) and len(x.targets) == 1 and is_name(x.targets[0], acc) and x.lineno < lp.lineno), None)
        if init is None:
            continue
        start = 1 if U(init.value) == U(factor) else 0 if (isinstance(init.value, ast.Constant) and init.value.value == 1) else None
        cnt = U(lp.iter.args[0]).replace(" ", "")
        full = cnt in ("int(power)", "power", "int(F.args[1])", "int(F.exp)", "n", "int(n)")
        minus1 = cnt.endswith("-1") and cnt[:-2].strip("()") in ("int(power)", "power", "int(F.args[1])", "int(F.exp)", "n", "int(n)")
        if start is None or not (full or minus1):
            continue
        total = start + (0 if full else -1)          # exponent emitted = n + total
        if total != 0:
            return cx.rep.fail(rule, inst, "the product loop `%s` starting from `%s` multiplies %s times: x**n is emitted as x**(n%+d), e.g. the x**2 term of every Taylor polynomial becomes x**%d"
                               % (U(lp).split("\n")[0], U(init), "n" if full else "n - 1", total, 2 + total), where=cx.at(lp))
    one, two = single_return(items), if_two_returns(items)
    if one is not None:
        return verdict(cx, rule, inst, plain, one, node)
    if two is not None:
        t, a, b = two
        subj = [x for x in ast.walk(t) if D(x) in (P("F.args[1]"), P("F.args[0]"), P("F.exp"), P("F.base"))] if not isinstance(t, ast.BoolOp) else []
        half = any(last(x) == "Half" for x in ast.walk(t)) or any(D(x) in (P("sympy.Rational(1, 2)"), P("0.5")) for x in ast.walk(t))
        eqlike = (isinstance(t, ast.Compare) and len(t.ops) == 1 and isinstance(t.ops[0], (ast.Eq, ast.Is))) or (
            isinstance(t, ast.Call) and is_name(t.func, "isinstance"))
        if half and eqlike and len(subj) == 1:
            if D(subj[0]) in (P("F.args[0]"), P("F.base")):
                return cx.rep.fail(rule, inst, "the square-root case tests the BASE for 1/2 (%s), not the exponent" % U(t), where=cx.at(node))
            verdict(cx, rule, inst + " (exponent 1/2)", root, a, node)
            return verdict(cx, rule, inst, plain, b, node)
    cx.rep.incomplete(rule, inst, "power branch of unrecognised form", where=cx.at(node))


def fmap_branch(cx, inst, body, test, FD, keyvars, canon, node):
    """The entry that is called must be the one whose key matched."""
    rule, rep = "C19.fmap", cx.rep
    matched = D(canon.visit(clone(test.left)))
    c = lambda n: canon.visit(clone(n))
    entry = lambda v: c(v.func.slice) if isinstance(v, ast.Call) and isinstance(v.func, ast.Subscript) and is_name(v.func.value, FD) else None
    if len(body) == 1 and isinstance(body[0], ast.Return) and entry(body[0].value) is not None:
        k = entry(body[0].value)
        if D(k) == matched:
            return rep.ok(rule, inst, fact={"calls": "%s[%s]" % (FD, U(k))})
        return rep.fail(rule, inst, "calls %s[%s] although the test matched %s" % (FD, U(k), U(test.left)), where=cx.at(body[0]))
    if len(body) >= 1 and isinstance(body[0], ast.For) and isinstance(body[0].target, ast.Name):
        lp, v = body[0], body[0].target.id
        it = c(lp.iter)
        over_keys = (isinstance(it, ast.Name) and it.id in keyvars | {FD}) or D(it) in (P("%s.keys()" % FD), P("list(%s.keys())" % FD), P("list(%s)" % FD))
        over_idx = any(D(it) == P("range(len(%s))" % k) for k in keyvars)
        loopkeys = {P(v)} if over_keys else {P("%s[%s]" % (k, v)) for k in keyvars} if over_idx else set()
        first = lp.body[0]
        if isinstance(first, ast.Return):
            return rep.fail(rule, inst, "the loop '%s' returns unconditionally in its first iteration (%s): whatever key matched, the FIRST entry of "
                            "%s is called - with {'g': G, 'h': H}, h(x) is converted to G(x)" % (U(lp).splitlines()[0], U(first), FD), where=cx.at(first))
        if loopkeys and isinstance(first, ast.If) and len(lp.body) == 1 and not first.orelse and isinstance(first.test, ast.Compare) \
                and len(first.test.ops) == 1 and isinstance(first.test.ops[0], ast.Eq) and len(first.body) == 1 and isinstance(first.body[0], ast.Return):
            sides = {D(c(first.test.left)), D(c(first.test.comparators[0]))}
            k = entry(first.body[0].value)
            if matched in sides and (sides - {matched}) <= loopkeys and len(sides) == 2 and k is not None and D(k) in sides:
                return rep.ok(rule, inst, fact={"calls": "entry whose key equals the matched name"})
    rep.incomplete(rule, inst, "function-map branch of unrecognised form", where=cx.at(node))


def forwards(cx, inst, call, params, want, node):
    """call is a call of _sympy_parser; want: parameter -> name that must be passed."""
    if not (isinstance(call, ast.Call) and is_name(call.func, "_sympy_parser")):
        return cx.rep.incomplete("C19.plumb", inst, "not a call of _sympy_parser", where=cx.at(node))
    b = bind(call, params)
    for p, nm in want.items():
        got = b.get(p)
        cx.rep.check("C19.plumb", "%s forwards %s" % (inst, p), got is not None and is_name(got, nm),
                     "%s is %s in the recursive call (must be the caller's own '%s' object): %s" % (
                         p, "not passed, so it restarts from its default" if got is None else "passed as " + U(got), nm,
                         "symbols created below this level are lost / duplicated" if p == "symbols" else "sub-expressions are converted with a different setting"),
                     where=cx.at(node))


def rebinds_guarded(cx, fn, names):
    """A table parameter may be rebound only under 'if <name> is None'."""
    for s in ast.walk(fn):
        if isinstance(s, ast.Assign):
            for t in s.targets:
                if isinstance(t, ast.Name) and t.id in names:
                    par = getattr(s, "_parent", None)
                    ok = isinstance(par, ast.If) and s in par.body and D(par.test) == P("%s is None" % t.id)
                    cx.rep.check("C19.plumb", "%s rebinding of %s" % (fn.name, t.id), ok,
                                 "%s is replaced by a new object outside an 'if %s is None' guard: the caller's table is ignored" % (t.id, t.id), where=cx.at(s))


def sympy_side(cx):
    rep, fn = cx.rep, cx.w.fe.find_def(REL, "_sympy_parser")
    who, params = fn.name, [a.arg for a in fn.args.args]
    FD, SY = "f_dict", "symbols"
    if len(params) < 3 or FD not in params or SY not in params:
        return rep.incomplete("C19.plumb", who, "expected parameters (f, f_dict, symbols, ...)", where=cx.at(fn))
    F = params[0]
    assigned = {t.id: s.value for s in fn.body if isinstance(s, ast.Assign) for t in s.targets if isinstance(t, ast.Name)}
    tvars = {n for n, v in assigned.items() if D(v) == P("type(%s)" % F)}
    keyvars = {n for n, v in assigned.items() if D(v) in (P("list(%s.keys())" % FD), P("%s.keys()" % FD), P("list(%s)" % FD))}

    # recursive helper(s) and the public wrapper
    recs = set()
    for n, v in assigned.items():
        if isinstance(v, ast.Lambda) and len(v.args.args) == 1:
            recs.add(n)
            forwards(cx, "%s.%s" % (who, n), v.body, params, {F: v.args.args[0].arg, FD: FD, SY: SY}, v)
    for h in (s for s in fn.body if isinstance(s, ast.FunctionDef) and len(s.args.args) == 1):
        if len(h.body) == 1 and isinstance(h.body[0], ast.Return):
            recs.add(h.name)
            forwards(cx, "%s.%s" % (who, h.name), h.body[0].value, params, {F: h.args.args[0].arg, FD: FD, SY: SY}, h)
    if not recs:
        rep.incomplete("C19.plumb", "%s recursion helper" % who, "no one-argument recursive helper found", where=cx.at(fn))
    rebinds_guarded(cx, fn, {FD, SY})
    pub = cx.w.fe.find_def(REL, "sympy_to_casadi")
    rets = [s for s in ast.walk(pub) if isinstance(s, ast.Return)]
    if len(rets) == 1 and isinstance(rets[0].value, ast.Tuple) and len(rets[0].value.elts) == 2 and isinstance(rets[0].value.elts[1], ast.Name):
        pp = [a.arg for a in pub.args.args]
        want = {F: pp[0], SY: rets[0].value.elts[1].id}
        if FD in pp:
            want[FD] = FD
        forwards(cx, pub.name, rets[0].value.elts[0], params, want, rets[0])
        rep.check("C19.plumb", "%s returns its symbols" % pub.name, rets[0].value.elts[1].id == SY and SY in pp,
                  "the second element of the result is not the 'symbols' parameter", where=cx.at(rets[0]))
        rebinds_guarded(cx, pub, {FD, SY})
    else:
        rep.incomplete("C19.plumb", pub.name, "expected a single 'return (converted, symbols)'", where=cx.at(pub))

    env0 = {F: ast.Name("F", ast.Load())}
    env0.update({t: ast.Name("T", ast.Load()) for t in tvars})

    def rec_hook2(n):
        if isinstance(n, ast.Call) and isinstance(n.func, ast.Name) and n.func.id in recs and len(n.args) == 1 and not n.keywords:
            for k in (0, 1):
                if D(n.args[0]) == P("F.args[%d]" % k):
                    return name(k)
            return ast.Call(ast.Name("prs", ast.Load()), n.args, [])
        return None

    def fresh():
        return Canon(dict(env0), cx.aliases, [rec_hook2])

    def key_of(test):
        is_t = lambda n: (isinstance(n, ast.Name) and n.id in tvars) or D(n) == P("type(%s)" % F)
        is_str_t = lambda n: isinstance(n, ast.Call) and is_name(n.func, "str") and len(n.args) == 1 and is_t(n.args[0])
        if isinstance(test, ast.Compare) and len(test.ops) == 1:
            l, op, r = test.left, test.ops[0], test.comparators[0]
            if isinstance(op, (ast.Eq, ast.Is)):
                for a, b in ((l, r), (r, l)):
                    if is_t(a) and last(b):
                        return last(b)
                    if is_str_t(a) and isinstance(b, ast.Constant) and isinstance(b.value, str):
                        return b.value
            if isinstance(op, ast.In) and is_str_t(l) and ((isinstance(r, ast.Name) and r.id in keyvars | {FD}) or D(r) == P("%s.keys()" % FD)):
                return "<function map>"
        if isinstance(test, ast.Call) and is_name(test.func, "isinstance") and len(test.args) == 2 and is_name(test.args[0], F) and last(test.args[1]):
            return last(test.args[1])
        return None

    branches, final = chain_of(fn, key_of)
    if not branches:
        return rep.incomplete("C19.dispatch", who, "no dispatch chain on the type of %s found" % F, where=cx.at(fn))
    for key, (test, body, node) in dispatch(cx, who, branches, final, fn).items():
        inst = "%s %s" % (who, key)
        items = inline(body, fresh())
        expr = single_return(items)
        if raised_error(body) is not None:
            rep.ok("C19.refuse", inst, fact={"raises": raised_error(body)})
        elif key == "<function map>":
            fmap_branch(cx, inst, body, test, FD, keyvars, fresh(), node)
        elif key in ("Add", "Mul"):
            fold_branch(cx, inst, body, F, recs, ast.Add if key == "Add" else ast.Mult, 0 if key == "Add" else 1, node)
        elif key == "Pow":
            pow_branch(cx, inst, items, node)
        elif key in ("Symbol", "Dummy"):
            symtab(cx, inst, body, SY, {P("str(%s)" % F), P("%s.name" % F)}, node)
        elif "Matrix" in key:
            R, C = "F.shape[0]", "F.shape[1]"
            forms = lambda x, y: (["prs(F[%s, %s])" % (x, y)], {"prs(F[%s, %s])" % (y, x): "element (j, i) is stored at (i, j): the matrix is transposed"})
            bases = ["ca.SX(%s, %s)" % (R, C), "ca.SX.zeros(%s, %s)" % (R, C), "ca.SX(*F.shape)", "ca.SX.zeros(*F.shape)"]
            matrix_fill(cx, inst, body, fresh(), bases, R, C, forms, node)
        elif expr is None:
            rep.incomplete("C19.leaf", inst, "branch is not a single return/raise", where=cx.at(node))
        elif key in LEAVES:
            verdict(cx, "C19.leaf", inst, LEAVES[key], expr, node)
        elif key in CONSTS:
            const_leaf(cx, inst, expr, CONSTS[key], node)
        elif key in FUNCS or key in FUNCS2:
            heads, ar = (FUNCS[key], 1) if key in FUNCS else (FUNCS2[key], 2)
            args = ", ".join("_%d" % k for k in range(ar))
            if D(expr) in [P("ca.%s(%s)" % (h, args)) for h in heads]:
                rep.ok("C19.func", inst, fact={"returns": U(expr)})
            elif isinstance(expr, ast.Call) and isinstance(expr.func, ast.Attribute) and is_name(expr.func.value, "ca"):
                rep.fail("C19.func", inst, "sympy '%s' is converted to %s; the same function is %s" % (
                    key, U(expr), " | ".join("ca.%s(%s)" % (h, args) for h in heads)), where=cx.at(node))
            else:
                rep.incomplete("C19.func", inst, "returns %s, not a CasADi function applied to the converted argument(s)" % U(expr), where=cx.at(node))
        else:
            rep.incomplete("C19.leaf", inst, "type is converted but the table has no row for it", where=cx.at(node))


def const_leaf(cx, inst, expr, want, node):
    """Singleton constants (One, Zero, NegativeOne, Half): fold the literal; float(F) is always right."""
    def fold(n):
        if isinstance(n, ast.Constant) and isinstance(n.value, (int, float)) and not isinstance(n.value, bool):
            return n.value
        if isinstance(n, ast.UnaryOp) and isinstance(n.op, ast.USub) and fold(n.operand) is not None:
            return -fold(n.operand)
        if isinstance(n, ast.BinOp) and isinstance(n.op, ast.Div) and fold(n.left) is not None and fold(n.right):
            return fold(n.left) / fold(n.right)
        return None
    v = fold(expr)
    if v is not None:
        cx.rep.check("C19.leaf", inst, v == want, "the constant %r is converted to %r" % (want, v), where=cx.at(node), fact={"value": v})
    elif D(expr) == P("float(F)") or (D(expr) == P("int(F)") and want == int(want)):
        cx.rep.ok("C19.leaf", inst, fact={"returns": U(expr)})
    elif D(expr) == P("int(F)"):
        cx.rep.fail("C19.leaf", inst, "int() truncates %r to %d" % (want, int(want)), where=cx.at(node))
    else:
        cx.rep.incomplete("C19.leaf", inst, "returns %s, not a literal" % U(expr), where=cx.at(node))


def cse_order(cx_w, rep):
    """cse=True path: sympy.cse returns definitions in dependency order (a later one may use an earlier one); the
    converted expression must therefore be substituted last-definition-first.  The effective order is the direction
    of the loop that builds the substitution map composed with the direction of the loop that applies it."""
    import ast as _ast
    fn = cx_w.fe.find_def(REL, "_sympy_parser")
    branch = None
    for st in fn.body:
        if isinstance(st, _ast.If) and isinstance(st.test, _ast.Name) and st.test.id == "cse":
            branch = st
    R = "C19.cse"
    if branch is None:
        rep.na(R, "_sympy_parser cse path", "no `if cse:` branch")
        return
    loops = [n for n in branch.body if isinstance(n, _ast.For)]

    def direction(it):
        if isinstance(it, _ast.Call) and isinstance(it.func, _ast.Name) and it.func.id == "reversed":
            return True, it.args[0] if it.args else None
        return False, it
    build = apply_ = None
    for lp in loops:
        rev, base = direction(lp.iter)
        body_src = " ".join(_ast.unparse(x) for x in lp.body)
        if "substitute" in body_src:
            apply_ = (rev, base, lp)
        elif "prs(" in body_src and ("[" in body_src):
            build = (rev, base, lp)
    if build is not None and apply_ is None:
        # one ca.substitute call with LISTS of keys and values replaces them simultaneously: correct only when every stored
        # definition has already been resolved against the earlier ones
        single = [n for st in branch.body if not isinstance(st, _ast.For) for n in _ast.walk(st)
                  if isinstance(n, _ast.Call) and isinstance(n.func, _ast.Attribute) and n.func.attr == "substitute" and len(n.args) == 3]
        stores = [n for n in _ast.walk(build[2]) if isinstance(n, _ast.Assign) and isinstance(n.targets[0], _ast.Subscript)]
        if len(single) == 1 and len(stores) == 1 and isinstance(stores[0].targets[0].value, _ast.Name):
            mp = stores[0].targets[0].value.id
            k_src, v_src = _ast.unparse(single[0].args[1]), _ast.unparse(single[0].args[2])
            whole_map = (mp + ".keys()" in k_src or "list(%s)" % mp == k_src) and mp + ".values()" in v_src
            raw = isinstance(stores[0].value, _ast.Call) and isinstance(stores[0].value.func, _ast.Name) and stores[0].value.func.id == "prs" and "substitute" not in _ast.unparse(build[2])
            if whole_map and raw:
                rep.fail(R, "_sympy_parser cse path: definitions are substituted last-first",
                         "`%s` substitutes all sympy.cse temporaries simultaneously with their unresolved definitions: a definition that uses an earlier temporary (x1 = f(x0)) brings x0 back "
                         "and it stays in the result as a free symbol" % _ast.unparse(single[0])[:120], where=(REL, single[0].lineno))
                build = None        # decided; skip the order rule below
                apply_ = "decided"
    def order_rule():
        if build is None or apply_ is None:
            rep.incomplete(R, "_sympy_parser cse path: substitution order", "cannot find the loop that builds the substitution map and the loop that applies ca.substitute", where=(REL, branch.lineno))
            return
        base_ok = isinstance(build[1], _ast.Name) and build[1].id == "cse_defs"
        app_base = apply_[1]
        over_map = isinstance(app_base, _ast.Call) and isinstance(app_base.func, _ast.Attribute) and app_base.func.attr == "items"
        if not base_ok or not over_map:
            rep.incomplete(R, "_sympy_parser cse path: substitution order", "unrecognised iteration (%s / %s)" % (_ast.unparse(build[2].iter), _ast.unparse(apply_[2].iter)), where=(REL, build[2].lineno))
            return
        net_reversed = build[0] != apply_[0]
        rep.check(R, "_sympy_parser cse path: definitions are substituted last-first", net_reversed,
                  "sympy.cse temporaries are substituted first-definition-first: a temporary that is used by a later temporary is re-introduced after it was eliminated and stays in the result as a free symbol",
                  where=(REL, build[2].lineno), fact={"build": _ast.unparse(build[2].iter), "apply": _ast.unparse(apply_[2].iter)})
    if apply_ != "decided":
        order_rule()

    # ---- clean-up of the caller's table: only names introduced by the cse pass may be removed
    snap_names = set()
    for st in branch.body:
        for n in _ast.walk(st):
            if isinstance(n, _ast.Assign) and len(n.targets) == 1 and isinstance(n.targets[0], _ast.Name):
                v = n.value
                src = _ast.unparse(v)
                if src in ("set(symbols)", "set(symbols.keys())", "list(symbols)", "list(symbols.keys())", "tuple(symbols)", "dict(symbols)", "symbols.copy()", "frozenset(symbols)", "symbols.keys() | set()"):
                    snap_names.add(n.targets[0].id)
    pops = []
    for n in _ast.walk(branch):
        if isinstance(n, _ast.Call) and isinstance(n.func, _ast.Attribute) and n.func.attr == "pop" and _ast.unparse(n.func.value) == "symbols":
            pops.append(n)
        elif isinstance(n, _ast.Delete) and any(_ast.unparse(t).startswith("symbols[") for t in n.targets):
            pops.append(n)
    inst = "_sympy_parser cse path: only names introduced by sympy.cse are removed from the caller's symbol table"
    if not pops:
        rep.na(R, inst, "nothing is removed from the table")
    else:
        bad = []
        for pnode in pops:
            guarded_ = False
            x = getattr(pnode, "_parent", None)
            while x is not None and x is not branch:
                if isinstance(x, _ast.If):
                    for c in _ast.walk(x.test):
                        if isinstance(c, _ast.Compare) and len(c.ops) == 1 and isinstance(c.ops[0], _ast.NotIn) and isinstance(c.comparators[0], _ast.Name) and c.comparators[0].id in snap_names:
                            guarded_ = True
                x = getattr(x, "_parent", None)
            if not guarded_:
                bad.append(pnode)
        rep.check(R, inst, not bad, "`%s` removes a name without checking that it was absent from the table on entry: a caller's own symbol called like a cse temporary (x0, x1, ...) is evicted, and the "
                  "next conversion with the same table creates a second variable of that name" % (_ast.unparse(bad[0]) if bad else ""), where=(REL, bad[0].lineno if bad else branch.lineno))


# ------------------------------------------------------------------ entry point
def run(w, rep, tier):
    rep.rule("C19.dispatch", "each dispatch chain tests every opcode/type at most once and ends in an else that raises")
    rep.rule("C19.table", "casadi_to_sympy: the construct returned for an opcode is an accepted head of the semantic table (operand order included)")
    rep.rule("C19.refuse", "a branch that only raises is an explicit refusal, which the property allows")
    rep.rule("C19.leaf", "numeric leaves, rationals and powers are converted without narrowing and with operands in order")
    rep.rule("C19.func", "a sympy function name is converted to the CasADi function of the same meaning")
    rep.rule("C19.fold", "Add/Mul fold all arguments starting from the neutral element")
    rep.rule("C19.fmap", "the user function map entry that is called is the one whose key matched")
    rep.rule("C19.symtab", "symbol tables are lookup-before-create and return the stored object")
    rep.rule("C19.matrix", "matrix branches copy element (i, j) to (i, j) (column-major linear index on the CasADi side)")
    rep.rule("C19.plumb", "recursion forwards the operands in order and the caller's own tables")
    rep.rule("C19.cse", "cse=True path: the sympy.cse temporaries are eliminated in reverse definition order")
    from .c19_value import check_sympy_value
    value_ok = check_sympy_value(w, rep)

    class IdiomReport:
        """The sympy-side idiom rules report through this: where the value rule has decided every construct of the converter,
        an idiom they do not recognise is not a gap in the verdict (n/a with that reason); their violations stand."""

        def __getattr__(self, k):
            return getattr(rep, k)

        def incomplete(self, rule, inst, msg, where=None, **kw):
            if value_ok:
                return rep.na(rule, inst, "spelling not recognised by the idiom rule (%s); the construct is decided on its value by C19.value" % msg)
            return rep.incomplete(rule, inst, msg, where=where, **kw)

        def fail(self, rule, inst, msg, where=None, **kw):
            # a built-in function reached through a helper the idiom rule cannot see through: the value rule has compared
            # the converted value with the meaning of the tree
            if value_ok and ("the same function is" in msg or "accepts only" in msg):
                return rep.na(rule, inst, "spelling not recognised by the idiom rule (%s); decided on its value by C19.value" % msg[:120])
            return rep.fail(rule, inst, msg, where=where, **kw)
    from .c19_value import check_casadi_value
    cvalue_ok = check_casadi_value(w, rep, OPS, verdict, Ctx(w, rep))

    class CasadiIdiomReport(IdiomReport):
        def incomplete(self, rule, inst, msg, where=None, **kw):
            if cvalue_ok:
                return rep.na(rule, inst, "spelling not recognised by the idiom rule (%s); the construct is decided on its value by C19.value" % msg)
            return rep.incomplete(rule, inst, msg, where=where, **kw)

        def fail(self, rule, inst, msg, where=None, **kw):
            # "returns X; the row accepts only ..." is the idiom rule not recognising how the operands reach the construct;
            # the value rule has looked the constructed expression itself up in the same table
            if cvalue_ok and "accepts only" in msg:
                return rep.na(rule, inst, "spelling not recognised by the idiom rule (%s); decided on its value by C19.value" % msg[:120])
            return rep.fail(rule, inst, msg, where=where, **kw)
    casadi_side(Ctx(w, CasadiIdiomReport()))
    sympy_side(Ctx(w, IdiomReport()))
    cse_order(w, IdiomReport())
    # vacuity guard: the value rules carry their own floor; where they have decided every construct, the idiom rules may see
    # fewer instances than on the tree they were written for (spellings they do not read) without the verdict being empty
    relaxed = value_ok and cvalue_ok
    # (C19.table is the idiom form of what C19.value decides for the CasADi side: when the plumbing is not recognised and the
    # value rule has decided every opcode, its count may fall to zero)
    rep.floor("C19.table", 34 if not (cvalue_ok and relaxed) else 0)
    # instance counts confirmed by hand; when the sympy side is spelled in a way the idiom rules do not read (and C19.value
    # decides it) only the CasADi side contributes
    rep.floor("C19.dispatch", 110 if not relaxed else 90)
    rep.floor("C19.leaf", 8 if not relaxed else 1)
    rep.floor("C19.func", 4 if not relaxed else 0)
    rep.floor("C19.fold", 2 if not relaxed else 0)
    rep.floor("C19.symtab", 2 if not relaxed else 1)
    rep.floor("C19.matrix", 2 if not relaxed else 1)
    rep.floor("C19.plumb", 8)
    rep.floor("C19.fmap", 1 if not relaxed else 0)
    rep.undecided_clause("value preservation for arbitrary expression trees (round trip through both libraries): needs running sympy and CasADi")
    rep.undecided_clause("the cse=True path of _sympy_parser beyond the substitution order (removal of the temporaries from the symbol table)")
    rep.undecided_clause("agreement at NaN/inf, at branch cuts of pow/log/inverse trigonometric functions, and float vs exact arithmetic of constants")
    rep.undecided_clause("arity of user-supplied function-map entries (only the first argument is forwarded)")
