"""C03 - log inverts exp and is principal (DESIGN 4, C03)."""
import ast

from .common import *
from .liecommon import *
from ..poly import Poly, all_atoms, deep_subs, Atom


def sign_of(p, atom, s):
    """Sign of polynomial p under the assumption sign(atom) = s (s = +1/-1), or None."""
    cv = p.const_value()
    if cv is not None:
        return (cv > 0) - (cv < 0)
    if len(p.t) == 1:
        (m, c), = p.t.items()
        sg = (c > 0) - (c < 0)
        for a, e in m:
            if a is atom:
                sg *= (s if e % 2 else 1)
            elif a.kind in ("sqrt", "fabs"):
                continue            # positive wherever the expression is defined
            else:
                return None
        return sg
    return None


def assume_sign(M, atom, s):
    """Resolve comparison atoms lt/le whose difference has a determined sign when sign(atom) = s."""
    def f(a):
        if a.kind in ("lt", "le") and isinstance(a.key[0], Poly):
            d = a.key[1] - a.key[0]      # lt(x, y): y - x > 0
            sg = sign_of(d, atom, s)
            if sg is not None and sg != 0:
                return Poly.const(1 if sg > 0 else 0)
        if a.kind in ("fabs", "sign") and isinstance(a.key[0], Poly):
            sg = sign_of(a.key[0], atom, s)
            if sg is not None and sg != 0:
                return a.key[0].scale(sg) if a.kind == "fabs" else Poly.const(sg)
        return None
    return MatVal(M.r, M.c, [[deep_subs(p, f) if p.t else p for p in row] for row in M.cells], M.kind)


def drop_unit_clamps(M):
    """fmin(u, 1) -> u and fmax(u, -1) -> u where u = +-x / sqrt(x^2 + squares): |u| <= 1 for every real input, so the clamp
    never acts (seeded C03-14 wraps the acos argument of the quaternion log in such a clamp)."""
    from .c06 import _bounded_by_construction

    def f(a):
        if a.kind in ("fmin", "fmax") and isinstance(a.key[0], Poly) and isinstance(a.key[1], Poly):
            bound = 1 if a.kind == "fmin" else -1
            for u, b in ((a.key[0], a.key[1]), (a.key[1], a.key[0])):
                if b.const_value() == bound:
                    u2 = deep_subs(u, f)
                    ua = u2.single_atom()
                    if not (ua is not None and ua.kind in ("fmin", "fmax")) and _bounded_by_construction(u2):
                        return u2
        return None
    return MatVal(M.r, M.c, [[deep_subs(p, f) if p.t else p for p in row] for row in M.cells], M.kind)


def is_shadowed(param):
    """param cells are if_else(1 < b.b, -b_i/(b.b), b_i) for one vector b."""
    cells = param.flat()
    ats = [p.single_atom() for p in cells]
    if any(a is None or a.kind != "ite" for a in ats):
        return False, "a cell is not an if_else selection"
    b = [a.key[2] for a in ats]
    n2 = Poly()
    for x in b:
        n2 = n2 + x * x
    for a, bi in zip(ats, b):
        c = a.key[0].single_atom()
        if c is None or c.kind != "lt" or c.key[0].const_value() != 1 or decide(c.key[1], n2) != EQUAL:
            return False, "condition is not |r|^2 > 1 (strict) on the selected vector"
        if decide(a.key[1], cm.pdiv(-bi, n2)) != EQUAL:
            return False, "shadow branch is not -r/|r|^2"
    return True, ""


def unguarded_acos(M):
    """acos(e) must only be reachable through if_else(e > 1, c1, if_else(e < -1, c2, <expr in acos(+-e)>)).
    (acos(-u) is normalised to pi - acos(u) by the model, hence +-e.)  -> list of offending atoms."""
    bad = []
    seen = set()
    EMPTY = frozenset()

    def walk(p, allowed):
        for a in p.atoms():
            visit(a, allowed)

    def visit(a, allowed):
        if (a, allowed) in seen:
            return
        seen.add((a, allowed))
        if a.kind == "acos":
            if a not in allowed:
                bad.append(a)
            walk(a.key[0], EMPTY)
            return
        if a.kind == "ite":
            c, x, y = a.key
            ca_ = c.single_atom()
            inner = y.single_atom()
            if ca_ is not None and ca_.kind == "lt" and ca_.key[0].const_value() == 1 and inner is not None and inner.kind == "ite":
                e = ca_.key[1]
                c2 = inner.key[0].single_atom()
                if c2 is not None and c2.kind == "lt" and c2.key[1].const_value() == -1 and c2.key[0] == e:
                    ok_atoms = frozenset(x for x in (Atom("acos", (e,)), Atom("acos", (-e,))))
                    walk(c, EMPTY)
                    walk(x, EMPTY)
                    walk(inner.key[0], EMPTY)
                    walk(inner.key[1], EMPTY)
                    walk(inner.key[2], ok_atoms)
                    return
        for k in a.key:
            if isinstance(k, Poly):
                walk(k, allowed if a.kind in ("sin", "cos", "recip") else EMPTY)
    for p in M.flat():
        walk(p, EMPTY)
    return bad


def quat_log_principal(w, rep, rule, prefix=""):
    Q = w.G("SO3Quat")
    X, q = w.fresh(Q, "q")
    qa = sym_atoms_of(q)
    W = w.method_where(Q, "log")[:2]
    ok, L = guarded(w, rep, rule, prefix + "SO3Quat.log", lambda: closed(w, w.param(w.call(X, "log"))))
    if not ok:
        return
    nrm = cm.un("sqrt", cm.sumsqr(q).s())

    def textbook(qv):
        c = cm.ew(qv, cm.scalar(nrm), cm.pdiv)
        a = cm.un("acos", c.cells[0][0])
        coef = cm.pdiv(a.scale(2), cm.un("sin", a))
        return cm.ew(w.sl(c, 1, 4), cm.scalar(coef), cm.pmul)
    for s, label, ref in ((1, "q0 > 0", textbook(q)), (-1, "q0 < 0", textbook(cm.neg(q)))):
        got = drop_unit_clamps(assume_sign(L, qa[0], s))
        inst = prefix + "SO3Quat.log is the principal rotation vector 2 acos(|q0|) n for %s" % label
        v, d = decide_mat(got, ref)
        if v == EQUAL:
            rep.ok(rule, inst)
        elif v == DIFFERENT:
            rep.fail(rule, inst, "log(q) is not the smallest-angle rotation vector when %s (log(-q) != log(q): the rotation angle exceeds pi): %s" % (label, d), where=W)
        else:
            rep.incomplete(rule, inst, "cannot decide: %s" % d, where=W)


def roundtrip_cases(w, rep, inst, got, want, where, msg, beyond_pi_rows=None):
    """Round trip decided on every selection of the if_else conditions and every sign of symbols under fabs/sign."""
    bs = branches(got, limit=3)
    if bs is None:
        rep.incomplete("C03.roundtrip", inst, "too many if_else conditions", where=where)
        return
    allok = True
    expanded = []
    for desc, gb in bs:
        mm = minmax_cases(gb)            # a clamp (fmin / fmax) in the round trip is resolved both ways
        if mm is None or len(mm) == 1:
            expanded.append((desc, gb))
        else:
            expanded += [("%s; %s" % (desc, lab) if desc != "-" else lab, g2) for lab, g2 in mm]
    for desc, gb in expanded:
        v, d = decide_by_cases(gb, want)
        if v == EQUAL:
            continue
        allok = False
        label = inst if desc == "-" else "%s [selection %s]" % (inst, desc[:70])
        if v == UNKNOWN and beyond_pi_rows:
            m = beyond_pi_difference(gb, want, beyond_pi_rows)
            if m:
                v, d = DIFFERENT, m
        if v == DIFFERENT:
            rep.fail("C03.roundtrip", label, "%s: %s" % (msg, d), where=where)
        else:
            rep.incomplete("C03.roundtrip", label, "cannot decide: %s" % d, where=where)
    if allok:
        rep.ok("C03.roundtrip", inst, fact={"selections": len(bs)})


def check_logs(w, rep, tier):
    so3 = w.G("so3")
    # ---- API for all groups
    for nm in GROUPS12:
        G = w.G(nm)
        X, xp = w.fresh(G, "X")
        ok, L = guarded(w, rep, "C03.API", "%s.log" % nm, lambda: w.call(X, "log"))
        if ok:
            alg = w.attr(G, "algebra")
            good = isinstance(L, Instance) and L.attrs.get("algebra") is alg and L.attrs["param"].shape == (w.attr(alg, "n_param"), 1)
            rep.check("C03.API", "%s.log returns an element of the group's algebra" % nm, good, "log does not return an element of the algebra", where=w.method_where(G, "log")[:2])

    with with_maxdeg(30):
        # ---- quaternion: principal log, independent of the sign of q (decided on q0 > 0 and q0 < 0 separately)
        quat_log_principal(w, rep, "C03.quat")
        # ---- MRP
        Mr = w.G("SO3Mrp")
        X, r = w.fresh(Mr, "r")
        ok, L = guarded(w, rep, "C03.form", "SO3Mrp.log", lambda: closed(w, w.param(w.call(X, "log"))))
        if ok:
            n = theta_of(r)
            want = cm.ew(r, cm.scalar(cm.pdiv(cm.un("atan", n).scale(4), n)), cm.pmul)
            # the same logarithm obtained through the quaternion sibling is decided by composition: SO3Quat.from_Mrp keeps
            # the rotation (C07.preserve) and SO3Quat.log is the principal rotation vector (C03.quat)
            Qg = w.G("SO3Quat")
            okq, viaq = guarded(w, rep, "C03.form", "SO3Quat.log(SO3Quat.from_Mrp(r))", lambda: closed(w, w.param(w.call(Qg, "log", w.call(Qg, "from_Mrp", X)))))
            if okq and mat_equal(L, viaq) and not mat_equal(L, want):
                rep.ok("C03.form", "SO3Mrp.log = SO3Quat.log(SO3Quat.from_Mrp(r)) (principal rotation vector by composition with C03.quat and C07.preserve)")
            else:
                verdict_by_branches(rep, "C03.form", "SO3Mrp.log = 4 atan(|r|)/|r| r", L, want, (), w.method_where(Mr, "log")[:2], "MRP log is not 4 atan(|r|) n")
        # ---- DCM
        D = w.G("SO3Dcm")
        X, dp = w.fresh(D, "R")
        ok, L = guarded(w, rep, "C03.form", "SO3Dcm.log", lambda: closed(w, w.param(w.call(X, "log"))))
        if ok:
            R = w.call(X, "to_Matrix")
            e1 = cm.pdiv(cm.trace(R).s() - cm.ONE, Poly.const(2))
            th = cm.ite(cm._cmp("lt", cm.ONE, e1), cm.ZERO, cm.ite(cm._cmp("lt", e1, Poly.const(-1)), cm.PI_POLY, cm.un("acos", e1)))
            coef = cm.pdiv(th, cm.un("sin", th)).scale(Fraction(1, 2))
            A = cm.ew(cm.ew(R, cm.transpose(R), cm.psub), cm.scalar(coef), cm.pmul)
            want = cm.vertcat(cm.scalar(A.cells[2][1]), cm.scalar(A.cells[0][2]), cm.scalar(A.cells[1][0]))
            verdict(rep, "C03.form", "SO3Dcm.log = vee((R - R^T) theta/(2 sin theta)), theta = clamped acos((tr R - 1)/2)", L, want, (), w.method_where(D, "log")[:2],
                    "DCM log is not the clamped-acos / antisymmetric-part formula")
            # dependence: the rotations by theta and by pi - theta about a COORDINATE axis have the same off-diagonal entries
            # (+-sin theta and zeros) and differ on the diagonal only (cos theta vs -cos theta), so a log that never reads the diagonal returns the same vector
            # for two different rotations and exp(log(X)) = X fails for one of them (the quadrant of the angle is lost)
            diag = {dp.cells[i][0].single_atom() for i in (0, 4, 8)}
            used = {a for p_ in L.flat() for a in all_atoms(p_) if a.kind == "sym"}
            rep.check("C03.form", "SO3Dcm.log reads the diagonal of R (the trace carries cos theta; the antisymmetric part alone cannot tell theta from pi - theta)", bool(diag & used),
                      "the DCM log does not depend on any diagonal entry of R: rotations by theta and by pi - theta about a coordinate axis (equal off-diagonal entries) get the same logarithm, so angles in (pi/2, pi] are folded onto [0, pi/2)",
                      where=w.method_where(D, "log")[:2], fact={"inputs_read": sorted(repr(a) for a in used)})
            bad = unguarded_acos(L)
            rep.check("C03.guard", "SO3Dcm.log: acos argument is clamped on both sides (e > 1 -> 0, e < -1 -> pi)", not bad,
                      "acos is reachable without the two-sided guard: %s" % (short(Poly.atom(bad[0]), 100) if bad else ""), where=w.method_where(D, "log")[:2])
        # ---- Euler routes through DCM
        E = w.G("SO3EulerB321")
        X, ep = w.fresh(E, "e")
        ok, res = guarded(w, rep, "C03.flow", "SO3EulerB321.log", lambda: capture_calls(w, "log", lambda: w.call(X, "log"), self_is=D))
        if ok:
            val, seen = res
            okd, want = guarded(w, rep, "C03.flow", "SO3Dcm.from_Euler", lambda: w.param(w.call(D, "log", w.call(D, "from_Euler", X))))
            good = bool(seen) and okd and mat_equal(w.param(val), want)
            rep.check("C03.flow", "SO3EulerB321.log = SO3Dcm.log(SO3Dcm.from_Euler(X))", good, "Euler log is not routed through the DCM log of the same rotation", where=w.method_where(E, "log")[:2])
        # ---- SE(2): exp(log(X)) = X in closed form
        G2 = w.G("SE2")
        X, xp = w.fresh(G2, "X")
        ok, back = guarded(w, rep, "C03.roundtrip", "SE2 exp(log(X))", lambda: closed(w, w.param(w.call(G2, "exp", w.call(X, "log")))))
        if ok:
            # the translation rows of X are exact for every heading, also one given beyond pi (the heading row is an angle)
            roundtrip_cases(w, rep, "SE2: exp(log(X)) = X", back, xp, w.method_where(G2, "log")[:2], "SE(2) log does not invert exp", beyond_pi_rows=[0, 1])
        se2 = w.G("se2")
        y = w.sym("y", 3)
        ok, back = guarded(w, rep, "C03.roundtrip", "SE2 log(exp(x))", lambda: closed(w, w.param(w.call(w.call(G2, "exp", w.elem(se2, y)), "log"))))
        if ok:
            roundtrip_cases(w, rep, "SE2: log(exp(x)) = x", back, y, w.method_where(G2, "log")[:2], "SE(2) log does not invert exp")
        for nm in ("SO2", "R2", "R3"):
            G = w.G(nm)
            X, xp = w.fresh(G, "X")
            ok, back = guarded(w, rep, "C03.roundtrip", "%s exp(log(X))" % nm, lambda: w.param(w.call(G, "exp", w.call(X, "log"))))
            if ok:
                verdict(rep, "C03.roundtrip", "%s: exp(log(X)) = X" % nm, back, xp, (), w.method_where(G, "log")[:2], "log does not invert exp")
        # ---- SE(3): (J_l^-1(omega) p, omega), omega = log of the rotation part
        for nm in ("SE3Quat", "SE3Mrp"):
            G = w.G(nm)
            Rf = w.attr(G, "SO3")
            X, xp = w.fresh(G, "X")
            ok, L = guarded(w, rep, "C03.form", "%s.log" % nm, lambda: w.param(w.call(X, "log")))
            if ok:
                om = w.call(w.elem(Rf, w.sl(xp, 3, None)), "log")
                want = cm.vertcat(cm.matmul(w.call(om, "left_jacobian_inv"), w.sl(xp, 0, 3)), w.param(om))
                verdict(rep, "C03.form", "%s.log = (J_l^-1(omega) p, omega), omega = log(R)" % nm, L, want, (), w.method_where(G, "log")[:2],
                        "SE(3) log is not (inverse left Jacobian of the rotation log applied to p, rotation log)")
        # ---- SE_2(3): V^-1 = J_l^-1(omega) applied to p and to v, ordered (p, v, omega)
        for nm in ("SE23Quat", "SE23Mrp"):
            G = w.G(nm)
            Rf = w.attr(G, "SO3")
            X, xp = w.fresh(G, "X")
            ok, L = guarded(w, rep, "C03.form", "%s.log" % nm, lambda: w.param(w.call(X, "log")))
            if ok:
                om = w.call(w.elem(Rf, w.sl(xp, 6, None)), "log")
                Ji = w.call(om, "left_jacobian_inv")
                want = cm.vertcat(cm.matmul(Ji, w.sl(xp, 0, 3)), cm.matmul(Ji, w.sl(xp, 3, 6)), w.param(om))
                verdict(rep, "C03.form", "%s.log = (J_l^-1 p, J_l^-1 v, omega), omega = log(R)" % nm, closed(w, L), closed(w, want), (), w.method_where(G, "log")[:2],
                        "SE_2(3) log does not apply the inverse left Jacobian of the rotation log to p and v in algebra order")
    # ---- direct products: factors whose group and algebra dimensions differ (quaternion 4/3) come first, so that an
    # offset table built from the wrong dimension shows; three factors, so that a non-cumulative table shows
    for names in (["SO3Mrp", "R3"], ["SO3Quat", "R3"], ["SE2", "SO3Quat", "R3"], ["SO3Mrp", "SO3Mrp"]):
        label = "*".join(names)
        G = w.G(names[0])
        for nm in names[1:]:
            G = w.it.binop(ast.Mult(), G, w.G(nm), None)
        X, xp = w.fresh(G, "X")
        ok, L = guarded(w, rep, "C03.direct-product", "%s log" % label, lambda: w.param(w.call(X, "log")))
        okE, Ex = guarded(w, rep, "C03.direct-product", "%s exp" % label, lambda: w.param(w.call(G, "exp", w.elem(w.attr(G, "algebra"), w.sym("x", w.attr(w.attr(G, "algebra"), "n_param"))))))
        if ok:
            parts, off = [], 0
            for nm in names:
                F = w.G(nm)
                k = w.attr(F, "n_param")
                parts.append(w.param(w.call(w.elem(F, w.sl(xp, off, off + k)), "log")))
                off += k
            verdict(rep, "C03.direct-product", "%s: log is factor-wise on the factors' own slices, in order" % label, L, cm.vertcat(*parts), (), w.method_where(G, "log")[:2],
                    "direct-product log is not factor-wise")


def check_shadow_flow(w, rep):
    """D2: every constructor of an MRP from non-MRP data returns the shadow-switched value."""
    Mr = w.G("SO3Mrp")
    so3 = w.G("so3")
    cases = [
        ("exp", lambda: w.call(Mr, "exp", w.elem(so3, w.sym("x", 3)))),
        ("from_Quat", lambda: w.call(Mr, "from_Quat", w.fresh(w.G("SO3Quat"), "q")[0])),
        ("from_Dcm", lambda: w.call(Mr, "from_Dcm", w.fresh(w.G("SO3Dcm"), "R")[0])),
        ("from_Matrix", lambda: w.call(Mr, "from_Matrix", w.sym("M", 3, 3))),
        ("from_Euler", lambda: w.call(Mr, "from_Euler", w.fresh(w.G("SO3EulerB321"), "e")[0])),
    ]
    for name, thunk in cases:
        ok, val = guarded(w, rep, "C03.shadow", "SO3Mrp.%s" % name, thunk)
        if ok:
            good, why = is_shadowed(w.param(val))
            rep.check("C03.shadow", "SO3Mrp.%s returns if_else(|r|^2 > 1, -r/|r|^2, r)" % name, good,
                      "result is not passed through the shadow switch (%s): |r| <= 1 is not guaranteed, so log is not principal" % why,
                      where=w.method_where(Mr, name)[:2])
    rep.floor("C03.shadow", 5)


def run(w, rep, tier):
    rep.rule("C03.API", "log resolves for every group and returns an element of the group's algebra")
    rep.rule("C03.quat", "SO3Quat.log equals the principal rotation vector for q0 > 0 and for q0 < 0 (sign independence), closed form with acos(-u) = pi - acos(u)")
    rep.rule("C03.form", "parameter-level forms: MRP 4 atan(|r|)/|r|, DCM clamped acos with antisymmetric part, SE(3) and SE_2(3) through the inverse left Jacobian of the rotation log in algebra order")
    rep.rule("C03.guard", "acos in SO3Dcm.log only reachable under the two-sided clamp")
    rep.rule("C03.flow", "Euler log = SO3Dcm.log(SO3Dcm.from_Euler(.))")
    rep.rule("C03.roundtrip", "exp(log X) = X / log(exp x) = x where closed forms decide it (SE(2), SO(2), R^n)")
    rep.rule("C03.shadow", "MRP constructors from non-MRP data return the shadow-switched value (|r| <= 1)")
    rep.rule("C03.direct-product", "direct-product log is factor-wise")
    check_logs(w, rep, tier)
    check_shadow_flow(w, rep)
    # Euler log, SE_2(3) exp and every Dcm -> Quat/Mrp route reach log through SO3Quat.from_Matrix: each of its four
    # selections must be a right inverse of to_Matrix (rule shared with C07; seeded C03-5 flipped one sign in one branch)
    from .c07 import check_from_matrix
    check_from_matrix(w, rep, R="C03.flow", RV="C03.flow", RS="C03.flow")
    # independence of log from the representation holding X needs SO3Mrp.from_Quat to keep the rotation for both signs of q0
    from .c07 import check_pairs
    check_pairs(w, rep, tier, only={("SO3Quat", "SO3Mrp")}, RP="C03.flow", RA="C03.API")
    # Euler log = SO3Dcm.log(SO3Dcm.from_Euler(X)) for EVERY Euler group the class builds: the space-fixed type too
    from .c07 import check_space_fixed
    check_space_fixed(w, rep, tier, RP="C03.flow", RA="C03.API", dsts=("SO3Dcm",))
    rep.floor("C03.API", 12)
    rep.floor("C03.form", 5)
    rep.undecided_clause("exp(log X) = X and log(exp x) = x for the SO(3) parameterisations (composition of trigonometric and inverse trigonometric maps)")
    rep.undecided_clause("independence of log from the SO(3) parameterisation holding X (needs the conversion round trips of C07)")
