"""Helpers shared by the per-property rule modules."""
from ..absint import Instance, ClassObj
from ..casadi_model import InterpRaise, Unsupported, MatVal, CA, mat_equal, to_mat
from .. import casadi_model as cm
from ..decide import decide, decide_mat, EQUAL, DIFFERENT, UNKNOWN
from ..engine import sym_atoms_of, first_diff, short
from ..poly import all_atoms, Poly, CFG
from fractions import Fraction

GROUPS12 = ["SO2", "SE2", "R2", "R3", "SO3Quat", "SO3Mrp", "SO3Dcm", "SO3EulerB321", "SE3Quat", "SE3Mrp", "SE23Quat", "SE23Mrp"]
ALGEBRAS7 = ["so2", "se2", "r2", "r3", "so3", "se3", "se23"]
SO3_REPS = ["SO3Quat", "SO3Mrp", "SO3Dcm", "SO3EulerB321"]


def loc(w, e):
    """(file, line) of an abstract exception."""
    mod = e.module
    sf = w.fe.module_file(mod) if mod else None
    return (sf.rel if sf else (mod or "?"), getattr(e.node, "lineno", 0))


def chain_text(e):
    if not e.chain:
        return ""
    return " [call chain: " + " > ".join("%s@%s" % (q, l) for q, m, l in e.chain[-6:]) + "]"


def guarded(w, rep, rule, instance, thunk, not_offered_ok=True):
    """Run an abstract call.  -> (True, value) | (False, None) after recording fail / incomplete / n-a."""
    depth = len(w.it.stack)
    try:
        return True, thunk()
    except InterpRaise as e:
        del w.it.stack[depth:]
        if not_offered_ok and e.kind == "NotImplementedError" and e.msg == "explicit raise":
            rep.na(rule, instance, "operation explicitly raises NotImplementedError (not offered)")
            return False, None
        rep.fail(rule, instance, "raises %s for every input: %s%s" % (e.kind, e.msg, chain_text(e)), where=loc(w, e),
                 fact={"exception": e.kind, "message": e.msg})
        return False, None
    except Unsupported as e:
        del w.it.stack[depth:]
        rep.incomplete(rule, instance, "analyser cannot interpret: %s%s" % (e.msg, chain_text(e)), where=loc(w, e))
        return False, None


def rot_factor(w, G):
    """The SO(3)/SO(2) factor a group is built on (itself for pure rotation groups), or None."""
    if not isinstance(G, Instance):
        return None
    if "SO3" in G.attrs:
        return G.attrs["SO3"]
    name = G.cls.name
    if name.startswith("SO3") or name.startswith("SO2"):
        return G
    if name.startswith("SE2"):
        return w.G("SO2")
    return None


def rot_kind(w, G):
    R = rot_factor(w, G)
    if R is None:
        return "none"
    n = R.cls.name
    for k, v in (("SO3Quat", "quat"), ("SO3Mrp", "mrp"), ("SO3Dcm", "dcm"), ("SO3Euler", "euler"), ("SO2", "so2")):
        if n.startswith(k):
            return v
    return "other"


def rot_slice(w, G):
    """(start, stop) of the rotation parameters inside the group's parameter vector."""
    n = w.attr(G, "n_param")
    R = rot_factor(w, G)
    if R is None:
        return None
    if R is G:
        return (0, n)
    rn = w.attr(R, "n_param")
    return (n - rn, n)


def quats_of(w, G, *params):
    """Unit-quaternion atom tuples of parameter vectors of group G (for reduction modulo |q|=1)."""
    if rot_kind(w, G) != "quat":
        return []
    a, b = rot_slice(w, G)
    out = []
    for p in params:
        at = sym_atoms_of(p)
        out.append(tuple(at[a:b]))
    return out


def fresh_on_manifold(w, G, name):
    """Fresh element of G -> (element, parameter vector, unit-quaternion atom tuples to declare).
    A composite group on a DCM factor gets its nine rotation parameters from R(q), q a fresh unit quaternion: every
    rotation matrix is R(q) for some unit q (L4), so an identity for all unit q IS the identity on SO(3), whereas nine
    free symbols would make every identity that needs orthonormality look violated.  Other groups: free symbols, and
    the quaternion slot (if any) declared unit."""
    if rot_kind(w, G) == "dcm" and rot_factor(w, G) is not G:
        a, b = rot_slice(w, G)
        D = rot_factor(w, G)
        Q = w.G("SO3Quat")
        t = w.sym(name, a)
        q = w.sym(name + "q", 4)
        dcm = w.param(w.call(D, "from_Matrix", w.call(w.elem(Q, q), "to_Matrix")))
        p = cm.vertcat(t, dcm) if a else dcm
        return w.elem(G, p), p, [tuple(sym_atoms_of(q))]
    X, p = w.fresh(G, name)
    return X, p, quats_of(w, G, p)


def wrap_beyond_pi(M):
    """Replace every atan2(sin a, cos a) in M by a - 2 pi (its value for pi < a < 3 pi).  -> (matrix, replacements)"""
    from ..poly import deep_subs
    from .. import casadi_model as cm_
    n = [0]

    def f(a):
        if a.kind != "atan2":
            return None
        s_, c_ = a.key[0].single_atom(), a.key[1].single_atom()
        if s_ is None or c_ is None or s_.kind != "sin" or c_.kind != "cos" or s_.key[0] != c_.key[0]:
            return None
        n[0] += 1
        return s_.key[0] - cm_.PI_POLY.scale(2)
    memo = {}
    out = MatVal(M.r, M.c, [[deep_subs(p_, f, memo) if p_.t else p_ for p_ in row] for row in M.cells], M.kind)
    return out, n[0]


def beyond_pi_difference(A, B, rows, quats=()):
    """atan2(sin a, cos a) is the angle a wrapped to (-pi, pi]: on pi < a < 3 pi it is exactly a - 2 pi.  A difference of the
    given rows on that region is a difference (for rotation angles beyond pi); agreement there decides nothing about the
    rest.  Only rows that are NOT angles themselves may be given (an angle is compared modulo 2 pi).  -> message or None"""
    Aw, na = wrap_beyond_pi(A)
    Bw, nb = wrap_beyond_pi(B)
    if not (na or nb) or A.shape != B.shape:
        return None
    pick = lambda M: MatVal(len(rows), M.c, [M.cells[i] for i in rows], M.kind)
    v2, d2 = decide_mat(pick(Aw), pick(Bw), quats)
    if v2 == DIFFERENT:
        return "for an angle beyond pi (pi < a < 3 pi, where atan2(sin a, cos a) = a - 2 pi) value numbers differ, %s" % d2
    return None


def verdict(rep, rule, instance, A, B, quats=(), where=None, what="", unknown_ok=False, fact=None, beyond_pi_rows=None):
    """Compare two matrices; record ok / fail / incomplete.  Returns the verdict string."""
    v, d = decide_mat(A, B, quats)
    if v == UNKNOWN and A.shape == B.shape and any(a.kind == "sign" for M in (A, B) for p_ in M.flat() for a in all_atoms(p_)):
        # sign(x) of an input: decided on x > 0, x < 0 and on the hyperplane x = 0 (where sign is 0) separately
        from .liecommon import decide_by_cases
        v, d = decide_by_cases(A, B, quats)
    if v == UNKNOWN and beyond_pi_rows:
        m = beyond_pi_difference(A, B, beyond_pi_rows, quats)
        if m:
            rep.fail(rule, instance, "%s: %s" % (what or "identity violated", m), where=where, fact={"difference": m, "case": "pi < a < 3 pi"})
            return DIFFERENT
    if v == EQUAL:
        rep.ok(rule, instance, fact=fact or {"equal_cells": A.r * A.c})
    elif v == DIFFERENT:
        rep.fail(rule, instance, "%s: value numbers differ, %s" % (what or "identity violated", d), where=where, fact={"difference": d})
    else:
        if unknown_ok:
            rep.na(rule, instance, "not decidable by canonical forms: %s" % d)
        else:
            rep.incomplete(rule, instance, "%s: cannot decide (different opaque building blocks), %s" % (what, d), where=where)
    return v


def verdict_by_branches(rep, rule, instance, A, B, quats=(), where=None, what="", unknown_ok=False, limit=3):
    """verdict(), but when A carries if_else selections the comparison is made on every selection separately (a branch
    that provably differs is a violation: the selection exists for some input unless its condition is unsatisfiable,
    which the caller rules out by using this only for conditions on free inputs)."""
    from .liecommon import branches
    brs = branches(A, limit)
    if not brs or len(brs) == 1:
        return verdict(rep, rule, instance, A, B, quats, where, what, unknown_ok)
    worst = EQUAL
    detail = None
    for label, Ab in brs:
        v, d = decide_mat(Ab, B, quats)
        if v == DIFFERENT:
            rep.fail(rule, instance, "%s: on the selection [%s] value numbers differ, %s" % (what or "identity violated", label, d), where=where, fact={"branch": label, "difference": d})
            return DIFFERENT
        if v == UNKNOWN and worst == EQUAL:
            worst, detail = UNKNOWN, "[%s] %s" % (label, d)
    if worst == EQUAL:
        rep.ok(rule, instance, fact={"branches": len(brs)})
    elif unknown_ok:
        rep.na(rule, instance, "not decidable by canonical forms: %s" % detail)
    else:
        rep.incomplete(rule, instance, "%s: cannot decide (different opaque building blocks), %s" % (what, detail), where=where)
    return worst


def check_rk4_callables(w, rep, rule, label, thunk, where):
    """Every callable handed to util.rk4 while `thunk` runs must pass ITS OWN state argument on: f(t, s) for a fresh state s
    is f(t, y0) with y0 replaced by s.  A closure that captures the start-of-step state instead (`lambda t, y: g(t, x, ...)`)
    makes all four stages evaluate the field at y0: the step degenerates to forward Euler, with every other invariant
    (norm, triangularity, finiteness) intact."""
    from .liecommon import capture_calls
    val, seen = capture_calls(w, "rk4", thunk)
    n = 0
    for env in seen:
        f, y = env.get("f"), env.get("y")
        t = env.get("t")
        if f is None or not isinstance(y, MatVal):
            continue
        n += 1
        ya = [p.single_atom() for p in y.flat()]
        s = w.sym("s~%d" % n, y.r, y.c) if y.c > 1 else w.sym("s~%d" % n, y.r)
        inst = "%s: rk4 call %d integrates a field that uses its state argument" % (label, n)
        try:
            out_s = w.callf(f, t, s)
            out_y = w.callf(f, t, y)
        except (InterpRaise, Unsupported) as ex:
            rep.incomplete(rule, inst, "cannot evaluate the callable: %s" % ex, where=where)
            continue
        if not isinstance(out_s, MatVal) or not isinstance(out_y, MatVal):
            rep.incomplete(rule, inst, "callable does not return a matrix", where=where)
            continue
        deps_y = set()
        for p in out_y.flat():
            deps_y |= {a for a in all_atoms(p) if a.kind == "sym"}
        uses_y0 = any(a is not None and a in deps_y for a in ya)
        sa = {p.single_atom() for p in s.flat()}
        deps_s = set()
        for p in out_s.flat():
            deps_s |= {a for a in all_atoms(p) if a.kind == "sym"}
        if not uses_y0:
            rep.na(rule, inst, "the field does not depend on the state at all")
            continue
        stale = [a for a in ya if a is not None and a in deps_s]
        if stale or not (deps_s & sa):
            rep.fail(rule, inst, "the callable evaluates the field at the start-of-step state (%s) whatever state rk4 passes in: all stages see y0 and the step is forward Euler, not fourth order"
                     % ", ".join(repr(a) for a in stale[:3]), where=where)
        else:
            rep.ok(rule, inst)
    return val, n


def forward_rules(w, rep, modname, mapping, tier="quick", why=""):
    """Runs another property's rules on a scratch report and copies the obligations of the rules named in `mapping`
    ({their rule id: rule id here}) into `rep`.  Used where a clause of one property is literally a clause of another
    (motor commands within limits = the allocator's clamps)."""
    import importlib
    from ..report import Report, Ob
    mod = importlib.import_module("sa.rules.%s" % modname)
    scratch = Report(modname.upper(), tier)
    mod.run(w, scratch, tier)
    n = 0
    for o in scratch.obs:
        if o.rule in mapping:
            rep.obs.append(Ob(mapping[o.rule], o.instance, o.status, o.msg, o.file, o.line, o.fact, o.nontrivial))
            n += 1
    return n


def eye(n):
    return CA.SX.eye(n)


def zeros(r, c):
    return MatVal(r, c)


def with_maxdeg(n):
    class _C:
        def __enter__(self):
            self.old = CFG.maxdeg
            CFG.maxdeg = n

        def __exit__(self, *a):
            CFG.maxdeg = self.old
    return _C()
