"""C15 - controller laws respect their saturations and vanish at zero error (DESIGN 4, C15)."""
from .common import *
from .liecommon import *
from .c13 import clamp_parts
from ..decide import reduce_unit, split_rational, canon
from ..frontend import AnchorMissing
from ..poly import Poly, deep_subs, all_atoms


def get_fn(w, rep, modname, fn, key, rule="C15.API"):
    mod = w.mod(modname)
    if fn not in mod:
        raise AnchorMissing("%s.%s" % (modname, fn))
    ok, eqs = guarded(w, rep, rule, "%s()" % fn, lambda: w.callf(mod[fn]))
    if not ok:
        return None, mod
    f = eqs.get(key) if isinstance(eqs, dict) else None
    if not isinstance(f, cm.FunctionVal):
        rep.fail(rule, "%s exported by %s" % (key, fn), "no Function under key %r" % key, where=w.where(modname, fn))
        return None, mod
    rep.ok(rule, "%s resolves" % key)
    return f, mod


def norm_clamp_parts(cells, why=None):
    """cells_i = if_else(L < n, L u_i / n, u_i) + rest_i with one condition, n = |u|.  -> (L, u list, rests) or None.
    why: optional list receiving the reason of a None ("reversed" when the limited branch is -L u/n)."""
    us, As, rests, cond = [], [], [], None
    for p in cells:
        ites = [a for a in p.atoms() if a.kind == "ite"]
        pick = None
        for a in ites:
            ca_ = a.key[0].single_atom()
            if ca_ is not None and ca_.kind == "lt" and ca_.key[0].const_value() is not None and any(x.kind == "sqrt" for x in ca_.key[1].atoms()):
                pick = a
                break
        if pick is None:
            return None
        coef = Poly()
        for mono, c in p.t.items():
            d = dict(mono)
            if d.get(pick) == 1 and len(d) == 1:
                coef = Poly.const(c)
        if coef.const_value() != 1:
            return None
        rests.append(p - Poly.atom(pick))
        if cond is None:
            cond = pick.key[0]
        elif cond != pick.key[0]:
            return None
        As.append(pick.key[1])
        us.append(pick.key[2])
    ca_ = cond.single_atom()
    L = ca_.key[0]
    n = ca_.key[1]
    n2 = Poly()
    for u in us:
        n2 = n2 + u * u
    if decide(n, cm.un("sqrt", n2)) != EQUAL:
        return None
    for A, u in zip(As, us):
        if decide(A, cm.pdiv(L * u, n)) != EQUAL:
            if why is not None and u.t and decide(A, cm.pdiv((L * u).scale(-1), n)) == EQUAL:
                why.append("reversed")
            return None
    return L, us, rests


def check_rate_control(w, rep):
    f, mod = get_fn(w, rep, "cyecca.models.rdd2", "derive_attitude_rate_control", "attitude_rate_control")
    if f is None:
        return
    W = w.where("cyecca.models.rdd2", "derive_attitude_rate_control")
    I = dict(zip(f.in_names, f.ins))
    O = dict(zip(f.out_names, f.outs))
    need_i = ["kp", "ki", "kd", "f_cut", "i_max", "omega", "omega_r", "i0", "e0", "de0", "dt"]
    need_o = ["M", "i1", "e1", "de1", "alpha"]
    if not rep.check("C15.API", "attitude_rate_control signature", f.in_names == need_i and f.out_names == need_o, "signature %s -> %s" % (f.in_names, f.out_names), where=W):
        return
    e1 = cm.ew(I["omega_r"], I["omega"], cm.psub)
    verdict(rep, "C15.rate", "e1 = omega_r - omega", O["e1"], e1, (), W, "rate error is not reference minus measured")
    for k in range(3):
        cp = clamp_parts(O["i1"].cells[k][0])
        want_x = I["i0"].cells[k][0] + e1.cells[k][0] * I["dt"].s()
        good = cp is not None and cp[0] == want_x and cp[2] == I["i_max"].cells[k][0] and cp[1] == -I["i_max"].cells[k][0]
        rep.check("C15.clamp", "i1[%d] = clamp(i0 + e1 dt, -i_max, +i_max)" % k, good, "integrator output %d is not clamped to +-i_max: %s" % (k, short(O["i1"].cells[k][0], 100)), where=W)
    al = O["alpha"].s()
    num, den = split_rational(canon(al))
    a = cm.PI_POLY * I["dt"].s() * I["f_cut"].s()
    a = a.scale(2)
    good = decide(num * (a + cm.ONE), den * a) == EQUAL
    rep.check("C15.rate", "alpha = a/(a+1), a = 2 pi dt f_cut (strictly between 0 and 1 for positive dt, f_cut)", good, "derivative-filter coefficient is not a/(a+1): %s" % short(al, 100), where=W)
    de1 = cm.ew(cm.ew(cm.ew(cm.ew(e1, I["e0"], cm.psub), I["dt"], cm.pdiv), al, cm.pmul), cm.ew(I["de0"], cm.ONE - al, cm.pmul), cm.padd)
    verdict(rep, "C15.rate", "de1 = alpha (e1 - e0)/dt + (1 - alpha) de0", O["de1"], de1, (), W, "derivative filter is not the convex combination of the finite difference and the previous value")
    M = cm.ew(cm.ew(cm.ew(I["kp"], e1, cm.pmul), cm.ew(I["ki"], O["i1"], cm.pmul), cm.padd), cm.ew(I["kd"], O["de1"], cm.pmul), cm.padd)
    verdict(rep, "C15.rate", "M = kp e1 + ki i1 + kd de1 (element-wise, with the clamped integrator)", O["M"], M, (), W, "moment command is not the PID sum of the returned terms")


POSITION_LOOPS = (("cyecca.models.rdd2", "derive_position_control", "position_control", "p"),
                  ("cyecca.models.rdd2_loglinear", "derive_outerloop_control", "se23_position_control", "zeta"))


def demanded_force(w, rep, modname, fn, key, RA):
    """Re-assembles the demanded force zB * nT of a position loop from the frame handed to SO3Quat.from_Matrix and the
    thrust output (tolerance guards resolved to the regular side) and splits it with norm_clamp_parts.
    -> (f, I, O, parts, mod, W) or None."""
    from .c14 import tolerance_guards
    Q = w.G("SO3Quat")
    mod = w.mod(modname)
    if fn not in mod:
        raise AnchorMissing("%s.%s" % (modname, fn))
    W = w.where(modname, fn)
    ok, res = guarded(w, rep, RA, "%s()" % fn, lambda: capture_calls(w, "from_Matrix", lambda: w.callf(mod[fn]), self_is=Q))
    if not ok:
        return None
    eqs, seen = res
    f = eqs.get(key) if isinstance(eqs, dict) else None
    if not isinstance(f, cm.FunctionVal) or not seen:
        rep.fail(RA, "%s exported" % key, "no Function / frame", where=W)
        return None
    rep.ok(RA, "%s resolves" % key)
    I = dict(zip(f.in_names, f.ins))
    O = dict(zip(f.out_names, f.outs))
    Rd = seen[-1]["arg"]
    g = tolerance_guards(Rd)
    g.update(tolerance_guards(O["nT"]))
    R = assign_ites(Rd, g)
    nT = assign_ites(O["nT"], g)
    zB = w.it.mat_get(R, (slice(0, 3), 2))
    v = [canon(p) for p in cm.ew(zB, nT, cm.pmul).flat()]
    why = []
    parts = norm_clamp_parts(v, why)
    if parts is None and "reversed" in why:
        parts = "reversed"
    return f, I, O, parts, mod, W


def check_position_loops2(w, rep, RULE="C15.clamp", RA="C15.API"):
    for modname, fn, key, zsrc in POSITION_LOOPS:
        got = demanded_force(w, rep, modname, fn, key, RA)
        if got is None:
            continue
        f, I, O, parts, mod, W = got
        m_, g_ = mod.get("m"), mod.get("g")
        inst = "%s: feedback term is if_else(|u| > L, L u/|u|, u) with L = 0.3 m g" % key
        if parts == "reversed":
            rep.fail(RULE, inst, "the limited branch is -L u/|u|: once the limit is active the feedback force points AWAY from the set-point", where=W)
        elif parts is None:
            rep.fail(RULE, inst, "the PD term of the demanded force is not norm-limited (no common if_else(L < |u|, L u/|u|, u) over its three components)", where=W)
        else:
            L, us, rests = parts
            Lw = Fraction(3, 10) * m_ * g_
            rep.check(RULE, inst, L.const_value() == Lw, "norm limit is %s, 30 %% of weight is %s" % (L.const_value(), Lw), where=W, fact={"L": str(L.const_value())})
            horiz = rests[0].is_zero() and rests[1].is_zero()
            rep.check(RULE, "%s: trim and integrator act along world z only" % key, horiz, "horizontal force has terms outside the limited PD term", where=W)
            kiz = mod.get("ki_z")
            wantz = I["thrust_trim"].s() + I["z_i"].s().scale(kiz)
            rep.check(RULE, "%s: demanded force = limited feedback term + (thrust_trim + ki_z z_i) zW" % key, rests[2] == wantz,
                      "vertical force outside the feedback term is %s, expected thrust_trim + ki_z*z_i (trim plus the height integrator INPUT)" % short(rests[2], 80), where=W)
        # height integrator
        zi = O.get("z_i_2")
        if zi is not None:
            cp = clamp_parts(zi.s())
            zmax = mod.get("z_integral_max")
            good = cp is not None and cp[1] == Poly.const(-zmax) and cp[2] == Poly.const(zmax)
            rep.check(RULE, "%s: z_i_2 = clamp(., -z_integral_max, +z_integral_max)" % key, good, "height integrator is not clamped to its limit: %s" % short(zi.s(), 80), where=W)
            if good:
                x = cp[0]
                dep = I["z_i"].s().single_atom() in x.atoms() and I["dt"].s().single_atom() in {a for a in all_atoms(x)}
                rep.check(RULE, "%s: integrator accumulates z error times dt on the previous value" % key, dep and (x - I["z_i"].s()).t and all(I["dt"].s().single_atom() in dict(mn) for mn in (x - I["z_i"].s()).t),
                          "integrator increment is not proportional to dt", where=W)


def check_input_velocity(w, rep):
    f, mod = get_fn(w, rep, "cyecca.models.rdd2", "derive_input_velocity", "input_velocity")
    if f is None:
        return
    W = w.where("cyecca.models.rdd2", "derive_input_velocity")
    I = dict(zip(f.in_names, f.ins))
    O = dict(zip(f.out_names, f.outs))
    need = ["dt", "psi_sp", "pw_sp", "pw", "input_aetr", "reset_position"]
    if not rep.check("C15.API", "input_velocity signature", f.in_names == need and "psi_sp1" in O and "pw_sp1" in O, "signature %s -> %s" % (f.in_names, f.out_names), where=W):
        return
    psi = O["psi_sp1"].s()
    a = psi.single_atom()
    twopi = cm.PI_POLY.scale(2)
    good = a is not None and a.kind == "remainder" and a.key[1] == twopi
    why = "yaw set-point is not wrapped with the IEEE remainder by 2 pi (range [-pi, pi])"
    if a is not None and a.kind == "fmod":
        why = "yaw set-point uses fmod (sign of the dividend, range (-2pi, 2pi)) instead of the IEEE remainder"
    rep.check("C15.wrap", "psi_sp1 = remainder(psi_sp + psi_vel dt, 2 pi)", good, why, where=W)
    if good:
        d2r = cm.PI_POLY.scale(Fraction(1, 180))
        want = I["psi_sp"].s() + d2r.scale(60) * I["input_aetr"].cells[3][0] * I["dt"].s()
        rep.check("C15.wrap", "wrapped argument is psi_sp + 60 deg/s * rudder * dt", a.key[0] == want, "argument is %s" % short(a.key[0], 80), where=W)
    # 2 m leash and reset
    pw = I["pw"]
    e = [canon(p) for p in cm.ew(O["pw_sp1"], pw, cm.psub).flat()]
    parts = norm_clamp_parts(e)
    if parts is None:
        rep.fail("C15.clamp", "pw_sp1 - pw = if_else(|e| > 2, 2 e/|e|, e)", "position set-point is not kept within a fixed distance of the vehicle", where=W)
    else:
        L, us, rests = parts
        rep.check("C15.clamp", "pw_sp1 - pw = if_else(|e| > 2, 2 e/|e|, e)", L.const_value() == 2 and all(r.is_zero() for r in rests), "leash is %s m" % L.const_value(), where=W)
        # reset puts the set-point on the vehicle
        rc = I["reset_position"].s()
        for val, label in ((True, "reset"),):
            Or = assign_ites(O["pw_sp1"], {rc: val})
            verdict_by_branches(rep, "C15.clamp", "reset_position selects pw_sp1 = pw", Or, pw, (), W, "a reset does not put the position set-point on the vehicle")
        # no reset: e = pw_sp + vw dt - pw
        un_ = MatVal(3, 1, [[u] for u in us])
        Un = assign_ites(un_, {rc: False})
        want = cm.ew(cm.ew(I["pw_sp"], cm.ew(O["vw_sp"], I["dt"], cm.pmul), cm.padd), pw, cm.psub)
        verdict(rep, "C15.clamp", "without reset the error is pw_sp + vw_sp dt - pw", Un, want, (), W, "position set-point is not integrated from the velocity command")


def check_stick_maps(w, rep):
    """Stick inputs map affinely (constant coefficients) to rate / angle / thrust commands."""
    for fn, key, outs in (("derive_input_acro", "input_acro", ["omega", "thrust"]),):
        f, mod = get_fn(w, rep, "cyecca.models.rdd2", fn, key)
        if f is None:
            continue
        W = w.where("cyecca.models.rdd2", fn)
        I = dict(zip(f.in_names, f.ins))
        st = set(sym_atoms_of(I["input_aetr"]))
        for nm, o in zip(f.out_names, f.outs):
            for k, p in enumerate(o.flat()):
                affine = all(sum(e for a, e in mono if a in st) <= 1 and all(e > 0 for a, e in mono) for mono in p.t)
                rep.check("C15.sticks", "%s.%s[%d] is affine in the sticks" % (key, nm, k), affine, "output is not affine in input_aetr: %s" % short(p, 80), where=W)
        d2r = cm.PI_POLY.scale(Fraction(1, 180))
        rp, yw = mod.get("rollpitch_rate_max"), mod.get("yaw_rate_max")
        want = cm.vertcat(cm.scalar(d2r.scale(rp) * I["input_aetr"].cells[0][0]), cm.scalar(d2r.scale(rp) * I["input_aetr"].cells[1][0]), cm.scalar(d2r.scale(yw) * I["input_aetr"].cells[3][0]))
        verdict(rep, "C15.sticks", "input_acro.omega = (rp_max a, rp_max e, yaw_max r) deg2rad", f.outs[0], want, (), W, "acro rates are not the scaled sticks")
        verdict(rep, "C15.sticks", "input_acro.thrust = t * thrust_delta + thrust_trim", f.outs[1], cm.scalar(I["input_aetr"].cells[2][0] * I["thrust_delta"].s() + I["thrust_trim"].s()), (), W, "thrust is not trim plus stick times delta")
    f, mod = get_fn(w, rep, "cyecca.models.rdd2", "derive_input_velocity", "input_velocity")
    if f is not None:
        W = w.where("cyecca.models.rdd2", "derive_input_velocity")
        I = dict(zip(f.in_names, f.ins))
        O = dict(zip(f.out_names, f.outs))
        s = I["input_aetr"]
        psi = O["psi_sp1"].s()
        c, sn = cm.un("cos", psi), cm.un("sin", psi)
        vb = [s.cells[1][0].scale(2), s.cells[0][0].scale(-2), s.cells[2][0]]
        want = cm.vertcat(cm.scalar(vb[0] * c - vb[1] * sn), cm.scalar(vb[0] * sn + vb[1] * c), cm.scalar(vb[2]))
        verdict(rep, "C15.sticks", "input_velocity.vw_sp = Rz(psi_sp1) (2 e, -2 a, t)", O["vw_sp"], want, (), W, "velocity command is not the yaw-rotated stick vector")


def check_error_laws(w, rep):
    Q = w.G("SO3Quat")
    so3 = w.G("so3")
    # attitude_control
    f, mod = get_fn(w, rep, "cyecca.models.rdd2", "derive_attitude_control", "attitude_control")
    if f is not None:
        W = w.where("cyecca.models.rdd2", "derive_attitude_control")
        kp, q, qr = w.sym("kp", 3), w.sym("q", 4), w.sym("q_r", 4)
        ok, om = guarded(w, rep, "C15.error", "attitude_control call", lambda: f(kp, q, qr))
        if ok:
            X, Xr = w.elem(Q, q), w.elem(Q, qr)
            e = w.param(w.call(w.call(Q, "product", w.call(X, "inverse"), Xr), "log"))
            verdict(rep, "C15.error", "attitude_control: omega = kp . log(X^-1 X_r)", om, cm.ew(kp, e, cm.pmul), (), W, "attitude law is not the gain times log(X^-1 X_r) in that operand order")
            zero_at_equal(w, rep, "attitude_control", lambda a, b: f(kp, a, b), q, W)
            nonzero_at_half_turn(w, rep, "attitude_control", lambda a, b: f(kp, a, b), W)
    f, mod = get_fn(w, rep, "cyecca.models.rdd2_loglinear", "derive_so3_attitude_control", "so3_attitude_control")
    if f is not None:
        W = w.where("cyecca.models.rdd2_loglinear", "derive_so3_attitude_control")
        kp, q, qr = w.sym("kp", 3), w.sym("q", 4), w.sym("q_r", 4)
        ok, om = guarded(w, rep, "C15.error", "so3_attitude_control call", lambda: f(kp, q, qr))
        if ok:
            X, Xr = w.elem(Q, q), w.elem(Q, qr)
            E = w.call(w.call(Q, "product", w.call(X, "inverse"), Xr), "log")
            # Special case kp = (k, k, k): J_l(e) e = e exactly in the polynomial ring (wedge(e) e = 0), so the law is
            # k e and can be compared with k log(X^-1 X_r) whatever series atoms the Jacobian carries (a necessary
            # condition of the general law; decided on the two signs of q . q_r modulo |q| = |q_r| = 1).
            k = w.sym("k", 1)
            kkk = cm.vertcat(k, k, k)
            ok1, om1 = guarded(w, rep, "C15.error", "so3_attitude_control call (equal gains)", lambda: f(kkk, q, qr))
            special_ok = True
            if ok1:
                d0 = cm.dot(q, qr).s()
                quats = [tuple(sym_atoms_of(q)), tuple(sym_atoms_of(qr))]
                with with_maxdeg(30):
                    A1 = closed(w, om1)
                    B1 = closed(w, cm.ew(kkk, w.param(E), cm.pmul))
                    for sgn, label in ((1, "q . q_r > 0"), (-1, "q . q_r < 0")):
                        inst = "so3_attitude_control with equal gains k: omega = k log(X^-1 X_r) when %s" % label
                        vd, d = decide_mat(resolve_sign(A1, d0, sgn), resolve_sign(B1, d0, sgn), quats)
                        if vd == EQUAL:
                            rep.ok("C15.error", inst)
                        elif vd == DIFFERENT:
                            special_ok = False
                            rep.fail("C15.error", inst, "with equal gains the log-linear law must reduce to k times the rotation vector of X^-1 X_r (J_l(e) e = e): %s" % d, where=W)
                        else:
                            rep.incomplete("C15.error", inst, "cannot decide: %s" % d, where=W)
            if special_ok:
                want = cm.matmul(cm.matmul(w.call(E, "left_jacobian"), cm.diag(kp)), w.param(E))
                verdict(rep, "C15.error", "so3_attitude_control: omega = J_l(e) diag(kp) e, e = log(X^-1 X_r)", om, want, (), W, "log-linear attitude law is not J_l(e) K e")
            zero_at_equal(w, rep, "so3_attitude_control", lambda a, b: f(kp, a, b), q, W)
            nonzero_at_half_turn(w, rep, "so3_attitude_control", lambda a, b: f(kp, a, b), W)
    f, mod = get_fn(w, rep, "cyecca.models.rdd2_loglinear", "derive_se23_error", "se23_error")
    if f is not None:
        W = w.where("cyecca.models.rdd2_loglinear", "derive_se23_error")
        G = w.G("SE23Quat")
        p, v, q, pr, vr, qr = w.sym("p", 3), w.sym("v", 3), w.sym("q", 4), w.sym("pr", 3), w.sym("vr", 3), w.sym("qr", 4)
        ok, z = guarded(w, rep, "C15.error", "se23_error call", lambda: f(p, v, q, pr, vr, qr))
        if ok:
            X, Xr = w.elem(G, cm.vertcat(p, v, q)), w.elem(G, cm.vertcat(pr, vr, qr))
            want = w.param(w.call(w.call(G, "product", w.call(X, "inverse"), Xr), "log"))
            verdict(rep, "C15.error", "se23_error: zeta = log(X^-1 X_r) on SE_2(3)", z, want, (), W, "SE_2(3) error is not log(X^-1 X_r)")
            # sibling agreement, independent of the SE_2(3) group operations: the attitude part of zeta is the so(3) error
            # log(q^-1 q_r) of the two attitude laws, built with the SO(3) quaternion product only
            Xq, Xqr = w.elem(Q, q), w.elem(Q, qr)
            e3 = w.param(w.call(w.call(Q, "product", w.call(Xq, "inverse"), Xqr), "log"))
            verdict(rep, "C15.error", "se23_error: attitude part zeta[6:9] = log(q^-1 q_r), the error of the so(3) laws", w.sl(z, 6, 9), e3, (), W,
                    "the attitude part of the SE_2(3) error is not the rotation vector of q^-1 q_r (e.g. the rotations are composed in the other order: R e instead of e)")


def check_sign_independence(w, rep):
    """The three attitude laws are functions of SO3Quat.log(X^-1 X_r); 'zero exactly when measured and reference are
    the same rotation' includes q_r = -q, i.e. needs the log to be independent of the quaternion's sign."""
    from .c03 import quat_log_principal
    with with_maxdeg(30):
        quat_log_principal(w, rep, "C15.error", "attitude laws use ")


def sign_of_poly_factor(p, basis, s):
    """sign of p when p = c * basis * (monomial of positive atoms), given sign(basis) = s; else None."""
    if not p.t:
        return 0
    # common monomial of sqrt/fabs atoms
    common = None
    for mono in p.t:
        d = {a: e for a, e in mono if a.kind in ("sqrt", "fabs")}
        common = d if common is None else {a: min(e, common[a]) for a, e in d.items() if a in common}
    g = Poly({tuple(sorted(common.items(), key=lambda z: z[0].id)): 1}) if common else Poly.const(1)
    q = canon(p * g.recip()) if common else p
    for mono, c in basis.t.items():
        if mono in q.t:
            k = Fraction(q.t[mono]) / Fraction(c)
            if q == basis.scale(k):
                return (1 if k > 0 else -1) * s
        break
    return None


def resolve_sign(M, basis, s):
    def f(a):
        if a.kind in ("lt", "le") and isinstance(a.key[0], Poly):
            sg = sign_of_poly_factor(a.key[1] - a.key[0], basis, s)
            if sg:
                return Poly.const(1 if sg > 0 else 0)
        if a.kind in ("fabs", "sign") and isinstance(a.key[0], Poly):
            sg = sign_of_poly_factor(a.key[0], basis, s)
            if sg:
                return a.key[0].scale(sg) if a.kind == "fabs" else Poly.const(sg)
        return None
    return MatVal(M.r, M.c, [[deep_subs(p, f) if p.t else p for p in row] for row in M.cells], M.kind)


def check_law_sign_independence(w, rep):
    """law(q, -q_r) = law(q, q_r): q_r and -q_r are the same reference rotation.  Decided on the two sign cases of the
    scalar part of X^-1 X_r (the quantity any canonicalisation tests)."""
    Q = w.G("SO3Quat")
    laws = []
    f1, _ = get_fn(w, rep, "cyecca.models.rdd2", "derive_attitude_control", "attitude_control")
    f2, _ = get_fn(w, rep, "cyecca.models.rdd2_loglinear", "derive_so3_attitude_control", "so3_attitude_control")
    f3, _ = get_fn(w, rep, "cyecca.models.rdd2_loglinear", "derive_se23_error", "se23_error")
    kp, q, qr = w.sym("kp", 3), w.sym("q", 4), w.sym("q_r", 4)
    if f1 is not None:
        laws.append(("attitude_control", lambda r: f1(kp, q, r), w.where("cyecca.models.rdd2", "derive_attitude_control")))
    if f2 is not None:
        laws.append(("so3_attitude_control", lambda r: f2(kp, q, r), w.where("cyecca.models.rdd2_loglinear", "derive_so3_attitude_control")))
    if f3 is not None:
        p_s, v_s, pr_s, vr_s = w.sym("p", 3), w.sym("v", 3), w.sym("p_r", 3), w.sym("v_r", 3)
        laws.append(("se23_error", lambda r: f3(p_s, v_s, q, pr_s, vr_s, r), w.where("cyecca.models.rdd2_loglinear", "derive_se23_error")))
    d0 = cm.dot(q, qr).s()        # scalar part of q^-1 * q_r
    quats = [tuple(sym_atoms_of(q)), tuple(sym_atoms_of(qr))]
    with with_maxdeg(30):
        for name, call, W in laws:
            if any(o.status == "fail" and o.rule == "C15.error" and o.instance.startswith(name) for o in rep.obs):
                rep.na("C15.error", "%s sign independence" % name, "law already reported as violated")
                continue
            ok, vals = guarded(w, rep, "C15.error", "%s sign independence" % name, lambda: (closed(w, call(qr)), closed(w, call(cm.neg(qr)))))
            if not ok:
                continue
            A, B = vals
            allok = True
            for s, label in ((1, "q . q_r > 0"), (-1, "q . q_r < 0")):
                vd, d = decide_mat(resolve_sign(A, d0, s), resolve_sign(B, d0, s), quats)
                if vd != EQUAL:
                    allok = False
                    inst = "%s(q, -q_r) = %s(q, q_r) when %s" % (name, name, label)
                    if vd == DIFFERENT:
                        rep.fail("C15.error", inst, "the law depends on the sign of the reference quaternion (q_r and -q_r are the same rotation): %s" % d, where=W)
                    else:
                        rep.incomplete("C15.error", inst, "cannot decide: %s" % d, where=W)
            if allok:
                rep.ok("C15.error", "%s does not depend on the sign of the reference quaternion" % name)


def nonzero_at_half_turn(w, rep, name, call, W):
    """The command is zero ONLY for equal attitudes: at the three half turns about the body axes (q = identity,
    q_r = (0, e_i)) it must not vanish.  Constant propagation: a law that reads the error off R - R^T (zero for every
    symmetric R, i.e. for every half turn) folds to the zero vector here, whatever coefficient multiplies it."""
    one = cm.vertcat(1, 0, 0, 0)
    for i in range(3):
        qr = cm.vertcat(*[1 if j == i + 1 else 0 for j in range(4)])
        inst = "%s: command does not vanish for a half-turn error about body axis %d" % (name, i)
        ok, om = guarded(w, rep, "C15.error", inst, lambda: closed(w, call(one, qr)))
        if not ok:
            continue
        verdicts = [decide(c, Poly()) for c in om.flat()]
        if all(v == EQUAL for v in verdicts):
            rep.fail("C15.error", inst, "with q = (1,0,0,0) and q_r = %s the commanded rate folds to exactly (0, 0, 0): the error of a 180 degree rotation is read as zero, the attitude loop has a second rest point "
                     "(the error is taken from a quantity that vanishes for every symmetric rotation matrix)" % ([1 if j == i + 1 else 0 for j in range(4)],), where=W)
        elif any(v == DIFFERENT for v in verdicts):
            rep.ok("C15.error", inst, fact={"value": [short(c, 40) for c in om.flat()]})
        else:
            rep.na("C15.error", inst, "value at the half turn not decided by constant propagation: %s" % [short(c, 40) for c in om.flat()])


def zero_at_equal(w, rep, name, call, q, W):
    """With q_r = q (same rotation) the commanded rate is exactly zero: X^-1 X = e modulo |q| = 1, log(e) = 0."""
    Q = w.G("SO3Quat")
    qa = tuple(sym_atoms_of(q))
    X = w.elem(Q, q)
    ok, dq = guarded(w, rep, "C15.error", "%s zero error" % name, lambda: w.param(w.call(Q, "product", w.call(X, "inverse"), X)))
    if not ok:
        return
    dqr = MatVal(4, 1, [[reduce_unit(p, [qa])] for p in dq.flat()])
    ident = [c.const_value() for c in dqr.flat()] == [1, 0, 0, 0]
    rep.check("C15.error", "%s: X^-1 X is the identity quaternion for unit X" % name, ident, "X^-1 X does not reduce to (1,0,0,0) modulo |q| = 1: %s" % [short(c, 30) for c in dqr.flat()], where=W)
    if ident:
        ok, L = guarded(w, rep, "C15.error", "%s log(e)" % name, lambda: closed(w, w.param(w.call(w.elem(Q, dqr), "log"))))
        if ok:
            verdict(rep, "C15.error", "%s: log of the identity rotation is exactly 0 (command vanishes at zero error)" % name, L, zeros(3, 1), (), W, "attitude error of identical attitudes is not zero")


def run(w, rep, tier):
    rep.rule("C15.API", "controller generators resolve with the documented signatures")
    rep.rule("C15.clamp", "integrators are clamps (L7) of the updated value; the PD force and the 2 m leash are norm clamps if_else(|u| > L, L u/|u|, u) with the same u, L in guard and scale; reset selects the vehicle position")
    rep.rule("C15.rate", "rate PID: e1 = ref - meas; alpha = a/(a+1), a = 2 pi dt f_cut; filtered derivative is a convex combination; M is the PID sum of the returned terms")
    rep.rule("C15.wrap", "yaw set-point wrapped by the IEEE remainder with 2 pi")
    rep.rule("C15.sticks", "stick maps are affine with constant coefficients")
    rep.rule("C15.error", "attitude errors are log(X^-1 X_r) (operand order), scaled by the gains; zero exactly for identical attitudes")
    check_rate_control(w, rep)
    check_position_loops2(w, rep)
    check_input_velocity(w, rep)
    check_stick_maps(w, rep)
    check_error_laws(w, rep)
    check_sign_independence(w, rep)
    check_law_sign_independence(w, rep)
    # "zero exactly when measured and reference attitudes are the same rotation": the error quaternion X^-1 X_r of equal
    # attitudes is a computed unit quaternion, the log must normalise it before acos (rule shared with C06)
    from .c06 import check_acos_domain
    check_acos_domain(w, rep, "C15.error", groups=("SO3Quat",))
    rep.floor("C15.clamp", 9)
    rep.floor("C15.rate", 4)
    rep.floor("C15.error", 5)
    rep.undecided_clause("applying the commanded rotation reaches the reference (exp(log X) = X for SO(3), C03-undecided)")
    rep.undecided_clause("numerical behaviour of the recursion over many steps beyond the per-step invariants decided here")
