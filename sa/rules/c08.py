"""C08 - strapdown INS propagation on SE_2(3) is the exact flow of the IMU kinematics (DESIGN 4, C08).

Decided as an initial-value problem in closed form: with x1(dt) the output of strapdown_ins_propagate,
    d p1/d dt = v1,   d v1/d dt = R(q1) a_b - g e3,   d q1/d dt = 1/2 q1 * (0, omega_b),   x1(0) = x0.
By uniqueness of solutions this is the statement 'returns exactly the solution at time dt' for every dt > 0; the
semigroup law, dt = 0 and unit norm follow (and are checked directly where cheap).
"""
from .common import *
from .liecommon import *


def run(w, rep, tier):
    rep.rule("C08.API", "SE23LieGroup.exp_mixed, the element-level sugar and derive_strapdown_ins_propagation resolve and bind their arguments")
    rep.rule("C08.ode", "closed form of strapdown_ins_propagate satisfies p' = v, v' = R a - g e3, q' = 1/2 q*(0,w) in dt, for unit q0 (modulo |q|=1), half angles unified")
    rep.rule("C08.init", "x1(dt = 0) = x0 with the series limits at 0")
    rep.rule("C08.regular", "constant propagation of omega_b = 0 and of dt = 0 through the generated expression: no division by zero, sqrt(0), acos(+-1) on the selected if_else path")
    rep.rule("C08.series", "every series coefficient of the mixed exponential is read from the table that matches its argument (squared table <-> theta^2, even formula)")
    rep.rule("C08.table", "necessary for 'no discretisation error': every series coefficient the propagation reads switches to its Taylor polynomial with the default order 6 below the default threshold 1e-3, of the same formula (C06.table restricted to the entries consumed here)")
    rep.rule("C08.norm", "|q1|^2 = 1 for unit q0")
    rep.rule("C08.sig", "Function signature: inputs (x0[10], a_b[3], omega_b[3], g, dt), one output x1[10]")
    rdd2 = w.mod("cyecca.models.rdd2")
    if "derive_strapdown_ins_propagation" not in rdd2:
        from ..frontend import AnchorMissing
        raise AnchorMissing("cyecca.models.rdd2.derive_strapdown_ins_propagation")
    Wd = w.where("cyecca.models.rdd2", "derive_strapdown_ins_propagation")
    G = w.G("SE23Quat")
    se23 = w.G("se23")
    We = w.method_where(G, "exp_mixed")[:2]
    # ---- API: group-level and element-level entry points
    X0, xp = w.fresh(G, "X0")
    l = w.elem(se23, w.sym("l", 9))
    r = w.elem(se23, w.sym("r", 9))
    B = w.sym("B", 2, 2)
    ok, v = guarded(w, rep, "C08.API", "SE23LieGroup.exp_mixed(X0, l, r, B)", lambda: w.call(G, "exp_mixed", X0, l, r, B))
    if ok:
        rep.check("C08.API", "SE23LieGroup.exp_mixed returns an element of the group", isinstance(v, Instance) and v.attrs.get("group") is G, "exp_mixed does not return a group element", where=We)
    ok2, v2 = guarded(w, rep, "C08.API", "SE23LieGroupElement.exp_mixed(l, r, B)", lambda: w.call(X0, "exp_mixed", l, r, B))
    if ok2 and ok:
        verdict(rep, "C08.API", "element-level exp_mixed = group-level exp_mixed on the same element", w.param(v2), w.param(v), (), w.method_where(X0, "exp_mixed")[:2],
                "element sugar does not forward to the group operation with itself as X0")
    uses = []

    def shook(node, module, fn, arg):
        sf = w.fe.module_file(module) if module else None
        chain = list(w.it.stack)
        uses.append((chain[-1][0] if chain else "<module>", sf.rel if sf else (module or "?"), getattr(node, "lineno", 0), fn.key, fn.squared, arg))
    w.it.series_hook = shook
    try:
        ok, eqs = guarded(w, rep, "C08.API", "derive_strapdown_ins_propagation()", lambda: w.callf(rdd2["derive_strapdown_ins_propagation"]))
    finally:
        w.it.series_hook = None
    # the coefficients of the closed-form N block: right table for the kind of argument (rule shared with C06.consumers;
    # seeded C08-6 read C3 from the plain table with theta^2, same key in both tables)
    from .c06 import check_series_consumers
    check_series_consumers(w, rep, uses, "C08.series")
    rep.floor("C08.series", 5)
    # "no discretisation error for any dt": below its switch a coefficient is a truncated polynomial, exact to rounding only
    # because the switch sits at 1e-3 with six terms. An entry read by the propagation that widens its switch or shortens
    # its polynomial (seeded C08-14: eps=1.0, three terms in theta^2 for the C3 coefficient) puts every step with
    # |omega| dt below the new threshold on a polynomial whose truncation error is visible (2.6e-7 relative in position).
    from .c06 import check_table
    used_keys = {u[3] for u in uses}
    check_table(w, rep, rule="C08.table", keys=used_keys, floor=6 + len(used_keys))
    if not ok:
        return
    f = eqs.get("strapdown_ins_propagate") if isinstance(eqs, dict) else None
    if not isinstance(f, cm.FunctionVal):
        rep.fail("C08.sig", "strapdown_ins_propagate is exported", "derive_strapdown_ins_propagation does not return {'strapdown_ins_propagate': Function}", where=Wd)
        return
    shapes = [i.shape for i in f.ins]
    good = shapes == [(10, 1), (3, 1), (3, 1), (1, 1), (1, 1)] and [o.shape for o in f.outs] == [(10, 1)]
    rep.check("C08.sig", "strapdown_ins_propagate(x0[10], a_b[3], omega_b[3], g, dt) -> x1[10]", good and f.in_names == ["x0", "a_b", "omega_b", "g", "dt"],
              "signature is %s %s -> %s" % (f.in_names, shapes, [o.shape for o in f.outs]), where=Wd)
    if not good:
        return
    x0 = w.sym("x0", 10)
    a = w.sym("a_b", 3)
    om = w.sym("omega_b", 3)
    g = w.sym("g")
    dt = w.sym("dt")
    qa = tuple(sym_atoms_of(x0)[6:10])
    Q = w.G("SO3Quat")
    with with_maxdeg(44):
        okc, x1 = guarded(w, rep, "C08.ode", "closed form", lambda: closed(w, f(x0, a, om, g, dt)))
        if not okc:
            return
        d = mat_diff(x1, dt.s().single_atom())
        p1, v1, q1 = w.sl(x1, 0, 3), w.sl(x1, 3, 6), w.sl(x1, 6, 10)
        verdict(rep, "C08.ode", "d p1/d dt = v1", w.sl(d, 0, 3), v1, [qa], We, "position does not integrate the velocity")
        R1 = w.call(w.elem(Q, q1), "to_Matrix")
        e3 = cm.to_mat([0, 0, 1])
        rhs = cm.ew(cm.matmul(R1, a), cm.ew(g, e3, cm.pmul), cm.psub)
        verdict(rep, "C08.ode", "d v1/d dt = R(q1) a_b - g e3", w.sl(d, 3, 6), rhs, [qa], We, "velocity does not integrate rotated specific force minus gravity")
        qw = w.elem(Q, cm.vertcat(0, om))
        rhsq = cm.ew(w.param(w.call(Q, "product", w.elem(Q, q1), qw)), Fraction(1, 2), cm.pmul)
        verdict(rep, "C08.ode", "d q1/d dt = 1/2 q1 * (0, omega_b)", w.sl(d, 6, 10), rhsq, [qa], We, "attitude does not integrate the body rate")
        okz, x10 = guarded(w, rep, "C08.init", "dt = 0", lambda: closed(w, f(x0, a, om, g, 0)))
        if okz:
            verdict(rep, "C08.init", "x1(dt = 0) = x0", x10, x0, [qa], We, "a zero step is not the identity")
        verdict(rep, "C08.norm", "|q1|^2 = 1 when |q0| = 1", cm.sumsqr(q1), cm.scalar(cm.ONE), [qa], We, "the propagated quaternion does not keep unit norm")
    # zero rate / zero step: nothing singular may be evaluated on the selected path (the ring identifies 0 * (1/0) with 0,
    # so the closed-form rules above cannot see an inline quotient by theta^2; constant propagation of the zero does)
    from ..pointscan import Scan
    from fractions import Fraction as Fr
    raw = f(x0, a, om, g, dt)
    for label, pt in (("omega_b = 0 (hover, rest)", {at: Fr(0) for at in sym_atoms_of(om)}), ("dt = 0", {dt.s().single_atom(): Fr(0)})):
        sc = Scan(pt)
        for p_ in raw.flat():
            sc.poly(p_)
        inst = "strapdown_ins_propagate at %s evaluates no singular operator" % label
        if sc.flags:
            a0, why = sc.flags[0]
            rep.fail("C08.regular", inst, "%s [%s]: the propagated state is NaN there" % (why, short(Poly.atom(a0), 100)), where=We)
        else:
            rep.ok("C08.regular", inst, fact={"atoms_visited": len(sc.memo)})
    rep.floor("C08.regular", 2)
    rep.floor("C08.ode", 3)
    rep.undecided_clause("the Taylor branch for |omega|^2 dt^2 < 1e-3 (C06) and floating-point error")
