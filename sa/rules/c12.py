"""C12 - closed-loop convergence of the attitude estimator: only necessary structural conditions (DESIGN 4, C12)."""
import ast

from .common import *
from .liecommon import *
from .c03 import is_shadowed
from ..frontend import AnchorMissing
from ..poly import Poly, all_atoms, poly_syms, deep_subs

MRP = "cyecca.estimate.attitude.algorithms.mrp"
EST_REL = "cyecca/estimate/attitude/estimator.py"
SIM = "cyecca.estimate.attitude.algorithms.sim"


def zero_inputs(f, names):
    """Call f on its own input symbols with the named inputs replaced by zeros."""
    args = []
    for n, i in zip(f.in_names, f.ins):
        args.append(MatVal(i.r, i.c) if n in names else i)
    return f(*args)


def check_writeback(w, rep):
    mod = w.mod(MRP)
    for name in ("correct_mag", "correct_accel"):
        if name not in mod:
            raise AnchorMissing("%s.%s" % (MRP, name))
        W = w.where(MRP, name)
        ok, f = guarded(w, rep, "C12.API", "mrp.%s()" % name, lambda: w.callf(mod[name]))
        if not ok or not isinstance(f, cm.FunctionVal):
            continue
        I = dict(zip(f.in_names, f.ins))
        O = dict(zip(f.out_names, f.outs))
        ret = O["error_code"].s()
        cond = cm._cmp("eq", ret, cm.ZERO)
        acc = assign_ites(f.outs[0], {cond: True})
        x = I["x"]
        labels = ["attitude r[0]", "attitude r[1]", "attitude r[2]", "gyro bias x", "gyro bias y", "gyro bias z"]
        for k in range(x.r):
            same = acc.cells[k][0] == x.cells[k][0]
            rep.check("C12.writeback", "%s: accepted correction updates state[%d] (%s)" % (name, k, labels[k] if k < 6 else "?"), not same,
                      "on the accepted branch state[%d] (%s) is identical to the prior for every input: this component can never be corrected by %s" % (k, labels[k] if k < 6 else "?", name),
                      where=W, fact={"cell": k})
        # the update is the group product exp(K r) * x on SO3Mrp x R3, written back in full
        G = mod.get("G")
        if G is not None:
            upd = [a for a in all_atoms(acc.cells[5][0]) if a.kind in ("qrR",)]
            rep.check("C12.writeback", "%s: the bias update depends on the Kalman gain" % name, bool(upd), "bias update does not involve the gain", where=W)
    rep.floor("C12.writeback", 12)


def principal(M, r):
    """M on the principal MRP set |r|^2 <= 1 of the true attitude r: selections `1 < r.r` answered False.  The truth MRP is
    shadow-switched after every step (decided below under C12.sensors), so the other side is never evaluated in a run."""
    from .c07 import shadow_conditions
    rr = cm.sumsqr(r).s()
    sc = [c for c in shadow_conditions(M) if decide(c.single_atom().key[1], rr) == EQUAL]
    return assign_ites(M, {c: False for c in sc}) if sc else M


def check_sensors(w, rep):
    sim = w.mod(SIM)
    Mr = w.G("SO3Mrp")
    W = lambda fn: w.where(SIM, fn)
    fs = {}
    for fn in ("simulate", "measure_gyro", "measure_accel", "measure_mag", "get_state", "constants", "rotation_error"):
        if fn not in sim:
            raise AnchorMissing("%s.%s" % (SIM, fn))
        ok, f = guarded(w, rep, "C12.API", "sim.%s()" % fn, lambda fn=fn: w.callf(sim[fn]))
        if ok and isinstance(f, cm.FunctionVal):
            fs[fn] = f
    with with_maxdeg(30):
        if "measure_accel" in fs:
            f = fs["measure_accel"]
            I = dict(zip(f.in_names, f.ins))
            y = principal(zero_inputs(f, {"std_accel", "w_accel"}), w.sl(I["x"], 0, 3))
            R = w.call(w.elem(Mr, w.sl(I["x"], 0, 3)), "to_Matrix")
            want = cm.matmul(cm.transpose(R), cm.ew(cm.to_mat([0, 0, -1]), I["g"], cm.pmul))
            verdict(rep, "C12.sensors", "noise-free accelerometer = R(r)^T (0, 0, -g) with R the MRP rotation matrix", y, want, (), W("measure_accel"), "simulated accelerometer does not rotate gravity with the true attitude")
            verdict(rep, "C12.sensors", "noise-free accelerometer has magnitude g", cm.sumsqr(y), cm.ew(I["g"], I["g"], cm.pmul), (), W("measure_accel"), "simulated accelerometer magnitude is not g")
        if "measure_mag" in fs:
            f = fs["measure_mag"]
            I = dict(zip(f.in_names, f.ins))
            y = principal(zero_inputs(f, {"std_mag", "w_mag"}), w.sl(I["x"], 0, 3))
            R = w.call(w.elem(Mr, w.sl(I["x"], 0, 3)), "to_Matrix")
            # field in the navigation frame = reading at the identity attitude (r = 0)
            from .c16 import subs_syms
            y0 = subs_syms(y, {a: Poly() for a in sym_atoms_of(I["x"])[:3]})
            verdict(rep, "C12.sensors", "noise-free magnetometer = R(r)^T B_n with B_n the reading at the identity attitude", y, cm.matmul(cm.transpose(R), y0), (), W("measure_mag"),
                    "simulated magnetometer does not rotate the field with the true attitude")
            with with_maxdeg(40):
                verdict(rep, "C12.sensors", "navigation-frame field has magnitude mag_str", closed(w, cm.sumsqr(y0)), cm.ew(I["mag_str"], I["mag_str"], cm.pmul), (), W("measure_mag"),
                        "simulated magnetic field magnitude is not the configured strength", unknown_ok=True)
            # the estimator's magnetometer innovation is decl - atan2(y_n[1], y_n[0]) (checked below to be its form):
            # it vanishes at the true attitude only if the horizontal part of the simulated field points along the
            # declination, B_y cos(decl) - B_x sin(decl) = 0 (a necessary condition of convergence to the truth).
            with with_maxdeg(40):
                B = closed(w, y0)
                d = I["mag_decl"]
                hz = cm.ew(cm.ew(w.sl(B, 1, 2), cm.CA.cos(d), cm.pmul), cm.ew(w.sl(B, 0, 1), cm.CA.sin(d), cm.pmul), cm.psub)
                inst = "horizontal direction of the simulated navigation-frame field is the declination (B_y cos d - B_x sin d = 0)"
                vd, det = decide_by_cases(hz, MatVal(1, 1))          # split on the signs of decl / incl (exp goes through |angle|)
                if vd == EQUAL:
                    rep.ok("C12.sensors", inst)
                elif vd == DIFFERENT:
                    rep.fail("C12.sensors", inst, "the simulated field's heading differs from the declination the estimator subtracts, the yaw estimate converges to a biased value: %s" % det, where=W("measure_mag"))
                else:
                    # last resort: Taylor coefficients in (decl, incl) at 0 (sa/taylor.py): a differing coefficient proves
                    # that the expression is not identically zero
                    from ..taylor import expand
                    va = [I["mag_decl"].s().single_atom(), I["mag_incl"].s().single_atom()]
                    tl = expand(hz.s(), va, 5)
                    nz = {m: c for m, c in (tl or {}).items() if c.t}
                    if tl is not None and nz:
                        m0 = min(nz, key=lambda m: (sum(m), m))
                        rep.fail("C12.sensors", inst, "the simulated field's heading differs from the declination the estimator subtracts: the Taylor coefficient of decl^%d incl^%d of B_y cos d - B_x sin d is %s, not 0 "
                                 "(the yaw estimate converges to a biased value when both angles are non-zero)" % (m0[0], m0[1], short(nz[m0], 60)), where=W("measure_mag"), fact={"taylor_order": sum(m0)})
                    else:
                        rep.incomplete("C12.sensors", inst, "cannot decide: %s" % det, where=W("measure_mag"))
        emod = w.mod(MRP)
        if "correct_mag" not in emod:
            raise AnchorMissing("%s.correct_mag" % MRP)
        okm, g = guarded(w, rep, "C12.API", "mrp.correct_mag() for the innovation", lambda: w.callf(emod["correct_mag"]))
        if okm and isinstance(g, cm.FunctionVal) and g.in_names and g.out_names and {"x", "y_b", "decl"} <= set(g.in_names) and "r_mag" in g.out_names:
            I = dict(zip(g.in_names, g.ins))
            O = dict(zip(g.out_names, g.outs))
            Rn = w.call(w.elem(Mr, w.sl(I["x"], 0, 3)), "to_Matrix")
            yn = cm.matmul(Rn, I["y_b"])
            want = cm.ew(I["decl"], cm.CA.atan2(w.sl(yn, 1, 2), w.sl(yn, 0, 1)), cm.psub)
            verdict(rep, "C12.sensors", "estimator's magnetometer innovation = decl - atan2((R y)_y, (R y)_x)", O["r_mag"], want, (), w.where(MRP, "correct_mag"),
                    "the magnetometer innovation is not the declination minus the measured heading in the navigation frame")
        if "measure_gyro" in fs:
            f = fs["measure_gyro"]
            I = dict(zip(f.in_names, f.ins))
            y = zero_inputs(f, {"std_gyro", "w_gyro"})
            verdict(rep, "C12.sensors", "noise-free gyro = true rate + bias", y, cm.ew(I["omega_t"], w.sl(I["x"], 3, 6), cm.padd), (), W("measure_gyro"), "simulated gyro is not rate plus bias")
        if "simulate" in fs:
            (fsim, seen) = capture_calls(w, "shadow_if_necessary", lambda: w.callf(sim["simulate"]), self_is=Mr)
            good = bool(seen) and isinstance(seen[-1].get("arg"), Instance) and isinstance(fsim, cm.FunctionVal) and mat_equal(w.sl(fsim.outs[0], 0, 3), w.param(seen[-1]["arg"]))
            rep.check("C12.sensors", "truth propagation: the propagated MRP is passed through shadow_if_necessary and written back", good,
                      "the simulated MRP is not shadow-switched after the integration step", where=W("simulate"))
        if "simulate" in fs:
            check_rk4_callables(w, rep, "C12.sensors", "sim.simulate", lambda: w.callf(sim["simulate"]), W("simulate"))
        if "get_state" in fs:
            f = fs["get_state"]
            I = dict(zip(f.in_names, f.ins))
            q = w.param(w.call(w.G("SO3Quat"), "from_Mrp", w.elem(Mr, w.sl(I["x"], 0, 3))))
            verdict(rep, "C12.sensors", "get_state: q = SO3Quat.from_Mrp(r), r, b are slices of the state", cm.vertcat(*f.outs), cm.vertcat(q, w.sl(I["x"], 0, 3), w.sl(I["x"], 3, 6)), (), W("get_state"), "published truth state is not (quaternion of r, r, bias)")
        # estimator-side measurement model agrees with the simulator's sensor
        est = [g for g in cm.FunctionVal.registry if g.fname == "measure_accel" and g.module == MRP]
        if est and "measure_accel" in fs:
            g = est[-1]
            x, gg = w.sym("x", 6), w.sym("g")
            ya = principal(g(x, gg), w.sl(x, 0, 3))
            yb = principal(fs["measure_accel"](x, gg, 0, MatVal(3, 1)), w.sl(x, 0, 3))
            verdict(rep, "C12.sensors", "estimator's accelerometer model = simulator's noise-free accelerometer", ya, yb, (), W("measure_accel"), "the estimator predicts a different accelerometer reading than the simulator produces for the same state")
    rep.floor("C12.sensors", 6)


def eqs_call_sites(sf, root_keys):
    """Calls of the form self.eqs[k1][k2]...(args) -> (keys, call node, parent)"""
    out = []
    for node in ast.walk(sf.tree):
        if not isinstance(node, ast.Call):
            continue
        keys = []
        f = node.func
        while isinstance(f, ast.Subscript) and isinstance(f.slice, ast.Constant) and isinstance(f.slice.value, str):
            keys.append(f.slice.value)
            f = f.value
        if keys and ast.unparse(f) in ("self.eqs", "eqs"):
            out.append((list(reversed(keys)), node))
    return out


def check_wiring(w, rep):
    alg = w.mod("cyecca.estimate.attitude.algorithms")
    ok, eqs = guarded(w, rep, "C12.API", "algorithms.eqs()", lambda: w.callf(alg["eqs"]))
    if not ok:
        return
    for rel, root in (("cyecca/estimate/attitude/estimator.py", lambda: eqs.get("mrp")), ("cyecca/estimate/attitude/simulator.py", lambda: eqs)):
        sf = w.fe.get(rel)
        n = 0
        for keys, call in eqs_call_sites(sf, None):
            cur = root()
            good = True
            for k in keys:
                if isinstance(cur, dict) and k in cur:
                    cur = cur[k]
                else:
                    good = False
                    break
            inst = "%s: eqs%s" % (rel.split("/")[-1], "".join("[%r]" % k for k in keys))
            if not good or not isinstance(cur, cm.FunctionVal):
                rep.fail("C12.wiring", inst + " names a shipped function", "no function under that key in the equation set handed to this node", where=(rel, call.lineno))
                continue
            n += 1
            if call.keywords or any(isinstance(a, ast.Starred) for a in call.args):
                rep.ok("C12.wiring", inst + " (keyword call)")
                continue
            if len(call.args) == 0 and len(cur.ins) == 0:
                rep.ok("C12.wiring", inst + " takes no arguments")
            else:
                rep.check("C12.wiring", inst + " is called with %d arguments" % len(cur.ins), len(call.args) == len(cur.ins),
                          "%d positional arguments passed, the function declares %d inputs %s" % (len(call.args), len(cur.ins), cur.in_names), where=(rel, call.lineno))
            par = getattr(call, "_parent", None)
            if isinstance(par, ast.Assign) and len(par.targets) == 1 and isinstance(par.targets[0], (ast.Tuple, ast.List)):
                k = len(par.targets[0].elts)
                rep.check("C12.wiring", inst + " unpacks %d results" % len(cur.outs), k == len(cur.outs), "%d names unpacked, the function declares %d outputs %s" % (k, len(cur.outs), cur.out_names), where=(rel, call.lineno))
    rep.floor("C12.wiring", 12)


def _code_leaves(p, path=()):
    a = p.single_atom()
    if a is not None and a.kind == "ite":
        yield from _code_leaves(a.key[1], path + ((a.key[0], True),))
        yield from _code_leaves(a.key[2], path + ((a.key[0], False),))
    else:
        yield path, p


INJECTIVE = ("asin", "acos", "atan", "sqrt", "exp", "log", "sinh", "asinh", "tanh")


def _peel_scaling(d1, d2, la, depth=4):
    """d = (+-) h(u) + const with h injective: degree n such that u(lam B) = lam^n u(B), or None when undecided."""
    if depth == 0:
        return None
    def inner(d):
        is_const = lambda m: all(x.kind == "sym" and x.key[0] == "pi" for x, _ in m)
        nc = [(m, c) for m, c in d.t.items() if not is_const(m)]
        if len(nc) != 1 or len(nc[0][0]) != 1 or nc[0][0][0][1] != 1:
            return None
        a = nc[0][0][0][0]
        if a.kind in INJECTIVE and isinstance(a.key[0], Poly):
            return a.kind, a.key[0], nc[0][1], Poly({m: c for m, c in d.t.items() if is_const(m)})
        return None
    i1, i2 = inner(d1), inner(d2)
    if i1 is None or i2 is None or i1[0] != i2[0] or i1[2] != i2[2] or i1[3] != i2[3]:
        return None
    u1, u2 = i1[1], i2[1]
    for n in (0, 1, 2, 3, 4):
        if decide(u2, u1 * Poly({((la, n),): 1}) if n else u1) == EQUAL:
            return n
    r = _peel_scaling(u1, u2, la, depth - 1)
    return r


def check_gates(w, rep):
    """Rejection tests that can starve the filter for a whole run (necessary conditions of convergence):
    (1) the magnetometer correction's rejection tests must not depend on the heading uncertainty W[2, .]: the heading is
        observed by this correction only (H = e3^T), it starts large, and a test on it can never be passed again;
    (2) initialize(): the error code is invariant under a positive scaling of the measured field B (its tests concern
        directions; the simulator's field strength is a free parameter, 0.1 by default)."""
    mod = w.mod(MRP)
    R = "C12.gates"
    for need in ("correct_mag", "initialize"):
        if need not in mod:
            raise AnchorMissing("%s.%s" % (MRP, need))
    ok, f = guarded(w, rep, "C12.API", "mrp.correct_mag() for its gates", lambda: w.callf(mod["correct_mag"]))
    if ok and isinstance(f, cm.FunctionVal) and "W" in (f.in_names or []) and "error_code" in (f.out_names or []):
        I = dict(zip(f.in_names, f.ins))
        O = dict(zip(f.out_names, f.outs))
        Wm = I["W"]
        row2 = {p_.single_atom() for p_ in [Wm.cells[2][j] for j in range(Wm.c)] + [Wm.cells[i][2] for i in range(Wm.r)] if p_.single_atom() is not None}
        used = set()
        for c in ite_conditions(O["error_code"]):
            used |= {a for a in all_atoms(c) if a in row2}
        rep.check(R, "correct_mag: rejection tests do not depend on the heading uncertainty W[2,.]", not used,
                  "a rejection test of the magnetometer correction depends on %s: the heading uncertainty is reduced by this correction only, so while it is large every magnetometer sample is rejected and it stays large (the heading never converges)"
                  % sorted(repr(a) for a in used), where=w.where(MRP, "correct_mag"))
    ok, f = guarded(w, rep, "C12.API", "mrp.initialize() for its gates", lambda: w.callf(mod["initialize"]))
    if ok and isinstance(f, cm.FunctionVal) and f.in_names == ["g_b", "B_b", "decl"] and "error_code" in (f.out_names or []):
        g, B, d, lam = w.sym("g_b", 3), w.sym("B_b", 3), w.sym("decl"), w.sym("lam")
        la = lam.s().single_atom()
        k = f.out_names.index("error_code")
        with with_maxdeg(30):
            c1 = f(g, B, d)[k].s()
            c2 = pull_positive(f(g, cm.ew(B, lam, cm.pmul), d)[k].s(), la)
            l1, l2 = list(_code_leaves(c1)), list(_code_leaves(c2))
            inst = "initialize: error code is invariant under B -> lam B (lam > 0)"
            bad = None
            unknown = None
            if len(l1) != len(l2) or [v.const_value() for _, v in l1] != [v.const_value() for _, v in l2]:
                bad = "the error-code tree changes shape under scaling"
            else:
                seen = set()
                for (p1, _), (p2, _) in zip(l1, l2):
                    for (ca_, _t), (cb_, _t2) in zip(p1, p2):
                        if ca_ in seen:
                            continue
                        seen.add(ca_)
                        a1, a2 = ca_.single_atom(), cb_.single_atom()
                        if a1 is None or a2 is None or a1.kind != a2.kind or a1.kind not in ("lt", "le"):
                            unknown = "condition %s is not an order comparison" % short(ca_, 60)
                            continue
                        d1, d2 = a1.key[1] - a1.key[0], a2.key[1] - a2.key[0]
                        verdicts = [decide(d2, d1 * Poly({((la, n),): 1}) if n else d1) for n in (0, 1, 2)]
                        if EQUAL in verdicts:
                            continue
                        if all(v == DIFFERENT for v in verdicts):
                            bad = "the test %s changes with the field strength: %s  becomes  %s" % (short(ca_, 80), short(d1, 80), short(d2, 80))
                        else:
                            # h(u) compared with a constant, h injective: invariant iff u is; peel h and look at u
                            v = _peel_scaling(d1, d2, la)
                            if v is None:
                                unknown = "cannot decide homogeneity of %s" % short(ca_, 80)
                            elif v != 0:
                                bad = "the test %s compares a quantity that scales like |B|^%d with a constant" % (short(ca_, 80), v)
            if bad:
                rep.fail(R, inst, bad + " - initialisation is rejected or accepted depending on |B| (the simulated field has strength mag_str, 0.1 by default)", where=w.where(MRP, "initialize"))
            elif unknown:
                rep.incomplete(R, inst, unknown, where=w.where(MRP, "initialize"))
            else:
                rep.ok(R, inst, fact={"conditions": len(seen)})
    # (3) started at zero (x = 0 is the estimator's state without initialisation), a noise-free accelerometer sample of
    #     any true attitude must be accepted: the state carries no information about the truth yet, so a test that
    #     compares the sample with the state's prediction locks the filter out.  Constant folding at rational points.
    if "correct_accel" in mod:
        sim = w.mod(SIM)
        ok, f = guarded(w, rep, "C12.API", "mrp.correct_accel() for its gate", lambda: w.callf(mod["correct_accel"]))
        ok2, fs = guarded(w, rep, "C12.API", "sim.measure_accel() for the accel gate", lambda: w.callf(sim["measure_accel"])) if "measure_accel" in sim else (False, None)
        if ok and ok2 and isinstance(f, cm.FunctionVal) and isinstance(fs, cm.FunctionVal) and "error_code" in (f.out_names or []) \
                and {"x", "y_b", "g"} <= set(f.in_names or []) and (fs.in_names or [])[:2] == ["x", "g"]:
            from fractions import Fraction as Fr
            from ..pointscan import Scan
            k = f.out_names.index("error_code")
            gval = Fr(49, 5)
            pts = [(Fr(1, 10), 0, 0), (0, Fr(1, 10), 0), (Fr(3, 50), Fr(4, 50), Fr(3, 10)), (0, 0, Fr(1, 5))]
            rejected, folded = [], 0
            for r in pts:
                xt = cm.to_mat([Poly.const(v) for v in r] + [Poly()] * 3)
                rest = [MatVal(i.r, i.c) for i in fs.ins[2:]]            # noise inputs: zero
                y = fs(xt, cm.to_mat(gval), *rest)
                y = y[0] if isinstance(y, (list, tuple)) else y
                args = []
                for nm, i in zip(f.in_names, f.ins):
                    args.append(MatVal(i.r, i.c) if nm == "x" else y if nm == "y_b" else cm.to_mat(gval) if nm == "g" else i)
                code = f(*args)[k].s()
                v = Scan({}).poly(code)
                if v is None:
                    continue
                folded += 1
                if v != 0:
                    rejected.append("true MRP %s -> error_code %s" % ("(%s)" % ", ".join(str(c) for c in r), v))
            inst = "correct_accel: started at zero, a noise-free sample (|y| = g) of a tilted true attitude is accepted"
            if rejected:
                rep.fail(R, inst, "with the estimator state at zero the accelerometer correction rejects a valid sample: %s - the tilt is observed by this correction only, so the estimate never leaves zero (and the magnetometer correction stays blocked on the roll/pitch uncertainty)"
                         % "; ".join(rejected), where=w.where(MRP, "correct_accel"))
            elif folded:
                rep.ok(R, inst, fact={"points": folded})
            else:
                rep.na(R, inst, "the error code does not fold to a constant at the rational test points")
    rep.floor(R, 2)


def check_schedule(w, rep):
    """Every correction must be able to run for any configured rates (C12 quantifies over rate settings): the C20
    rate-limit rule is evaluated on a scratch report and only the verdicts that bear on convergence are kept - a gate
    that can never open (elapsed time measured since the previous message, or a reversed comparison) starves the
    correction; a gate that is too permissive does not affect convergence and is left to C20."""
    from . import c20
    from ..report import Report
    scratch = Report("C20", "quick")
    cx = c20.Ctx(w, scratch)
    for rel in (c20.UROS, c20.MSGS, c20.EST):
        cx.fe.get(rel)
    c20.rule_estimator(cx, {})
    n = 0
    for o in scratch.obs:
        if o.rule == "C20.est-rate-limit" and isinstance(o.fact, dict) and o.fact.get("starves"):
            n += 1
            rep.fail("C12.schedule", o.instance + " can run: its rate gate opens once the minimum period has elapsed since the last applied correction", o.fact["starves"],
                     where=tuple(o.fact.get("starves_where") or (EST_REL, 1)))
            continue
        if o.rule != "C20.est-rate-limit" or not o.instance.endswith("is rate limited"):
            continue
        inst = o.instance.replace("is rate limited", "can run: its rate gate opens once the minimum period has elapsed since the last applied correction")
        n += 1
        if o.status == "ok":
            rep.ok("C12.schedule", inst, fact=o.fact)
        elif o.status == "fail" and "SHORTER" in o.msg:
            rep.fail("C12.schedule", inst, o.msg, where=(o.file, o.line))
        elif o.status == "incomplete":
            rep.incomplete("C12.schedule", inst, o.msg, where=(o.file, o.line))
        else:
            rep.na("C12.schedule", inst, "gate is permissive (C20's concern), the correction still runs: %s" % o.msg)
    # ... and every IMU sample with a positive step must reach predict (a dropped sample loses its rotation increment)
    for o in scratch.obs:
        if o.rule == "C20.est-predict-dt":
            inst = o.instance.replace("AttitudeEstimator.imu_callback predict", "every IMU sample with dt > 0 is propagated: imu_callback predict")
            skipped = (o.fact or {}).get("skips_positive_steps_up_to", 0) if isinstance(o.fact, dict) else 0
            if o.status == "ok" and skipped:
                rep.fail("C12.schedule", inst, "IMU samples with 0 < dt <= %g are skipped (guard %s) although their time stamp is consumed: at a sensor period at or below that value the rotation "
                         "increments are lost and the estimate cannot follow the vehicle" % (skipped, o.fact.get("guard")), where=(EST_REL, 1))
            elif o.status == "ok":
                rep.ok("C12.schedule", inst, fact=o.fact)
            elif o.status == "fail":
                rep.fail("C12.schedule", inst, o.msg, where=(o.file, o.line))
            elif o.status == "incomplete":
                rep.incomplete("C12.schedule", inst, o.msg, where=(o.file, o.line))
    check_sim_publish(w, rep)
    rep.floor("C12.schedule", 2)


SIMNODE_REL = "cyecca/estimate/attitude/simulator.py"


def check_sim_publish(w, rep):
    """Simulator side of the schedule: a sensor's publication sits under its own rate gate and must not sit in the
    else-branch of ANOTHER sensor's rate gate - for rate settings in which every simulator step is a step of that other
    sensor (dt_sim >= its period) the publication would never happen."""
    sf = w.fe.get(SIMNODE_REL)
    parents = {}
    for n in ast.walk(sf.tree):
        for c in ast.iter_child_nodes(n):
            parents[c] = n

    def stamps(test):
        return {a.attr for a in ast.walk(test) if isinstance(a, ast.Attribute) and a.attr.startswith("t_last") and isinstance(a.value, ast.Name) and a.value.id == "self"}

    found = 0
    for fn in ast.walk(sf.tree):
        if not isinstance(fn, (ast.FunctionDef,)):
            continue
        for call in ast.walk(fn):
            if not (isinstance(call, ast.Call) and isinstance(call.func, ast.Attribute) and call.func.attr == "publish"
                    and isinstance(call.func.value, ast.Attribute) and isinstance(call.func.value.value, ast.Name) and call.func.value.value.id == "self"):
                continue
            pub = call.func.value.attr
            pos, neg = set(), set()
            cur = call
            while cur in parents and parents[cur] is not fn:
                par = parents[cur]
                if isinstance(par, ast.If) and cur is not par.test:
                    (neg if any(cur is x for x in par.orelse) else pos).update(stamps(par.test))
                cur = par
            if parents.get(cur) is not fn:
                continue                                            # nested def: reported with that def
            if not pos and not neg:
                continue                                            # not rate limited (e.g. parameter broadcast)
            found += 1
            inst = "Simulator.%s: self.%s.publish is not disabled by another sensor's schedule" % (fn.name, pub)
            other = neg - pos
            if other:
                rep.fail("C12.schedule", inst, "the publication happens only on steps on which the gate on self.%s is CLOSED: with a simulator step at or above that sensor's period the gate is open on every step and "
                         "this topic is never published (the estimator never gets the sample: no initialisation / no correction)" % ", self.".join(sorted(other)), where=(SIMNODE_REL, call.lineno))
            else:
                rep.ok("C12.schedule", inst, fact={"own_gate": sorted(pos)})
    if found < 2:
        rep.na("C12.schedule", "Simulator: rate-limited publications found", "expected the IMU and magnetometer publications under their rate gates, found %d (publication moved out of the gated blocks: nothing to decide by this rule)" % found)


def run(w, rep, tier):
    rep.rule("C12.API", "estimator and simulator equation builders resolve")
    rep.rule("C12.writeback", "on the accepted branch of each correction no state component is identical to its prior for all inputs (a pinned component can never converge)")
    rep.rule("C12.sensors", "simulated sensors: accelerometer = R(r)^T(0,0,-g) with |.| = g, magnetometer magnitude mag_str and heading = declination (the angle the estimator subtracts), gyro = rate + bias; truth MRP shadow-switched; estimator and simulator accelerometer models agree")
    rep.rule("C12.schedule", "accelerometer and magnetometer corrections are reachable for every rate setting: the rate gate compares the time since the last APPLIED correction with the minimum period in the right direction (rule shared with C20); simulator publications are not nested under another sensor's closed rate gate")
    rep.rule("C12.gates", "rejection tests that would starve the filter: the magnetometer gate does not depend on the heading uncertainty W[2,.]; initialize's error code is invariant under positive scaling of the measured field; started at zero, the accelerometer gate accepts noise-free samples of tilted true attitudes (constant propagation at rational points)")
    rep.rule("C12.wiring", "every eqs[...](...) call in estimator.py / simulator.py names a shipped function with matching argument and result counts")
    check_writeback(w, rep)
    check_sensors(w, rep)
    check_wiring(w, rep)
    check_schedule(w, rep)
    check_gates(w, rep)
    rep.undecided_clause("convergence of the estimate over a run (a property of trajectories of three interleaved processes): NOT decided; only necessary conditions are")
