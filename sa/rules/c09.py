"""C09 - generated C code: function sets, signatures, generator discipline and CasADi's option contract (DESIGN 4, C09)."""
import ast

from .common import *
from ..absint import Env, Stub
from ..frontend import AnchorMissing
from ..poly import poly_syms

# CasADi 3.8 CodeGenerator options (casadi/core/code_generator.cpp); anything else raises "Unrecognized option" (:144);
# with_mem without force_canonical raises (:149).
CASADI_OPTIONS = {"verbose", "verbose_runtime", "mex", "cpp", "main", "casadi_real", "casadi_int", "codegen_scalars", "with_header", "with_mem", "with_export",
                  "with_import", "include_math", "infinity", "nan", "real_min", "indent", "avoid_stack", "prefix", "max_declarations_per_line",
                  "max_initializer_elements_per_line", "force_canonical", "unroll_args", "with_sfunction"}

MODEL_MODULES = [("cyecca.models.rdd2", "rdd2.c"), ("cyecca.models.rdd2_loglinear", "rdd2_loglinear.c"), ("cyecca.models.bezier", "bezier.c")]
# derive_* functions that are not exported by their module's __main__ on purpose (simulation-only at the pinned commit)
EXEMPT = {("cyecca.models.rdd2", "derive_attitude_estimator"): "covariance propagation prototype used only by scripts/rdd2_sim.py",
          ("cyecca.models.bezier", "derive_eulerB321_to_quat"): "helper used only by scripts/rdd2_sim.py"}


def contract(opts):
    """-> list of reasons CasADi would refuse these options."""
    out = []
    if not isinstance(opts, dict):
        return ["options are not a dict"]
    for k in opts:
        if k not in CASADI_OPTIONS:
            out.append("unrecognized option %r (code_generator.cpp:144)" % k)
    if truthy(opts.get("with_mem")) and not truthy(opts.get("force_canonical")):
        out.append("with_mem=True without force_canonical=True (code_generator.cpp:149)")
    return out


def truthy(v):
    return bool(v) if isinstance(v, (bool, int)) else False


def run_generator(w, rep, rule, label, thunk, where):
    """Runs an export path with a recording CodeGenerator.  Branches on the state of the outside world (file exists,
    time stamps: unmodelled library values) are answered False on the first run; if any was met, the path is run again
    answering True, and what is generated must not depend on the answer (the emitted C corresponds to the equation set
    handed in, whatever is already on disk)."""
    asked = []

    def oracle_for(ans):
        def oracle(stub, node):
            asked.append((getattr(node, "lineno", 0), repr(stub)))
            return ans
        return oracle
    old = w.it.branch_oracle
    sig = lambda gs: [(g.filename, [getattr(f, "fname", "?") for f in g.added], [e[0] for e in g.events]) for g in gs]
    try:
        # answer True first, False last: the state left behind (exported dictionaries the caller inspects) is the one of
        # the ordinary run
        w.it.branch_oracle = oracle_for(True)
        cm.FS.clear()
        before = len(cm.CodeGeneratorVal.registry)
        ok_t, _ = guarded(w, rep, rule, label + " (library conditions answered True)", thunk) if True else (False, None)
        gens_t = cm.CodeGeneratorVal.registry[before:]
        met = list(asked)
        def files_survive(ok_, gs):
            # abstract file system: what one generator wrote must not be removed or overwritten before the call returns
            paths = [g.path for g in gs if g.path is not None]
            if ok_ and paths:
                gone = [p_ for p_ in paths if p_ not in cm.FS]
                twice = sorted({p_ for p_ in paths if paths.count(p_) > 1})
                rep.check(rule, "%s: every generated file is still there when the call returns, each written once" % label, not gone and not twice,
                          "%s" % ("; ".join((["removed again before returning: %s" % gone] if gone else []) + (["written by two generators: %s" % twice] if twice else []))), where=where,
                          fact={"files": paths})
        if not met:
            files_survive(ok_t, gens_t)
            return ok_t, gens_t           # no such branch on this path: a single run decides
        del asked[:]
        w.it.branch_oracle = oracle_for(False)
        cm.FS.clear()
        before = len(cm.CodeGeneratorVal.registry)
        ok, _ = guarded(w, rep, rule, label, thunk)
        gens = cm.CodeGeneratorVal.registry[before:]
        files_survive(ok, gens)
        if ok and ok_t:
            rep.check(rule, "%s: what is generated does not depend on the file system / environment (branch at line %s on %s)" % (label, met[0][0], met[0][1][:60]),
                      sig(gens) == sig(gens_t), "with the condition true the export path generates %s instead of %s: a stale file is kept although the equation set or the options changed"
                      % (sig(gens_t) or "nothing", [(a, len(b)) for a, b, _ in sig(gens)]), where=where)
    finally:
        w.it.branch_oracle = old
    return ok, gens


def check_generator_events(rep, label, gen, expected_funcs, where):
    """gen.add for every function, each once; one generate after the adds."""
    kinds = [e[0] for e in gen.events]
    ngen = kinds.count("generate")
    rep.check("C09.gen", "%s: generate() called exactly once, after every add()" % label, ngen == 1 and kinds and kinds[-1] == "generate",
              "event order is %s" % kinds, where=where)
    added = [f for f in gen.added]
    names = [f.fname for f in added if isinstance(f, cm.FunctionVal)]
    rep.check("C09.gen", "%s: every item added is a ca.Function" % label, len(names) == len(added), "non-Function objects handed to gen.add", where=where)
    dups = sorted({n for n in names if names.count(n) > 1})
    rep.check("C09.names", "%s: C function names are pairwise distinct" % label, not dups, "duplicate ca.Function names in one C file: %s (the second definition collides)" % dups, where=where)
    if expected_funcs is not None:
        missing = [k for k, f in expected_funcs.items() if not any(f is a for a in added)]
        rep.check("C09.gen", "%s: every function of the equation set is added (%d)" % (label, len(expected_funcs)), not missing, "functions never added to the generator: %s" % missing, where=where,
                  fact={"added": names})
    bad = contract(gen.opts)
    rep.check("C09.options", "%s: default options satisfy CasADi's contract" % label, not bad, "CasADi refuses these options: %s" % "; ".join(bad), where=where, fact={"options": {k: str(v) for k, v in (gen.opts or {}).items()} if isinstance(gen.opts, dict) else str(gen.opts)})


def _dict_literal(v):
    if not isinstance(v, ast.Dict):
        return None
    d = {}
    for k, val in zip(v.keys, v.values):
        if isinstance(k, ast.Constant) and isinstance(val, ast.Constant):
            d[k.value] = val.value
    return d


def generator_defaults(w, modname, fn):
    """Default option dict and its location, read from the AST: `p = {...}` in the function, or `p = NAME` / `dict(NAME)` /
    `NAME.copy()` / `{**NAME}` with NAME a module-level dict literal.  ALIASED[(modname, fn)] records the case `p = NAME`
    without a copy (the function then mutates the module-level defaults)."""
    sf = w.fe.module_file(modname)
    node = w.fe.find_def(sf.rel, fn)
    module_dicts = {}
    for st in sf.tree.body:
        if isinstance(st, ast.Assign) and len(st.targets) == 1 and isinstance(st.targets[0], ast.Name):
            d = _dict_literal(st.value)
            if d is not None:
                module_dicts[st.targets[0].id] = d
    for st in node.body:
        if isinstance(st, ast.Assign) and len(st.targets) == 1 and isinstance(st.targets[0], ast.Name) and st.targets[0].id == "p":
            v = st.value
            d = _dict_literal(v)
            if d is not None:
                return d, (sf.rel, st.lineno)
            if isinstance(v, ast.Name) and v.id in module_dicts:
                mutated = any((isinstance(x, ast.Subscript) and isinstance(x.ctx, ast.Store) and isinstance(x.value, ast.Name) and x.value.id == "p") or
                              (isinstance(x, ast.Call) and isinstance(x.func, ast.Attribute) and isinstance(x.func.value, ast.Name) and x.func.value.id == "p" and x.func.attr in ("update", "setdefault", "pop", "clear"))
                              for x in ast.walk(node))
                if mutated:
                    ALIASED[(modname, fn)] = (v.id, (sf.rel, st.lineno))
                return module_dicts[v.id], (sf.rel, st.lineno)
            src = ast.unparse(v)
            for nm, d in module_dicts.items():
                if src in ("dict(%s)" % nm, "%s.copy()" % nm, "{**%s}" % nm, "copy.copy(%s)" % nm, "copy.deepcopy(%s)" % nm):
                    return d, (sf.rel, st.lineno)
    return None, (sf.rel, node.lineno)


ALIASED = {}


def default_opts(w, call):
    """The option dict a generator hands to CasADi when called without keywords (abstract run; file-system questions
    answered False).  None when the run cannot be interpreted."""
    before = len(cm.CodeGeneratorVal.registry)
    old_or = w.it.branch_oracle
    w.it.branch_oracle = lambda stub, node: False
    try:
        call({})
    except (InterpRaise, Unsupported):
        return None
    finally:
        w.it.branch_oracle = old_or
    gs = cm.CodeGeneratorVal.registry[before:]
    del cm.CodeGeneratorVal.registry[before:]
    return dict(gs[0].opts) if gs and isinstance(gs[0].opts, dict) else None


def check_accepted_combinations(w, rep, modname, fn, call):
    """Every keyword the generator accepts (assert k in p.keys()) must keep CasADi's contract satisfiable."""
    d, where = generator_defaults(w, modname, fn)
    label = "%s.%s" % (modname.split(".")[-1] if modname != "cyecca.estimate.attitude.algorithms" else "algorithms", fn)
    if d is None:
        # the table is not a literal in this function (built by a helper, ...): read it off a default run
        d = default_opts(w, call)
    if d is None:
        rep.incomplete("C09.options", "%s option table" % label, "no literal option dict p = {...}", where=where)
        return
    al = ALIASED.get((modname, fn))
    rep.check("C09.options", "%s: the option dict modified per call is a fresh object" % label, al is None,
              "`p = %s` binds the module-level default table itself and the function then writes the caller's keywords (and force_canonical) into it: the options of one call become "
              "the defaults of every later call in the same process" % (al[0] if al else ""), where=al[1] if al else where)
    for k in d:
        rep.check("C09.options", "%s: option %r is a CasADi CodeGenerator option" % (label, k), k in CASADI_OPTIONS, "unknown option %r" % k, where=where)
    if "with_mem" in d:
        # run the generator abstractly with with_mem=True and read the options it hands to CasADi
        ok, gens = run_generator(w, rep, "C09.options", "%s(with_mem=True)" % label, lambda: call({"with_mem": True}), where)
        if ok and gens:
            bad = contract(gens[0].opts)
            rep.check("C09.options", "%s: accepted keyword with_mem=True still satisfies CasADi's contract" % label, not bad,
                      "the generator accepts with_mem=True but CasADi then refuses: %s" % "; ".join(bad), where=where)
        # every combination of the boolean options that the contract or the derived keys can depend on
        import itertools
        keys = [k for k in ("with_mem", "with_header", "main", "mex") if k in d]
        worst = None
        undecided = None
        n = 0
        for vals in itertools.product((False, True), repeat=len(keys)):
            kw = dict(zip(keys, vals))
            before = len(cm.CodeGeneratorVal.registry)
            old_or = w.it.branch_oracle
            w.it.branch_oracle = lambda stub, node: False        # file-system questions: the ordinary answer (C09.gen explores both)
            try:
                call(kw)
            except InterpRaise as ex:
                worst = worst or (kw, ["generator raised: %s" % ex])
                continue
            except Unsupported as ex:
                undecided = str(ex)
                continue
            finally:
                w.it.branch_oracle = old_or
            gs = cm.CodeGeneratorVal.registry[before:]
            n += 1
            if gs:
                bad = contract(gs[0].opts)
                if bad and worst is None:
                    worst = (kw, bad)
        if worst is None and undecided is not None:
            rep.incomplete("C09.options", "%s: all %d combinations of %s satisfy CasADi's contract" % (label, 2 ** len(keys), "/".join(keys)), "analyser cannot interpret: %s" % undecided, where=where)
        else:
            rep.check("C09.options", "%s: all %d combinations of %s satisfy CasADi's contract" % (label, 2 ** len(keys), "/".join(keys)), worst is None,
                      "with %s CasADi refuses the options the generator builds: %s" % (worst[0] if worst else "", "; ".join(worst[1]) if worst else ""), where=where, fact={"combinations": n})
    ok, gens = run_generator(w, rep, "C09.options", "%s(bogus=1)" % label, lambda: call({"definitely_not_an_option": True}), where) if False else (True, [])


def functions_of(eqs):
    return {k: v for k, v in eqs.items() if isinstance(v, cm.FunctionVal)} if isinstance(eqs, dict) else {}


def check_function_signatures(w, rep, registry_slice, floor):
    n = 0
    for f in registry_slice:
        n += 1
        sf = w.fe.module_file(f.module) if f.module else None
        where = (sf.rel if sf else "?", getattr(f.node, "lineno", 0))
        rep.check("C09.sig", "ca.Function %r (%s): arities, distinct names, no free symbols" % (f.fname, where[0].split("/")[-1]), not f.problems, "; ".join(f.problems), where=where,
                  fact={"n_in": len(f.ins), "n_out": len(f.outs)}, nontrivial=True)
    rep.floor("C09.sig", floor)


def run(w, rep, tier):
    rep.rule("C09.sig", "every ca.Function built by a shipped equation set has len(ins)=len(in_names), len(outs)=len(out_names), distinct names, and no free symbol")
    rep.rule("C09.names", "ca.Function names are pairwise distinct within one generated C file")
    rep.rule("C09.merge", "no dictionary key is produced twice across the eqs.update(...) merges of an export list; every derive_* of a model module is exported or exempted with a reason")
    rep.rule("C09.gen", "generate_code: add() reached for every function exactly once, generate() once after the adds")
    rep.rule("C09.options", "option tables: every key is a CasADi option; defaults and every accepted keyword keep CasADi's contract (with_mem requires force_canonical)")
    start = len(cm.FunctionVal.registry)
    it = w.it
    # ---- model modules: abstractly execute the __main__ export block
    for modname, cfile in MODEL_MODULES:
        mod = w.mod(modname)
        sf = w.fe.module_file(modname)
        main = it.module_main_block(modname)
        if main is None:
            raise AnchorMissing("%s has no __main__ export block" % modname)
        where = (sf.rel, main.lineno)
        # merges
        updates = []
        for st in ast.walk(main):
            if isinstance(st, ast.Call) and isinstance(st.func, ast.Attribute) and st.func.attr == "update" and st.args and isinstance(st.args[0], ast.Call) and isinstance(st.args[0].func, ast.Name) \
                    and st.args[0].func.id.startswith("derive_"):
                updates.append(st.args[0].func.id)
        # ... and, whatever the spelling of the export list (a loop over a tuple of derive functions, a helper), the
        # derive_* functions of this module that are actually CALLED while the block runs
        called = []

        def hook(f, env_):
            if f.name.startswith("derive_") and f.module == modname:
                called.append((f.name, len(it.stack)))
        old_hook, old_or = it.trace_calls, it.branch_oracle
        it.trace_calls, it.branch_oracle = hook, (lambda stub, node: False)
        nreg = len(cm.CodeGeneratorVal.registry)
        try:
            it.exec_block(main.body, Env({}, mod), modname)
        except (InterpRaise, Unsupported):
            pass
        finally:
            it.trace_calls, it.branch_oracle = old_hook, old_or
            del cm.CodeGeneratorVal.registry[nreg:]
        top = min((d_ for _, d_ in called), default=0)
        for nm, d_ in called:
            if d_ == top and nm not in updates:
                updates.append(nm)
        nested = {nm for nm, d_ in called if d_ > top}
        keys = {}
        for fn in updates:
            if fn not in mod:
                rep.fail("C09.merge", "%s: %s exists" % (cfile, fn), "export list calls undefined %s" % fn, where=where)
                continue
            ok, eqs = guarded(w, rep, "C09.merge", "%s: %s()" % (cfile, fn), lambda fn=fn: w.callf(mod[fn]))
            if ok:
                for k in functions_of(eqs):
                    keys.setdefault(k, []).append(fn)
        clash = {k: v for k, v in keys.items() if len(v) > 1}
        rep.check("C09.merge", "%s: equation-set keys are unique across the %d merged derive_* results" % (cfile, len(updates)), not clash,
                  "key produced twice, the later silently replaces the earlier: %s" % clash, where=where, fact={"keys": sorted(keys)})
        derives = [n.name for n in sf.tree.body if isinstance(n, ast.FunctionDef) and n.name.startswith("derive_")]
        for d in derives:
            if d in updates:
                rep.ok("C09.merge", "%s: %s is exported" % (cfile, d))
            elif (modname, d) in EXEMPT:
                rep.na("C09.merge", "%s: %s is exported" % (cfile, d), "exempt: " + EXEMPT[(modname, d)])
            elif d in nested or any(d == x for x in _called_by_exported(sf, updates)):
                rep.ok("C09.merge", "%s: %s is exported (through another derive_*)" % (cfile, d))
            else:
                rep.fail("C09.merge", "%s: %s is exported" % (cfile, d), "derive function is neither merged into the export list nor exempted: its functions are dropped from the generated C file", where=where)
        # run the block
        env = Env({}, mod)
        ok, gens = run_generator(w, rep, "C09.gen", "%s __main__ block" % cfile, lambda: it.exec_block(main.body, env, modname), where)
        if ok:
            if len(gens) != 1:
                rep.fail("C09.gen", "%s: one CodeGenerator" % cfile, "%d generators created" % len(gens), where=where)
            else:
                found, final = env.lookup("eqs")
                check_generator_events(rep, cfile, gens[0], functions_of(final) if found else None, where)
                rep.check("C09.gen", "%s: file name" % cfile, gens[0].filename == cfile, "generator writes %r" % (gens[0].filename,), where=where, nontrivial=False)
                if found:
                    rep.check("C09.merge", "%s: exported set has one entry per produced key" % cfile, set(functions_of(final)) == set(keys), "exported keys %s differ from produced keys %s" % (sorted(functions_of(final)), sorted(keys)), where=where)
        check_accepted_combinations(w, rep, modname, "generate_code", lambda kw, mod=mod: w.callf(mod["generate_code"], {}, filename="x.c", dest_dir="d", **kw))
    # ---- estimator / simulator equation sets
    alg = w.mod("cyecca.estimate.attitude.algorithms")
    sfa = w.fe.module_file("cyecca.estimate.attitude.algorithms")
    ok, eqs = guarded(w, rep, "C09.merge", "algorithms.eqs()", lambda: w.callf(alg["eqs"]))
    if ok:
        where = (sfa.rel, w.fe.find_def(sfa.rel, "generate_code").lineno)
        sets = {k: functions_of(v) for k, v in eqs.items()}
        rep.check("C09.merge", "algorithms.eqs(): equation sets mrp and sim", set(sets) == {"mrp", "sim"} and all(sets.values()), "sets %s" % {k: len(v) for k, v in sets.items()}, where=where)
        for sname, fs in sets.items():
            mis = {k: f.fname for k, f in fs.items()}
            rep.ok("C09.merge", "algorithms.eqs()[%r]: %d functions" % (sname, len(fs)), fact={"functions": mis})
        ok, gens = run_generator(w, rep, "C09.gen", "algorithms.generate_code(eqs, dir)", lambda: w.callf(alg["generate_code"], eqs, "dir"), where)
        if ok:
            rep.check("C09.gen", "algorithms.generate_code: one C file per equation set", len(gens) == len(sets), "%d generators for %d sets" % (len(gens), len(sets)), where=where)
            for gen, (sname, fs) in zip(gens, sets.items()):
                check_generator_events(rep, "casadi_%s.c" % sname, gen, fs, where)
        check_accepted_combinations(w, rep, "cyecca.estimate.attitude.algorithms", "generate_code", lambda kw: w.callf(alg["generate_code"], {"s": {}}, "dir", **kw))
    # ---- generic generator
    cg = w.mod("cyecca.codegen")
    sfc = w.fe.module_file("cyecca.codegen")
    where = (sfc.rel, w.fe.find_def(sfc.rel, "generate_code").lineno)
    x = w.sym("x")
    f1 = cm.FunctionVal("probe_a", [x], [x])
    f2 = cm.FunctionVal("probe_b", [x], [cm.ew(x, 2, cm.pmul)])
    del cm.FunctionVal.registry[-2:]
    sets = {"one": {"a": f1, "b": f2}, "two": {"b": f2}}
    ok, gens = run_generator(w, rep, "C09.gen", "codegen.generate_code(sets, dir)", lambda: w.callf(cg["generate_code"], sets, "dir"), where)
    if ok:
        rep.check("C09.gen", "codegen.generate_code: one C file per equation set", len(gens) == 2, "%d generators for 2 sets" % len(gens), where=where)
        for gen, (sname, fs) in zip(gens, sets.items()):
            check_generator_events(rep, "codegen %s.c" % sname, gen, fs, where)
            rep.check("C09.gen", "codegen.generate_code: file named after the set (%s.c)" % sname, gen.filename == "%s.c" % sname, "file name %r" % (gen.filename,), where=where, nontrivial=False)
    check_accepted_combinations(w, rep, "cyecca.codegen", "generate_code", lambda kw: w.callf(cg["generate_code"], {"s": {}}, "dir", **kw))
    # sibling option tables
    tabs = {}
    for modname in [m for m, _ in MODEL_MODULES] + ["cyecca.codegen"]:
        # compared as what each copy hands to CasADi by default (however the table is spelled)
        if modname == "cyecca.codegen":
            tabs[modname] = default_opts(w, lambda kw: w.callf(cg["generate_code"], {"s": {}}, "dir", **kw))
        else:
            m_ = w.mod(modname)
            tabs[modname] = default_opts(w, lambda kw, m_=m_: w.callf(m_["generate_code"], {}, filename="x.c", dest_dir="d", **kw))
    ref = tabs["cyecca.codegen"]
    for modname, d in tabs.items():
        rep.check("C09.options", "%s.generate_code option table = codegen.generate_code option table" % modname.split(".")[-1], d == ref, "option tables of the generator copies differ: %s vs %s" % (d, ref),
                  where=(w.fe.module_file(modname).rel, 1))
    # ---- signatures of everything built above
    mr = w.mod("cyecca.models.mr_ref_traj")
    guarded(w, rep, "C09.sig", "derive_mr_ref_traj()", lambda: w.callf(mr["derive_mr_ref_traj"]))
    qm = w.mod("cyecca.models.quadrotor")
    guarded(w, rep, "C09.sig", "quadrotor.derive_model()", lambda: w.callf(qm["derive_model"]))
    seen = {}
    for f in cm.FunctionVal.registry[start:]:
        if f.module and f.module.startswith("cyecca"):
            seen.setdefault((f.module, getattr(f.node, "lineno", 0), f.fname), f)
    check_function_signatures(w, rep, list(seen.values()), 45)
    rep.floor("C09.gen", 20)
    rep.floor("C09.options", 12)
    rep.undecided_clause("that the emitted C compiles and computes the same values as the symbolic function (CasADi's code generator and a C compiler: translation validation by execution, a different family)")


def _called_by_exported(sf, updates):
    out = set()
    for n in sf.tree.body:
        if isinstance(n, ast.FunctionDef) and n.name in updates:
            for c in ast.walk(n):
                if isinstance(c, ast.Call) and isinstance(c.func, ast.Name) and c.func.id.startswith("derive_"):
                    out.add(c.func.id)
    return out
