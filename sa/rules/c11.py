"""C11 - each attitude-estimator step keeps the state valid and the covariance consistent (DESIGN 4, C11)."""
from .common import *
from .liecommon import *
from .c03 import is_shadowed
from ..frontend import AnchorMissing
from ..poly import Poly, all_atoms, deep_subs, poly_syms

MRP = "cyecca.estimate.attitude.algorithms.mrp"


def eqs_mrp(w, rep):
    mod = w.mod(MRP)
    out = {}
    for fn in ("initialize", "predict", "correct_mag", "correct_accel", "get_state", "constants"):
        if fn not in mod:
            raise AnchorMissing("%s.%s" % (MRP, fn))
        ok, f = guarded(w, rep, "C11.API", "mrp.%s()" % fn, lambda fn=fn: w.callf(mod[fn]))
        if ok:
            if isinstance(f, cm.FunctionVal):
                out[fn] = f
                rep.ok("C11.API", "mrp.%s() builds a ca.Function" % fn)
            else:
                rep.fail("C11.API", "mrp.%s() builds a ca.Function" % fn, "returns %s" % type(f).__name__, where=w.where(MRP, fn))
    return out, mod


def leaves(p, path=()):
    a = p.single_atom()
    if a is not None and a.kind == "ite":
        yield from leaves(a.key[1], path + ((a.key[0], True),))
        yield from leaves(a.key[2], path + ((a.key[0], False),))
    else:
        yield path, p


def guarded_asin(M):
    """asin(u) must sit in the selected branch of an if_else whose condition contains the conjunct fabs(u) < 1 (or u < 1)."""
    bad = []
    seen = set()

    def cond_bounds(c, u):
        a = c.single_atom()
        if a is None:
            return False
        if a.kind == "and":
            return cond_bounds(a.key[0], u) or cond_bounds(a.key[1], u)
        if a.kind == "lt" and a.key[1].const_value() == 1:
            x = a.key[0]
            if x == u or x == -u:
                return True
            fa = x.single_atom()
            if fa is not None and fa.kind == "fabs" and (fa.key[0] == u or fa.key[0] == -u):
                return True
        return False

    def walk(p, ok_for):
        for a in p.atoms():
            visit(a, ok_for)

    def visit(a, ok_for):
        key = (a, ok_for)
        if key in seen:
            return
        seen.add(key)
        if a.kind == "asin":
            if a.key[0] not in ok_for and (-a.key[0]) not in ok_for:
                bad.append(a)
            walk(a.key[0], frozenset())
            return
        if a.kind == "ite":
            c, x, y = a.key
            walk(c, frozenset())
            extra = set()
            for cand in all_atoms(x):
                if cand.kind == "asin" and cond_bounds(c, cand.key[0]):
                    extra.add(cand.key[0])
            walk(x, ok_for | frozenset(extra))
            walk(y, ok_for)
            return
        for k in a.key:
            if isinstance(k, Poly):
                walk(k, ok_for)
    for p in M.flat():
        walk(p, frozenset())
    return bad


def check_gate(w, rep, f, name, mod):
    W = w.where(MRP, name)
    I = dict(zip(f.in_names, f.ins))
    O = dict(zip(f.out_names, f.outs))
    if "error_code" not in O or "x" not in I or "W" not in I or len(f.outs) < 2:
        rep.fail("C11.gate", "%s has inputs x, W and an error_code output" % name, "signature %s -> %s" % (f.in_names, f.out_names), where=W)
        return
    ret = O["error_code"].s()
    cond = cm._cmp("eq", ret, cm.ZERO)
    xo, Wo = f.outs[0], f.outs[1]
    # every rejection leaf of the error-code tree: resolve the tree's conditions along that path, the error code becomes
    # the leaf constant, every test on the code folds, and the outputs must be the function's own inputs
    rej_paths = [(path, leaf) for path, leaf in leaves(ret) if leaf.const_value() is not None and leaf.const_value() != 0]
    if not rej_paths:
        rep.incomplete("C11.gate", "%s rejection paths" % name, "no constant non-zero error-code leaf found", where=W)
    for nm, out, inp in (("state", xo, I["x"]), ("covariance factor", Wo, I["W"])):
        for path, leaf in rej_paths:
            code = leaf.const_value()
            asg = dict(path)
            rej = assign_ites(out, asg)
            # error-code tests that did not fold structurally (the code is now the constant `code`)
            def fold(a, code=code):
                if a.kind in ("eq", "ne") and isinstance(a.key[0], Poly):
                    for x, y in ((a.key[0], a.key[1]), (a.key[1], a.key[0])):
                        if x == ret and y.const_value() is not None:
                            t = (y.const_value() == code)
                            return Poly.const(int(t if a.kind == "eq" else not t))
                return None
            rej = MatVal(rej.r, rej.c, [[deep_subs(p, fold) if p.t else p for p in row] for row in rej.cells], rej.kind)
            v, d = decide_mat(rej, inp)
            inst = "%s: %s returned unchanged when error_code = %s" % (name, nm, code)
            if v == EQUAL:
                rep.ok("C11.gate", inst)
            elif v == DIFFERENT:
                rep.fail("C11.gate", inst, "a correction rejected with code %s does not return its input %s: %s" % (code, nm, d), where=W)
            else:
                from ..decide import generators, normal
                gi = set().union(*[generators(normal(p)) for p in inp.flat()]) if inp.flat() else set()
                rep.fail("C11.gate", inst, "a correction rejected with code %s returns a value that still depends on the measurement update instead of its input %s: %s" % (code, nm, d), where=W) \
                    if not gi else rep.incomplete("C11.gate", inst, "cannot decide: %s" % d, where=W)
        gated = all((out.cells[i][j] == inp.cells[i][j]) or (out.cells[i][j].single_atom() is not None and out.cells[i][j].single_atom().kind == "ite")
                    for i in range(out.r) for j in range(out.c))
        rep.check("C11.gate", "%s: %s is, cell by cell, a selection between the update and the input" % (name, nm), gated,
                  "an output cell is not an if_else selection: something is written after the gate", where=W)
    # error-code tree: 0 exactly once, at the all-conditions-false leaf; other leaves distinct non-zero constants
    check_code_tree(rep, name, ret, W)
    bad = guarded_asin(MatVal(1, len(f.outs), [[o.cells[0][0] if o.r * o.c == 1 else Poly() for o in f.outs]]))
    allcells = MatVal(1, sum(o.r * o.c for o in f.outs), [[c for o in f.outs for c in o.flat()]])
    bad = guarded_asin(allcells)
    rep.check("C11.guard", "%s: every asin is selected only under a guard bounding its argument by 1" % name, not bad,
              "asin reachable without a domain guard: %s" % (short(Poly.atom(bad[0]), 100) if bad else ""), where=W)
    # divisors that are fmax(., c) must have c > 0
    ok_div = True
    for a in {x for c in allcells.flat() for x in all_atoms(c)}:
        if a.kind == "fmax":
            consts = [k.const_value() for k in a.key if isinstance(k, Poly) and k.const_value() is not None]
            if consts and min(consts) <= 0:
                ok_div = False
    rep.check("C11.guard", "%s: floors used as divisors are positive constants" % name, ok_div, "an fmax floor is not positive", where=W)


def check_code_tree(rep, name, ret, W):
    ls = list(leaves(ret))
    vals = [p.const_value() for _, p in ls]
    inst = "%s: error code is 0 only when every rejection test is false; rejection codes are distinct and non-zero" % name
    if any(v is None for v in vals):
        rep.fail("C11.codes", inst, "an error-code leaf is not a constant", where=W)
        return
    zeros_ = [i for i, v in enumerate(vals) if v == 0]
    # (which side of a test is "true" is a matter of spelling - `B <= 0 ? 2 : ...` and `B > 0 ? ... : 2` are one value -
    # so the rule is on the leaves: one accepting leaf, every rejecting leaf with its own non-zero code)
    good = len(zeros_) == 1 and len(set(vals)) == len(vals)
    rep.check("C11.codes", inst, good, "error-code leaves %s (paths %s)" % (vals, [[f for _, f in p] for p, _ in ls]), where=W, fact={"codes": [str(v) for v in vals]})


def check_initialize(w, rep, f):
    W = w.where(MRP, "initialize")
    O = dict(zip(f.out_names, f.outs))
    if "error_code" not in O or "x0" not in O:
        rep.fail("C11.gate", "initialize outputs x0, error_code", "outputs %s" % f.out_names, where=W)
        return
    ret = O["error_code"].s()
    cond = cm._cmp("eq", ret, cm.ZERO)
    x0 = O["x0"]
    rej = assign_ites(x0, {cond: False})
    rep.check("C11.gate", "initialize: x0 is gated by the returned error code (zero state on failure)", all(c.const_value() == 0 for c in rej.flat()),
              "x0 is not selected by error_code == 0", where=W)
    check_code_tree(rep, "initialize", ret, W)
    check_declination_axis(w, rep, W)
    # TRIAD degeneracy: the construction divides by |n3 x Bh| (n3 = -g/|g|, Bh = B/|B|); some rejection test must bound
    # exactly that quantity away from zero, otherwise parallel OR anti-parallel gravity and field give 0/0 = NaN with code 0
    I = dict(zip(f.in_names, f.ins))
    if "g_b" in I and "B_b" in I:
        gb, Bb = I["g_b"], I["B_b"]
        n3 = cm.ew(cm.neg(gb), cm.norm_2(gb), cm.pdiv)
        Bh = cm.ew(Bb, cm.norm_2(Bb), cm.pdiv)
        S = cm.norm_2(cm.cross(n3, Bh)).s()
        from ..decide import canon
        Sc = canon(S)
        found = False
        for path, leaf in leaves(ret):
            for c, flag in path:
                a = c.single_atom()
                if a is None or a.kind not in ("lt", "le"):
                    continue
                lhs, rhs = a.key
                iv = cm.pi_interval(rhs)
                if iv is None or iv[0] <= 0:
                    continue
                inner = lhs.single_atom()
                cand = inner.key[0] if (inner is not None and inner.kind == "asin") else lhs
                if canon(cand) == Sc:
                    found = True
        rep.check("C11.codes", "initialize: a rejection test bounds |n3 x B^| (the norm divided by) away from zero", found,
                  "no rejection test of the form f(|(-g/|g|) x (B/|B|)|) < c: when gravity and field are parallel or anti-parallel the east axis is 0/0 and the state is NaN with error code 0",
                  where=W)
    acc = assign_ites(x0, {cond: True})
    good, why = is_shadowed(w.sl(acc, 0, 3))
    rep.check("C11.valid", "initialize: returned MRP is shadow-switched (|r| <= 1)", good, "initial attitude is not passed through the shadow switch: %s" % why, where=W)
    rep.check("C11.valid", "initialize: initial gyro bias is zero", all(c.is_zero() for c in w.sl(acc, 3, 6).flat()), "initial bias is not zero", where=W)


def check_declination_axis(w, rep, W):
    """First-order effect of the declination on the TRIAD frame: the east axis (row 1 of the matrix handed to from_Matrix) is
    rotated by -decl about the MEASURED vertical n3_b (row 2), so d(row 1)/d(decl) at decl = 0 must be -(n3_b x n2_b).
    Decided by Taylor coefficients in decl (decl > 0 side, regular branch).  A rotation about a fixed axis instead is exact
    for a level vehicle or zero declination only."""
    from ..taylor import expand
    from .c16 import subs_syms
    Mr = w.G("SO3Mrp")
    mod = w.mod(MRP)
    inst = "initialize: d(east axis)/d(decl) at decl = 0 is -(n3_b x n2_b) (declination applied about the measured vertical)"
    ok, res = guarded(w, rep, "C11.valid", inst, lambda: capture_calls(w, "from_Matrix", lambda: w.callf(mod["initialize"]), self_is=Mr))
    if not ok:
        return
    f, seen = res
    if not seen or not isinstance(f, cm.FunctionVal) or "decl" not in (f.in_names or []):
        rep.incomplete("C11.valid", inst, "no SO3Mrp.from_Matrix call / decl input while deriving initialize", where=W)
        return
    R0 = seen[-1]["arg"]
    da = dict(zip(f.in_names, f.ins))["decl"].s().single_atom()
    with with_maxdeg(40):
        R0c = closed(w, R0)
        R0c = assign_ites(R0c, {c: False for c in ite_conditions(R0c)})
        R0c = with_signs(R0c, {da: 1})
        R00 = subs_syms(R0c, {da: Poly()})
        n2, n3 = cm.transpose(w.blk(R00, 1, 2, 0, 3)), cm.transpose(w.blk(R00, 2, 3, 0, 3))
        ref = cm.neg(cm.cross(n3, n2))
        worst, detail = EQUAL, None
        for j in range(3):
            tl = expand(R0c.cells[1][j], [da], 1)
            if tl is None:
                worst, detail = UNKNOWN, "no Taylor expansion in decl for component %d" % j
                break
            v = decide(tl.get((1,), Poly()), ref.cells[j][0])
            if v == DIFFERENT:
                worst, detail = DIFFERENT, "component %d: %s  vs  %s" % (j, short(tl.get((1,), Poly()), 70), short(ref.cells[j][0], 70))
                break
            if v == UNKNOWN:
                worst, detail = UNKNOWN, "component %d: %s  vs  %s" % (j, short(tl.get((1,), Poly()), 70), short(ref.cells[j][0], 70))
    if worst == EQUAL:
        rep.ok("C11.valid", inst)
    elif worst == DIFFERENT:
        rep.fail("C11.valid", inst, "the declination correction does not rotate the east axis about the measured vertical: %s" % detail, where=W)
    else:
        rep.incomplete("C11.valid", inst, "cannot decide: %s" % detail, where=W)


def check_predict(w, rep, f, mod):
    W = w.where(MRP, "predict")
    I = dict(zip(f.in_names, f.ins))
    O = dict(zip(f.out_names, f.outs))
    x1, W1 = O.get("x1"), O.get("W1")
    if x1 is None or W1 is None:
        rep.fail("C11.valid", "predict outputs x1, W1", "outputs %s" % f.out_names, where=W)
        return
    Mr = w.G("SO3Mrp")
    (fp, seen) = capture_calls(w, "shadow_if_necessary", lambda: w.callf(mod["predict"]), self_is=Mr)
    good = bool(seen) and isinstance(seen[-1].get("arg"), Instance) and isinstance(fp, cm.FunctionVal) and mat_equal(w.sl(fp.outs[0], 0, 3), w.param(seen[-1]["arg"]))
    rep.check("C11.valid", "predict: propagated MRP passes through the shadow switch after the RK4 step and is written back", good, "predicted attitude is not shadow-switched after integration", where=W)
    from .c03 import is_shadowed
    sh_ok, sh_why = is_shadowed(w.sl(x1, 0, 3))
    rep.check("C11.valid", "predict: the returned MRP has the form if_else(|b|^2 > 1, -b/|b|^2, b)", sh_ok,
              "the value returned by predict is not shadow-switched (%s): a helper that returns a new element instead of modifying its argument leaves the caller's element untouched" % sh_why, where=W)
    rep.check("C11.valid", "predict: gyro bias is constant over a noise-free prediction", mat_equal(w.sl(x1, 3, 6), w.sl(I["x"], 3, 6)), "bias changes in the noise-free prediction", where=W)
    n = W1.r
    upper = [(i, j) for i in range(n) for j in range(n) if j > i and W1.cells[i][j].t]
    rep.check("C11.valid", "predict: W1 is structurally lower triangular (derivative passes through tril before integration)", not upper, "non-zero cells above the diagonal: %s" % upper[:4], where=W)
    # the integrated vector field is right_jacobian(r) (omega_m - b), zero bias rate
    xdots = [g for g in cm.FunctionVal.registry if g.fname == "xdot" and g.module == MRP]
    if not xdots:
        rep.incomplete("C11.valid", "predict: vector field", "no Function named xdot", where=W)
    else:
        g = xdots[-1]
        Gi = dict(zip(g.in_names, g.ins))
        Mr = w.G("SO3Mrp")
        r = w.elem(Mr, w.sl(Gi["x"], 0, 3))
        B = w.call(r, "right_jacobian")
        want = cm.vertcat(cm.matmul(B, cm.ew(Gi["omega_m"], w.sl(Gi["x"], 3, 6), cm.psub)), cm.ew(cm.ew(Gi["sn_gyro_rw"], cm.unop("sqrt")(Gi["dt"]), cm.pdiv), Gi["w_gyro_rw"], cm.pmul))
        verdict(rep, "C11.valid", "predict: x_dot = (right_jacobian(r) (omega_m - b), random-walk noise)", g.outs[0], want, (), W, "the integrated vector field is not the bias-corrected MRP kinematics")
    # RK4 is used for the state: x1 (pre-shadow, principal branch) = rk4 of that field -- decided by C10 for util.rk4; here: x1 depends on dt, omega_m
    deps = set()
    for c in x1.flat():
        deps |= poly_syms(c)
    need = set(sym_atoms_of(I["omega_m"])) | {I["dt"].s().single_atom()}
    check_rk4_callables(w, rep, "C11.valid", "predict", lambda: w.callf(mod["predict"]), W)
    rep.check("C11.valid", "predict: x1 depends on the gyro rate and on dt", need <= deps, "x1 ignores %s" % [repr(a) for a in need - deps], where=W)


def run(w, rep, tier):
    rep.rule("C11.API", "the six estimator equation builders resolve")
    rep.rule("C11.gate", "correct_mag / correct_accel / initialize: outputs are, cell by cell, if_else(error_code == 0, new, old) of the function's own inputs: a rejected step returns its inputs bit for bit")
    rep.rule("C11.codes", "error-code if_else trees: 0 exactly once at the all-false leaf, every other leaf a distinct non-zero constant")
    rep.rule("C11.valid", "shadow switch after prediction and initialisation; constant bias; tril before covariance integration; integrated field = right_jacobian(r)(omega - b)")
    rep.rule("C11.guard", "asin only under a guard bounding its argument; fmax floors used as divisors are positive")
    fs, mod = eqs_mrp(w, rep)
    for name in ("correct_mag", "correct_accel"):
        if name in fs:
            check_gate(w, rep, fs[name], name, mod)
    if "initialize" in fs:
        check_initialize(w, rep, fs["initialize"])
    if "predict" in fs:
        check_predict(w, rep, fs["predict"], mod)
    # initialize() returns SO3Mrp.from_Matrix(triad) = from_Quat(SO3Quat.from_Matrix(.)): "exactly the attitude that produced
    # the measurements, never NaN" needs every Shepperd selection to be a right inverse AND to divide by the largest pivot
    # (rules shared with C07; seeded C11-4 flipped the innermost selector: NaN with error code 0 for a 180 degree yaw)
    from .c07 import check_from_matrix
    check_from_matrix(w, rep, R="C11.valid", RV="C11.valid", RS="C11.valid")
    rep.floor("C11.gate", 9)
    rep.floor("C11.codes", 4)
    rep.floor("C11.valid", 6)
    rep.undecided_clause("P+ <= P, finiteness of accepted corrections, fourth-order accuracy of the attitude beyond the RK4 order conditions (C10)")
    rep.undecided_clause("initialisation returns exactly the attitude that produced the measurements (TRIAD identity through Shepperd and MRP maps)")
