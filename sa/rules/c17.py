"""C17 - closed-loop stabilisation: NOT decided.  Only necessary interface conditions between the shipped cascade and
the shipped plant are (DESIGN 4, C17): wiring of scripts/rdd2_sim.py, sign conventions mixer <-> plant, gain signs."""
import ast

from .common import *
from .liecommon import *
from .c16 import subs_syms
from ..frontend import AnchorMissing
from ..poly import Poly

SCRIPT = "scripts/rdd2_sim.py"


def script_merges(w, rep):
    """eqs.update(<module>.<derive>()) calls in Simulator.__init__ -> {key: (Function, 'module.derive')}"""
    sf = w.fe.get(SCRIPT)
    init = w.fe.find_def(SCRIPT, "Simulator.__init__")
    imports = {}
    for st in sf.tree.body:
        if isinstance(st, ast.ImportFrom) and st.module == "cyecca.models":
            for a in st.names:
                imports[a.asname or a.name] = "cyecca.models." + a.name
    keys = {}
    n = 0
    for node in ast.walk(init):
        if isinstance(node, ast.Call) and isinstance(node.func, ast.Attribute) and node.func.attr == "update" and ast.unparse(node.func.value) == "self.eqs" and node.args:
            c = node.args[0]
            if isinstance(c, ast.Call) and isinstance(c.func, ast.Attribute) and isinstance(c.func.value, ast.Name) and c.func.value.id in imports:
                modname = imports[c.func.value.id]
                fn = c.func.attr
                mod = w.mod(modname)
                n += 1
                if fn not in mod:
                    rep.fail("C17.wiring", "rdd2_sim merges %s.%s" % (c.func.value.id, fn), "%s has no %s" % (modname, fn), where=(SCRIPT, node.lineno))
                    continue
                ok, eqs = guarded(w, rep, "C17.wiring", "%s.%s()" % (c.func.value.id, fn), lambda: w.callf(mod[fn]))
                if ok and isinstance(eqs, dict):
                    for k, f in eqs.items():
                        if isinstance(f, cm.FunctionVal):
                            if k in keys:
                                rep.fail("C17.wiring", "key %r merged once" % k, "key %r produced by %s and %s: the later replaces the earlier" % (k, keys[k][1], fn), where=(SCRIPT, node.lineno))
                            keys[k] = (f, "%s.%s" % (c.func.value.id, fn))
            else:
                rep.incomplete("C17.wiring", "self.eqs.update(...) argument", "not of the form module.derive_x()", where=(SCRIPT, node.lineno))
    rep.check("C17.wiring", "rdd2_sim merges its equation sets (%d derive calls)" % n, n >= 10, "only %d merges found" % n, where=(SCRIPT, init.lineno), nontrivial=False)
    return keys


def check_script_calls(w, rep, keys):
    sf = w.fe.get(SCRIPT)
    n = 0
    for node in ast.walk(sf.tree):
        if isinstance(node, ast.Call) and isinstance(node.func, ast.Subscript) and ast.unparse(node.func.value) == "self.eqs" and isinstance(node.func.slice, ast.Constant):
            k = node.func.slice.value
            inst = "rdd2_sim: self.eqs[%r]" % k
            if k not in keys:
                rep.fail("C17.wiring", inst + " names a merged function", "no merged derive_* produces the key %r" % k, where=(SCRIPT, node.lineno))
                continue
            f = keys[k][0]
            n += 1
            fn = _enclosing(node)
            rep.check("C17.wiring", "%s in %s: %d arguments" % (inst, fn, len(f.ins)), len(node.args) == len(f.ins) and not node.keywords,
                      "%d positional arguments passed, %s declares %d inputs %s" % (len(node.args), f.fname, len(f.ins), f.in_names), where=(SCRIPT, node.lineno))
            par = getattr(node, "_parent", None)
            if isinstance(par, ast.Assign) and len(par.targets) == 1 and isinstance(par.targets[0], (ast.Tuple, ast.List)):
                rep.check("C17.wiring", "%s in %s: %d results unpacked" % (inst, fn, len(f.outs)), len(par.targets[0].elts) == len(f.outs),
                          "%d names unpacked, %s declares %d outputs %s" % (len(par.targets[0].elts), f.fname, len(f.outs), f.out_names), where=(SCRIPT, node.lineno))
    rep.floor("C17.wiring", 18)


def _enclosing(node):
    n = node
    while n is not None and not isinstance(n, ast.FunctionDef):
        n = getattr(n, "_parent", None)
    return n.name if n is not None else "<module>"


def check_sign_conventions(w, rep):
    """Plant map P: rotor forces -> (thrust, moment) from quadrotor.py with the default geometry; mixer A from rdd2.
    P A must be a positive diagonal matrix (decoupled axes, agreeing signs); exact reproduction needs it to be I."""
    qm = w.mod("cyecca.models.quadrotor")
    rdd2 = w.mod("cyecca.models.rdd2")
    Wq = w.where("cyecca.models.quadrotor", "derive_model")
    Wa = w.where("cyecca.models.rdd2", "derive_control_allocation")
    ok, model = guarded(w, rep, "C17.signs", "derive_model()", lambda: w.callf(qm["derive_model"]))
    ok2, al = guarded(w, rep, "C17.signs", "derive_control_allocation()", lambda: w.callf(rdd2["derive_control_allocation"]))
    if not (ok and ok2):
        return
    f, x, p = model["f"], model["x"], model["p"]
    xa = sym_atoms_of(x)
    pa = {a.symname if a.key[1] is None else "%s_%d" % (a.symname, a.key[1]): a for a in sym_atoms_of(p)}
    pd = model["p_defaults"]
    geo = {pa[k]: cm.to_mat(v).s() for k, v in pd.items() if k.startswith(("dir_motor", "l_motor", "theta_motor")) and k in pa}
    # moment per unit rotor force: J * omega_dot at rest, with w_i^2 CT -> F_i
    xd = f.outs[0]
    rest = {xa[i]: Poly() for i in list(range(3, 6)) + list(range(10, 13))}
    rest.update({xa[6]: cm.ONE, xa[7]: Poly(), xa[8]: Poly(), xa[9]: Poly()})
    ground = {c: False for c in ite_conditions(xd) if c.single_atom() is not None and c.single_atom().kind == "lt" and c.single_atom().key[0] == Poly.atom(xa[2])}
    allsub = dict(geo)
    allsub.update(rest)
    xd0 = subs_syms(assign_ites(xd, ground), allsub)
    J = [Poly.atom(pa[k]) for k in ("Jx", "Jy", "Jz")]
    CT, CM, m_, g_ = (Poly.atom(pa[k]) for k in ("CT", "CM", "m", "g"))
    Fs = [Poly.sym("F%d~" % i, None) for i in range(4)]
    # w_i^2 = F_i / CT
    from ..poly import deep_subs
    wm = xa[13:17]

    def force_form(pp):
        out = Poly()
        for mono, c in pp.t.items():
            d = dict(mono)
            term = Poly.const(c)
            for a, e in d.items():
                if a in wm:
                    if e != 2:
                        return None
                    term = term * Fs[wm.index(a)] * CT.recip()
                else:
                    term = term * Poly({((a, e),): 1})
            out = out + term
        return out
    Mrow = []
    for k in range(3):
        cell = force_form(xd0.cells[10 + k][0] * J[k])
        if cell is None:
            rep.incomplete("C17.signs", "plant moment is quadratic in rotor speeds", "unexpected form", where=Wq)
            return
        Mrow.append(cell)
    Trow = force_form((xd0.cells[5][0] + g_) * m_)      # body z acceleration at rest, level: F/m - g
    if Trow is None:
        rep.incomplete("C17.signs", "plant thrust is quadratic in rotor speeds", "unexpected form", where=Wq)
        return
    from ..decide import canon
    P = [[canon(row).diff(Fs[i].single_atom()) for i in range(4)] for row in [Trow] + Mrow]
    # mixer: forces from (T, M) inside the linear range: F = A (T, M)
    fa = al["f_alloc"]
    Fmax, l, Cm, Ct, T, M = (w.sym(n, *((3,) if n == "M" else ())) for n in ("F_max", "l", "Cm", "Ct", "T", "M"))
    outs = fa(Fmax, l, Cm, Ct, T, M)
    Fm, Ft = outs[2], outs[3]
    conds = {c: False for c in ite_conditions(cm.vertcat(Fm, Ft))}       # inside the range limits
    Fsum = assign_ites(cm.ew(Fm, Ft, cm.padd), conds)
    dm = [T.s().single_atom()] + sym_atoms_of(M)
    A = [[Fsum.cells[i][0].diff(a) for a in dm] for i in range(4)]
    # bind the mixer's constants to the plant's: l = arm length (all equal by default), Cm = CM
    larm = cm.to_mat(pd["l_motor_0"]).s()
    bind = {l.s().single_atom(): larm, Cm.s().single_atom(): CM}
    A = [[deep_subs(c, lambda a: bind.get(a)) for c in row] for row in A]
    PA = [[sum((P[r][i] * A[i][c] for i in range(4)), Poly()) for c in range(4)] for r in range(4)]
    names = ["thrust", "roll moment", "pitch moment", "yaw moment"]
    for r in range(4):
        for c in range(4):
            v = canon(PA[r][c])
            if r != c:
                rep.check("C17.signs", "plant(%s) . mixer(%s demand) = 0 (axes decoupled)" % (names[r], names[c]), v.is_zero(), "a %s demand produces %s on the plant: %s" % (names[c], names[r], short(v, 60)), where=Wa)
            else:
                pos = positive_const(v)
                rep.check("C17.signs", "plant(%s) . mixer(%s demand) > 0 (sign conventions agree)" % (names[r], names[c]), pos is True,
                          "a positive %s demand produces a %s %s on the plant (gain %s)" % (names[c], "non-positive" if pos is False else "sign-indefinite", names[r], short(v, 60)), where=Wa,
                          fact={"gain": short(v, 80)})


def positive_const(v):
    """True if v is a positive constant (rationals and sqrt(1/2)-type atoms only), False if non-positive, None otherwise."""
    if not v.t:
        return False
    sign = None
    for mono, c in v.t.items():
        for a, e in mono:
            if not (a.kind == "sqrt" and a.key[0].const_value() is not None):
                return None
        s = c > 0
        if sign is None:
            sign = s
        elif sign != s:
            return None
    return sign


def check_gains(w, rep):
    sf = w.fe.get(SCRIPT)
    fn = w.fe.find_def(SCRIPT, "Simulator.update_controller")
    want = {"k_p_att", "kp", "ki", "kd", "i_max"}
    seen = set()
    for st in ast.walk(fn):
        if isinstance(st, ast.Assign) and len(st.targets) == 1 and isinstance(st.targets[0], ast.Name) and st.targets[0].id in want:
            nm = st.targets[0].id
            vals = None
            v = st.value
            if isinstance(v, ast.Call) and v.args and isinstance(v.args[0], (ast.List, ast.Tuple)):
                try:
                    vals = [ast.literal_eval(e) for e in v.args[0].elts]
                except Exception:
                    vals = None
            if vals is None:
                rep.incomplete("C17.gains", "gain %s is a literal array" % nm, "cannot read the gain values", where=(SCRIPT, st.lineno))
                continue
            seen.add(nm)
            rep.check("C17.gains", "gain %s is non-negative" % nm, all(x >= 0 for x in vals), "negative feedback gain in %s = %s (positive feedback)" % (nm, vals), where=(SCRIPT, st.lineno), fact={"values": vals})
    rep.check("C17.gains", "attitude and rate gains are defined in update_controller", {"k_p_att", "kp", "kd"} <= seen, "missing gains %s" % (want - seen), where=(SCRIPT, fn.lineno), nontrivial=False)


def run(w, rep, tier):
    rep.rule("C17.wiring", "every self.eqs[key](...) call of scripts/rdd2_sim.py names a key produced by a merged derive_* with matching argument and result counts; no key merged twice")
    rep.rule("C17.signs", "plant force->(thrust, moment) map (default geometry) times the mixer is diagonal with positive entries")
    rep.rule("C17.gains", "feedback gains in the script are non-negative")
    keys = script_merges(w, rep)
    check_script_calls(w, rep, keys)
    check_sign_conventions(w, rep)
    check_gains(w, rep)
    rep.floor("C17.signs", 16)
    rep.undecided_clause("stabilisation of the closed loop (convergence of trajectories): NOT decided by static analysis; the script needs ROS and cannot even be imported here")
