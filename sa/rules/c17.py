"""C17 - closed-loop stabilisation: NOT decided.  Only necessary interface conditions between the shipped cascade and
the shipped plant are (DESIGN 4, C17): wiring of scripts/rdd2_sim.py, sign conventions mixer <-> plant, gain signs."""
import ast

from .common import *
from .liecommon import *
from .c16 import subs_syms
from ..frontend import AnchorMissing
from ..poly import Poly
from ..decide import canon

SCRIPT = "scripts/rdd2_sim.py"


def script_merges(w, rep):
    """eqs.update(<module>.<derive>()) calls in Simulator.__init__ -> {key: (Function, 'module.derive')}"""
    sf = w.fe.get(SCRIPT)
    init = w.fe.find_def(SCRIPT, "Simulator.__init__")
    imports = {}
    for st in sf.tree.body:
        if isinstance(st, ast.ImportFrom) and st.module == "cyecca.models":
            for a in st.names:
                imports[a.asname or a.name] = "cyecca.models." + a.name
    keys = {}
    n = 0
    for node in ast.walk(init):
        if isinstance(node, ast.Call) and isinstance(node.func, ast.Attribute) and node.func.attr == "update" and ast.unparse(node.func.value) == "self.eqs" and node.args:
            c = node.args[0]
            if isinstance(c, ast.Call) and isinstance(c.func, ast.Attribute) and isinstance(c.func.value, ast.Name) and c.func.value.id in imports:
                modname = imports[c.func.value.id]
                fn = c.func.attr
                mod = w.mod(modname)
                n += 1
                if fn not in mod:
                    rep.fail("C17.wiring", "rdd2_sim merges %s.%s" % (c.func.value.id, fn), "%s has no %s" % (modname, fn), where=(SCRIPT, node.lineno))
                    continue
                ok, eqs = guarded(w, rep, "C17.wiring", "%s.%s()" % (c.func.value.id, fn), lambda: w.callf(mod[fn]))
                if ok and isinstance(eqs, dict):
                    for k, f in eqs.items():
                        if isinstance(f, cm.FunctionVal):
                            if k in keys:
                                rep.fail("C17.wiring", "key %r merged once" % k, "key %r produced by %s and %s: the later replaces the earlier" % (k, keys[k][1], fn), where=(SCRIPT, node.lineno))
                            keys[k] = (f, "%s.%s" % (c.func.value.id, fn))
            else:
                rep.incomplete("C17.wiring", "self.eqs.update(...) argument", "not of the form module.derive_x()", where=(SCRIPT, node.lineno))
    rep.check("C17.wiring", "rdd2_sim merges its equation sets (%d derive calls)" % n, n >= 10, "only %d merges found" % n, where=(SCRIPT, init.lineno), nontrivial=False)
    return keys


def check_script_calls(w, rep, keys):
    sf = w.fe.get(SCRIPT)
    n = 0
    for node in ast.walk(sf.tree):
        if isinstance(node, ast.Call) and isinstance(node.func, ast.Subscript) and ast.unparse(node.func.value) == "self.eqs" and isinstance(node.func.slice, ast.Constant):
            k = node.func.slice.value
            inst = "rdd2_sim: self.eqs[%r]" % k
            if k not in keys:
                rep.fail("C17.wiring", inst + " names a merged function", "no merged derive_* produces the key %r" % k, where=(SCRIPT, node.lineno))
                continue
            f = keys[k][0]
            n += 1
            fn = _enclosing(node)
            if any(isinstance(a, ast.Starred) for a in node.args):
                # arguments handed over as an unpacked tuple: the count is not visible at the call site
                rep.na("C17.wiring", "%s in %s: %d arguments" % (inst, fn, len(f.ins)), "called with *args (%s): the number of arguments is not read off the call" % ast.unparse(node)[:60])
            else:
                rep.check("C17.wiring", "%s in %s: %d arguments" % (inst, fn, len(f.ins)), len(node.args) == len(f.ins) and not node.keywords,
                          "%d positional arguments passed, %s declares %d inputs %s" % (len(node.args), f.fname, len(f.ins), f.in_names), where=(SCRIPT, node.lineno))
            par = getattr(node, "_parent", None)
            if isinstance(par, ast.Assign) and len(par.targets) == 1 and isinstance(par.targets[0], (ast.Tuple, ast.List)):
                rep.check("C17.wiring", "%s in %s: %d results unpacked" % (inst, fn, len(f.outs)), len(par.targets[0].elts) == len(f.outs),
                          "%d names unpacked, %s declares %d outputs %s" % (len(par.targets[0].elts), f.fname, len(f.outs), f.out_names), where=(SCRIPT, node.lineno))
    rep.floor("C17.wiring", 18)


def _enclosing(node):
    n = node
    while n is not None and not isinstance(n, ast.FunctionDef):
        n = getattr(n, "_parent", None)
    return n.name if n is not None else "<module>"


def check_sign_conventions(w, rep):
    """Plant map P: rotor forces -> (thrust, moment) from quadrotor.py with the default geometry; mixer A from rdd2.
    P A must be a positive diagonal matrix (decoupled axes, agreeing signs); exact reproduction needs it to be I."""
    qm = w.mod("cyecca.models.quadrotor")
    rdd2 = w.mod("cyecca.models.rdd2")
    Wq = w.where("cyecca.models.quadrotor", "derive_model")
    Wa = w.where("cyecca.models.rdd2", "derive_control_allocation")
    ok, model = guarded(w, rep, "C17.signs", "derive_model()", lambda: w.callf(qm["derive_model"]))
    ok2, al = guarded(w, rep, "C17.signs", "derive_control_allocation()", lambda: w.callf(rdd2["derive_control_allocation"]))
    if not (ok and ok2):
        return
    f, x, p = model["f"], model["x"], model["p"]
    xa = sym_atoms_of(x)
    # the script (and quadrotor.sim) builds the numeric parameter and state vectors POSITIONALLY from list(<defaults>.values()):
    # the defaults must be listed in the order of the symbolic vectors (seeded C17-12 swapped g and m in p_defaults: a 9.8 kg
    # vehicle under 2 m/s^2, same trim thrust, a position loop that no longer settles)
    nm = lambda a: a.symname if a.key[1] is None else "%s_%d" % (a.symname, a.key[1])
    for vec, dname in ((p, "p_defaults"), (x, "x0_defaults")):
        d_ = model.get(dname)
        names = [nm(a) for a in sym_atoms_of(vec)]
        if isinstance(d_, dict):
            rep.check("C17.wiring", "quadrotor %s lists its entries in the order of the symbolic vector (the simulator fills the vector positionally)" % dname, list(d_) == names,
                      "%s is ordered %s..., the vector %s...: position %d differs - list(%s.values()) assigns values to the wrong entries" % (
                          dname, [k for k, n_ in zip(d_, names) if k != n_][:2], [n_ for k, n_ in zip(d_, names) if k != n_][:2],
                          next((i for i, (k, n_) in enumerate(zip(d_, names)) if k != n_), min(len(d_), len(names))), dname), where=Wq)
    pa = {a.symname if a.key[1] is None else "%s_%d" % (a.symname, a.key[1]): a for a in sym_atoms_of(p)}
    pd = model["p_defaults"]
    geo = {pa[k]: cm.to_mat(v).s() for k, v in pd.items() if k.startswith(("dir_motor", "l_motor", "theta_motor")) and k in pa}
    # moment per unit rotor force: J * omega_dot at rest, with w_i^2 CT -> F_i
    xd = f.outs[0]
    rest = {xa[i]: Poly() for i in list(range(3, 6)) + list(range(10, 13))}
    rest.update({xa[6]: cm.ONE, xa[7]: Poly(), xa[8]: Poly(), xa[9]: Poly()})
    ground = {c: False for c in ite_conditions(xd) if c.single_atom() is not None and c.single_atom().kind == "lt" and c.single_atom().key[0] == Poly.atom(xa[2])}
    allsub = dict(geo)
    allsub.update(rest)
    xd0 = subs_syms(assign_ites(xd, ground), allsub)
    J = [Poly.atom(pa[k]) for k in ("Jx", "Jy", "Jz")]
    CT, CM, m_, g_ = (Poly.atom(pa[k]) for k in ("CT", "CM", "m", "g"))
    Fs = [Poly.sym("F%d~" % i, None) for i in range(4)]
    # w_i^2 = F_i / CT
    from ..poly import deep_subs
    wm = xa[13:17]

    def force_form(pp):
        out = Poly()
        for mono, c in pp.t.items():
            d = dict(mono)
            term = Poly.const(c)
            for a, e in d.items():
                if a in wm:
                    if e != 2:
                        return None
                    term = term * Fs[wm.index(a)] * CT.recip()
                else:
                    term = term * Poly({((a, e),): 1})
            out = out + term
        return out
    Mrow = []
    for k in range(3):
        cell = force_form(xd0.cells[10 + k][0] * J[k])
        if cell is None:
            rep.incomplete("C17.signs", "plant moment is quadratic in rotor speeds", "unexpected form", where=Wq)
            return
        Mrow.append(cell)
    Trow = force_form((xd0.cells[5][0] + g_) * m_)      # body z acceleration at rest, level: F/m - g
    if Trow is None:
        rep.incomplete("C17.signs", "plant thrust is quadratic in rotor speeds", "unexpected form", where=Wq)
        return
    from ..decide import canon
    P = [[canon(row).diff(Fs[i].single_atom()) for i in range(4)] for row in [Trow] + Mrow]
    # mixer: forces from (T, M) inside the linear range: F = A (T, M)
    fa = al["f_alloc"]
    Fmax, l, Cm, Ct, T, M = (w.sym(n, *((3,) if n == "M" else ())) for n in ("F_max", "l", "Cm", "Ct", "T", "M"))
    outs = fa(Fmax, l, Cm, Ct, T, M)
    Fm, Ft = outs[2], outs[3]
    conds = {c: False for c in ite_conditions(cm.vertcat(Fm, Ft))}       # inside the range limits
    Fsum = assign_ites(cm.ew(Fm, Ft, cm.padd), conds)
    dm = [T.s().single_atom()] + sym_atoms_of(M)
    A = [[Fsum.cells[i][0].diff(a) for a in dm] for i in range(4)]
    # bind the mixer's constants to the plant's: l = arm length (all equal by default), Cm = CM
    larm = cm.to_mat(pd["l_motor_0"]).s()
    bind = {l.s().single_atom(): larm, Cm.s().single_atom(): CM}
    A = [[deep_subs(c, lambda a: bind.get(a)) for c in row] for row in A]
    PA = [[sum((P[r][i] * A[i][c] for i in range(4)), Poly()) for c in range(4)] for r in range(4)]
    names = ["thrust", "roll moment", "pitch moment", "yaw moment"]
    for r in range(4):
        for c in range(4):
            v = canon(PA[r][c])
            if r != c:
                rep.check("C17.signs", "plant(%s) . mixer(%s demand) = 0 (axes decoupled)" % (names[r], names[c]), v.is_zero(), "a %s demand produces %s on the plant: %s" % (names[c], names[r], short(v, 60)), where=Wa)
            else:
                pos = positive_const(v)
                rep.check("C17.signs", "plant(%s) . mixer(%s demand) > 0 (sign conventions agree)" % (names[r], names[c]), pos is True,
                          "a positive %s demand produces a %s %s on the plant (gain %s)" % (names[c], "non-positive" if pos is False else "sign-indefinite", names[r], short(v, 60)), where=Wa,
                          fact={"gain": short(v, 80)})


def check_restoring(w, rep):
    """Sign of the position / velocity feedback at the level hover equilibrium (heading 0, zero error): the demanded
    force must oppose the displacement.  F = unclamped PD term u of both cascades (recovered from the generated
    frame, as in C15), composed with se23_error for the log-linear cascade; dF/dp and dF/dv must be negative
    diagonal constants, and the height integrator must integrate (reference - position).  A necessary condition of
    convergence (a positive entry is positive feedback), not the convergence itself."""
    from .c15 import demanded_force, POSITION_LOOPS
    from .c13 import clamp_parts
    from .c16 import subs_syms
    R = "C17.restoring"
    p, v, pr, vr = w.sym("p", 3), w.sym("v", 3), w.sym("p_r", 3), w.sym("v_r", 3)
    pa, va, pra, vra = (sym_atoms_of(x) for x in (p, v, pr, vr))
    at_eq = {a: Poly.atom(b) for a, b in zip(pa + va, pra + vra)}
    for modname, fn, key, zsrc in POSITION_LOOPS:
        got = demanded_force(w, rep, modname, fn, key, "C17.wiring")
        if got is None:
            continue
        f, I, O, parts, mod, W = got
        if parts == "reversed":
            rep.fail(R, "%s: the norm-limited feedback keeps the direction of the unlimited one" % key,
                     "the limited branch is -L u/|u|: for a large error (limit active) the force points away from the set-point and the error grows, which keeps the limit active", where=W)
            continue
        if parts is None:
            rep.incomplete(R, "%s: feedback term" % key, "cannot isolate the PD term of the demanded force", where=W)
            continue
        rep.ok(R, "%s: the norm-limited feedback keeps the direction of the unlimited one" % key)
        L, us, rests = parts
        u = MatVal(3, 1, [[x] for x in us])
        zi = O.get("z_i_2")
        cp = clamp_parts(zi.s()) if zi is not None else None
        zinc = MatVal(1, 1, [[cp[0] - I["z_i"].s()]]) if cp is not None and "z_i" in I else None
        if zsrc == "p":
            need = ("pt_w", "vt_w", "p_w", "v_w")
            if not all(n in I for n in need):
                rep.incomplete(R, "%s: signature" % key, "inputs %s" % f.in_names, where=W)
                continue
            m = dict(zip(sym_atoms_of(I["p_w"]) + sym_atoms_of(I["v_w"]) + sym_atoms_of(I["pt_w"]) + sym_atoms_of(I["vt_w"]), [Poly.atom(a) for a in pa + va + pra + vra]))
        else:
            emod = w.mod(modname)
            if "derive_se23_error" not in emod:
                raise AnchorMissing("%s.derive_se23_error" % modname)
            ok, eqs = guarded(w, rep, "C17.wiring", "derive_se23_error()", lambda: w.callf(emod["derive_se23_error"]))
            fe = eqs.get("se23_error") if ok and isinstance(eqs, dict) else None
            if not isinstance(fe, cm.FunctionVal) or "zeta" not in I:
                rep.incomplete(R, "%s: error function" % key, "se23_error / zeta not found", where=W)
                continue
            q1 = cm.to_mat([1, 0, 0, 0])
            ok, z = guarded(w, rep, R, "se23_error at level attitude", lambda: closed(w, fe(p, v, q1, pr, vr, q1)))
            if not ok:
                continue
            m = dict(zip(sym_atoms_of(I["zeta"]), z.flat()))
            # the same loop hovering at heading pi (q = q_r = (0,0,0,1), an exactly rational attitude): the force is a
            # WORLD-frame vector, so its gain with respect to the world position must still be negative
            qpi = cm.to_mat([0, 0, 0, 1])
            okp, zpi = guarded(w, rep, R, "se23_error at heading pi", lambda: closed(w, fe(p, v, qpi, pr, vr, qpi)))
            if okp:
                mpi = dict(zip(sym_atoms_of(I["zeta"]), zpi.flat()))
                with with_maxdeg(30):
                    upi = closed(w, subs_syms(u, mpi))
                    for name, atoms in (("position", pa), ("velocity", va)):
                        for i in range(3):
                            d = canon(subs_syms(MatVal(1, 1, [[canon(upi.cells[i][0]).diff(atoms[i])]]), at_eq).s())
                            c = d.const_value()
                            inst = "%s: d F[%d] / d %s[%d] hovering at heading pi < 0 (restoring)" % (key, i, name, i)
                            if c is None:
                                rep.incomplete(R, inst, "not a constant: %s" % short(d, 80), where=W)
                            else:
                                rep.check(R, inst, c < 0, "hovering at heading pi the world-frame %s feedback gain is %s: the SE_2(3) error X^-1 X_r is expressed in the BODY frame but added to the "
                                          "world-frame thrust vector, so the horizontal loop gain rotates with the heading and is positive feedback at 180 degrees" % (name, c), where=W, fact={"gain": str(c)})
        with with_maxdeg(30):
            u = closed(w, subs_syms(u, m))
            zinc = closed(w, subs_syms(zinc, m)) if zinc is not None else None
            for name, atoms in (("position", pa), ("velocity", va)):
                for i in range(3):
                    for j in range(3):
                        d = canon(subs_syms(MatVal(1, 1, [[canon(u.cells[i][0]).diff(atoms[j])]]), at_eq).s())
                        c = d.const_value()
                        inst = "%s: d F[%d] / d %s[%d] at the level hover equilibrium" % (key, i, name, j)
                        if c is None:
                            rep.incomplete(R, inst, "not a constant: %s" % short(d, 80), where=W)
                        elif i == j:
                            rep.check(R, inst + " < 0 (restoring)", c < 0, "the %s feedback gain is %s: a %s error produces a force in the direction of the error (positive feedback)" % (name, c, name), where=W, fact={"gain": str(c)})
                        else:
                            rep.check(R, inst + " = 0", c == 0, "cross-axis %s feedback %s at zero attitude error" % (name, c), where=W, nontrivial=False)
            if zinc is not None:
                dtA = I["dt"].s().single_atom()
                d = canon(subs_syms(MatVal(1, 1, [[canon(zinc.s()).diff(pa[2]).diff(dtA)]]), at_eq).s())
                c = d.const_value()
                inst = "%s: height integrator integrates (reference - position): d^2 z_i_2 / d p[2] d dt < 0" % key
                if c is None:
                    rep.incomplete(R, inst, "not a constant: %s" % short(d, 80), where=W)
                else:
                    rep.check(R, inst, c < 0, "the height integrator accumulates the error with gain %s: it winds away from the reference" % c, where=W, fact={"gain": str(c)})


def _frame_of(name):
    """Frame letter a script attribute name declares by its suffix: vw / vel_w / v_world -> 'w', vb / v_b -> 'b'."""
    import re
    m = re.search(r"(?:^[a-z]{1,2}|_)(w|b)$", name)
    if m:
        return m.group(1)
    if name.endswith(("_world",)):
        return "w"
    if name.endswith(("_body",)):
        return "b"
    return None


def check_frames(w, rep, keys):
    """rotate_vector_<a>_to_<b>: (1) the shipped functions are R(q)^T v (world to body) and R(q) v (body to world) for the
    body-to-world attitude quaternion q; (2) at every call site in the script the argument's declared frame (name
    suffix) is <a> and the assigned attribute's declared frame is <b>."""
    import re
    R = "C17.frames"
    Q = w.G("SO3Quat")
    q, v = w.sym("q", 4), w.sym("v", 3)
    Rm = w.call(w.elem(Q, q), "to_Matrix")
    for k, want, text in (("rotate_vector_w_to_b", cm.matmul(cm.transpose(Rm), v), "R(q)^T v"), ("rotate_vector_b_to_w", cm.matmul(Rm, v), "R(q) v")):
        if k not in keys:
            rep.incomplete(R, "%s is shipped" % k, "key not produced by the merged equation sets", where=(SCRIPT, 1))
            continue
        f, src = keys[k]
        verdict(rep, R, "%s(q, v) = %s" % (k, text), f(q, v), want, (), w.where("cyecca.models.rdd2", "derive_common"), "%s does not rotate with %s" % (k, text))
    sf = w.fe.get(SCRIPT)
    for node in ast.walk(sf.tree):
        if not (isinstance(node, ast.Call) and isinstance(node.func, ast.Subscript) and ast.unparse(node.func.value) == "self.eqs" and isinstance(node.func.slice, ast.Constant)):
            continue
        m = re.fullmatch(r"rotate_vector_(w|b)_to_(w|b)", str(node.func.slice.value))
        if not m or len(node.args) != 2:
            continue
        src_f, dst_f = m.groups()
        arg = node.args[1]
        inst = "rdd2_sim %s: self.eqs[%r]" % (_enclosing(node), node.func.slice.value)
        an = arg.attr if isinstance(arg, ast.Attribute) else arg.id if isinstance(arg, ast.Name) else None
        af = _frame_of(an) if an else None
        if af is None:
            rep.na(R, inst + " argument frame", "argument %s declares no frame" % ast.unparse(arg))
        else:
            rep.check(R, inst + " is applied to a vector declared in frame %r" % src_f, af == src_f,
                      "`%s` is declared (by its name) in frame %r but is rotated with %s" % (ast.unparse(arg), af, node.func.slice.value), where=(SCRIPT, node.lineno))
        # assigned name: climb through np.array(...).reshape(-1) wrappers
        n = node
        while getattr(n, "_parent", None) is not None and not isinstance(n._parent, ast.stmt):
            n = n._parent
        st = getattr(n, "_parent", None)
        tn = None
        if isinstance(st, ast.Assign) and len(st.targets) == 1:
            t = st.targets[0]
            tn = t.attr if isinstance(t, ast.Attribute) else t.id if isinstance(t, ast.Name) else None
        tf = _frame_of(tn) if tn else None
        if tf is None:
            rep.na(R, inst + " result frame", "the result is not assigned to a name that declares a frame")
        else:
            rep.check(R, inst + " result is stored in a name declared in frame %r" % dst_f, tf == dst_f,
                      "the result of %s is stored in `%s`, declared (by its name) in frame %r: the vector is rotated with the inverse of the intended rotation" % (node.func.slice.value, ast.unparse(st.targets[0]), tf),
                      where=(SCRIPT, node.lineno))
    rep.floor(R, 6)


def check_attitude_invariance(w, rep):
    """The attitude laws feed a BODY-rate loop: the command must depend on the measured and reference attitudes only
    through X^-1 X_r, i.e. be unchanged when both are multiplied from the left by the same rotation p (a change of the
    world frame / of the heading at which the vehicle hovers).  log(X_r X^-1) is the same vector expressed in the world
    frame: it passes every check at heading 0 and destabilises roll/pitch at other headings (seeded C17-5)."""
    from .c15 import get_fn
    R = "C17.invariance"
    Q = w.G("SO3Quat")
    kp, q, qr, pq = w.sym("kp", 3), w.sym("q", 4), w.sym("q_r", 4), w.sym("p", 4)
    quats = [tuple(sym_atoms_of(x)) for x in (q, qr, pq)]
    P = w.elem(Q, pq)
    lq = w.param(w.call(Q, "product", P, w.elem(Q, q)))
    lqr = w.param(w.call(Q, "product", P, w.elem(Q, qr)))
    for modname, fn, key in (("cyecca.models.rdd2", "derive_attitude_control", "attitude_control"),
                             ("cyecca.models.rdd2_loglinear", "derive_so3_attitude_control", "so3_attitude_control")):
        f, _ = get_fn(w, rep, modname, fn, key, rule="C17.wiring")
        if f is None:
            continue
        W = w.where(modname, fn)
        inst = "%s(p q, p q_r) = %s(q, q_r) for every rotation p (the law depends on X^-1 X_r only)" % (key, key)
        k1 = cm.vertcat(w.sym("k"), w.sym("k"), w.sym("k")) if key == "so3_attitude_control" else kp      # equal gains: J_l(e) e = e, no series atoms of |e|
        with with_maxdeg(40):
            ok, vals = guarded(w, rep, R, inst, lambda: (closed(w, f(k1, q, qr)), closed(w, f(k1, lq, lqr))))
            if not ok:
                continue
            A, B = vals
            v, d = decide_mat(B, A, quats)
        if v == EQUAL:
            rep.ok(R, inst)
        elif v == DIFFERENT:
            rep.fail(R, inst, "the commanded body rate changes when measured and reference attitude are rotated together: the error is not expressed in the body frame (heading-dependent loop gain): %s" % d, where=W)
        else:
            rep.incomplete(R, inst, "cannot decide: %s" % d, where=W)
    rep.floor(R, 2)


def positive_const(v):
    """True if v is a positive constant (rationals and sqrt(1/2)-type atoms only), False if non-positive, None otherwise."""
    if not v.t:
        return False
    sign = None
    for mono, c in v.t.items():
        for a, e in mono:
            if not (a.kind == "sqrt" and a.key[0].const_value() is not None):
                return None
        s = c > 0
        if sign is None:
            sign = s
        elif sign != s:
            return None
    return sign


def check_gains(w, rep):
    """The gain arguments of the attitude and rate loops, resolved from the call sites in update_controller through local
    names, tuple assignments, `self.X` and class-level constants to their literal arrays: every entry is non-negative."""
    sf = w.fe.get(SCRIPT)
    fn = w.fe.find_def(SCRIPT, "Simulator.update_controller")
    cls = w.fe.find_def(SCRIPT, "Simulator")

    def assigned(name, body_owner):
        """last `name = value` (also through a tuple target) among the statements of body_owner"""
        found = None
        for st in ast.walk(body_owner):
            if isinstance(st, ast.Assign) and len(st.targets) == 1:
                t = st.targets[0]
                if isinstance(t, ast.Name) and t.id == name:
                    found = st.value
                elif isinstance(t, (ast.Tuple, ast.List)) and isinstance(st.value, (ast.Tuple, ast.List)) and len(t.elts) == len(st.value.elts):
                    for e, v in zip(t.elts, st.value.elts):
                        if isinstance(e, ast.Name) and e.id == name:
                            found = v
        return found

    def resolve(e, depth=0):
        if depth > 6 or e is None:
            return e
        if isinstance(e, ast.Name):
            v = assigned(e.id, fn)
            return resolve(v, depth + 1) if v is not None else e
        if isinstance(e, ast.Attribute) and isinstance(e.value, ast.Name) and e.value.id == "self":
            for st in cls.body:            # class-level constant
                if isinstance(st, ast.Assign) and len(st.targets) == 1 and isinstance(st.targets[0], ast.Name) and st.targets[0].id == e.attr:
                    return resolve(st.value, depth + 1)
            for st in ast.walk(cls):       # self.X = ... (one binding)
                if isinstance(st, ast.Assign) and len(st.targets) == 1 and ast.unparse(st.targets[0]) == "self." + e.attr:
                    return resolve(st.value, depth + 1)
        return e

    def literal(v):
        if isinstance(v, ast.Call) and v.args and isinstance(v.args[0], (ast.List, ast.Tuple)):
            v = v.args[0]
        try:
            x = ast.literal_eval(v)
        except Exception:
            return None
        return [float(t) for t in x] if isinstance(x, (list, tuple)) else [float(x)] if isinstance(x, (int, float)) else None
    wanted = {"attitude_rate_control": {0: "kp", 1: "ki", 2: "kd", 4: "i_max"}, "attitude_control": {0: "k_p_att"}, "so3_attitude_control": {0: "k_p_att"}}
    seen = set()
    for c in ast.walk(fn):
        if isinstance(c, ast.Call) and isinstance(c.func, ast.Subscript) and ast.unparse(c.func.value) == "self.eqs" and isinstance(c.func.slice, ast.Constant) and c.func.slice.value in wanted:
            for idx, nm in wanted[c.func.slice.value].items():
                if idx >= len(c.args):
                    continue
                inst = "gain %s (argument %d of %s) is non-negative" % (nm, idx, c.func.slice.value)
                vals = literal(resolve(c.args[idx]))
                if vals is None:
                    rep.incomplete("C17.gains", inst, "cannot read the gain values of `%s`" % ast.unparse(c.args[idx]), where=(SCRIPT, c.lineno))
                    continue
                seen.add(nm)
                rep.check("C17.gains", inst, all(x >= 0 for x in vals), "negative feedback gain in %s = %s (positive feedback)" % (nm, vals), where=(SCRIPT, c.lineno), fact={"values": vals})
    rep.check("C17.gains", "attitude and rate gains reach the loops from update_controller", {"k_p_att", "kp", "kd"} <= seen, "gains not found at the call sites: %s" % ({"k_p_att", "kp", "kd"} - seen), where=(SCRIPT, fn.lineno), nontrivial=False)


def run(w, rep, tier):
    rep.rule("C17.wiring", "every self.eqs[key](...) call of scripts/rdd2_sim.py names a key produced by a merged derive_* with matching argument and result counts; no key merged twice")
    rep.rule("C17.signs", "plant force->(thrust, moment) map (default geometry) times the mixer is diagonal with positive entries")
    rep.rule("C17.restoring", "at the level hover equilibrium dF/dp and dF/dv of both cascades' demanded force are negative diagonal constants and the height integrator integrates reference minus position (necessary for convergence)")
    rep.rule("C17.frames", "rotate_vector_w_to_b / _b_to_w are R(q)^T v / R(q) v, and every call site in the script applies them to a vector whose name declares the source frame and stores the result under a name that declares the target frame")
    rep.rule("C17.invariance", "the attitude laws are invariant under a common left multiplication of measured and reference attitude (they command a body rate from X^-1 X_r)")
    rep.rule("C17.limits", "motor commands stay within limits: every motor force is clamped into [0, F_max] and omega = sqrt(F/Ct) of the clamped force (the C13.clamp obligations)")
    rep.rule("C17.plant", "the plant's attitude kinematics are the body-rate quaternion kinematics (the C16.norm obligations)")
    rep.rule("C17.setpoint", "the set-point fed to the position loops: leash as a norm clamp of the vehicle-to-set-point error, integrator clamps (the C15.clamp obligations)")
    rep.rule("C17.gains", "feedback gains in the script are non-negative")
    keys = script_merges(w, rep)
    check_script_calls(w, rep, keys)
    check_sign_conventions(w, rep)
    check_restoring(w, rep)
    check_frames(w, rep, keys)
    check_attitude_invariance(w, rep)
    # "attitude and rates settle": both attitude laws are gains times SO3Quat.log(X^-1 X_r); the loop is restoring only if
    # that log is the principal rotation vector for both signs of the error quaternion (rule shared with C03 / C15; a stale
    # half-angle gives a vector of length 2 pi - theta for q0 < 0: bang-bang gain, seeded C17-6)
    from .c03 import quat_log_principal
    with with_maxdeg(30):
        quat_log_principal(w, rep, "C17.restoring", "attitude loop: ")
    # "motor commands stay within limits": the allocator's clamps (C13.clamp)
    forward_rules(w, rep, "c13", {"C13.clamp": "C17.limits"}, tier)
    # the plant integrates BODY rates (q' = 1/2 q (0, w)): the C16 kinematics obligations; the position set-point handed to
    # the outer loop is the leashed one of input_velocity (translation-invariant 2 m limit): the C15 clamp obligations
    forward_rules(w, rep, "c16", {"C16.norm": "C17.plant", "C16.equivariance": "C17.plant"}, tier)
    forward_rules(w, rep, "c15", {"C15.clamp": "C17.setpoint"}, tier)
    rep.floor("C17.plant", 3)
    rep.floor("C17.setpoint", 9)
    rep.floor("C17.limits", 8)
    check_gains(w, rep)
    rep.floor("C17.signs", 16)
    rep.floor("C17.restoring", 46)
    rep.undecided_clause("stabilisation of the closed loop (convergence of trajectories): NOT decided by static analysis; the script needs ROS and cannot even be imported here")
