"""C14 - attitude set-points are proper rotations aligned with demanded thrust and heading (DESIGN 4, C14)."""
from .common import *
from .liecommon import *
from ..frontend import AnchorMissing
from ..poly import Poly, all_atoms, deep_subs


def tolerance_guards(M, tol=Fraction(1, 100)):
    """if_else conditions that compare a norm (sqrt) with a small constant - the 'norm is not degenerate' guards - mapped
    to the truth value that selects the REGULAR side: (k < n), (k <= n) -> True; the complements (n < k), (n <= k) -> False."""
    out = {}
    for c in ite_conditions(M):
        a = c.single_atom()
        if a is None or a.kind not in ("lt", "le"):
            continue
        for small, norm, regular_when in ((a.key[0], a.key[1], True), (a.key[1], a.key[0], False)):
            k = small.const_value()
            if k is not None and 0 <= k <= tol and any(x.kind == "sqrt" for x in norm.atoms()):
                out[c] = regular_when
    return out


def regular(M, guards):
    return assign_ites(M, guards) if guards else M


def frame_checks(w, rep, site, Rd, xC, W, thrust=None, spec=None):
    """Orthonormal right-handed frame [xB|yB|zB]; yB perpendicular to the heading vector; thrust = |v| with zB = v/|v|."""
    if not (isinstance(Rd, MatVal) and Rd.shape == (3, 3)):
        rep.fail("C14.frame", "%s attitude matrix is 3x3" % site, "attitude matrix has shape %s" % (getattr(Rd, "shape", None),), where=W)
        return None
    g = tolerance_guards(Rd)
    if thrust is not None:
        g.update(tolerance_guards(thrust))
    tol = dict(g)
    from .c07 import pole_conditions
    g.update({c: False for c in pole_conditions(Rd)})     # heading taken from a quaternion: regular Euler band
    R = regular(Rd, g)
    rep.note("%s: %d degenerate-norm guards set to the regular branch" % (site, len(g)))
    # every normalisation is guarded by a test on the norm it divides by (a guard on a different norm lets 0/0 through:
    # near-zero |zB x heading| with ordinary thrust, or ordinary |zB x heading| with the guard closed)
    seen_g = set()
    for M_ in ([Rd] + ([thrust] if thrust is not None else [])):
        for p_ in M_.flat():
            for a in all_atoms(p_):
                if a.kind != "ite" or a.key[0] not in tol:
                    continue
                reg_side = a.key[1] if tol[a.key[0]] else a.key[2]
                if not isinstance(reg_side, Poly):
                    continue
                dens = {x for mono in reg_side.t for x, e in mono if x.kind == "sqrt" and e < 0}
                tested = set(all_atoms(a.key[0]))
                for s_ in dens:
                    if (a.key[0], s_) in seen_g:
                        continue
                    seen_g.add((a.key[0], s_))
                    rep.check("C14.guard", "%s: division by %s is selected only when that norm exceeds the tolerance" % (site, short(Poly.atom(s_), 60)), s_ in tested,
                              "the branch that divides by %s is selected by %s, a test on a different quantity: the division is unguarded (0/0 -> NaN when that norm vanishes) and the fallback is taken when it need not be"
                              % (short(Poly.atom(s_), 60), short(a.key[0], 80)), where=W, fact={"guard": short(a.key[0], 100)})

    def vd(inst, A, B, what):
        """General comparison first; when it is undecided and a specialisation of the inputs is available (zero feedback
        error: the force is m a_t + trim zW with a free a_t), a difference found on that sub-family is a real difference."""
        v, d = decide_mat(A, B)
        if v == EQUAL:
            return rep.ok("C14.frame", inst)
        if v == DIFFERENT:
            return rep.fail("C14.frame", inst, "%s: value numbers differ, %s" % (what, d), where=W, fact={"difference": d})
        if spec:
            from .c16 import subs_syms
            As, Bs = closed(w, subs_syms(A, spec)), closed(w, subs_syms(B, spec))
            # the remaining selection is the norm limit of the feed-forward term: both sides of it are reachable
            joint = cm.vertcat(cm.reshape(As, As.r * As.c, 1), cm.reshape(Bs, Bs.r * Bs.c, 1))
            for label, J in (branches(joint, limit=2) or [("-", joint)]):
                k = As.r * As.c
                v2, d2 = decide_mat(w.sl(J, 0, k), w.sl(J, k, 2 * k))
                if v2 == DIFFERENT:
                    return rep.fail("C14.frame", inst, "%s (already with zero feedback error, force = m a_t + trim zW, selection %s): %s" % (what, label, d2), where=W, fact={"difference": d2})
        rep.incomplete("C14.frame", inst, "%s: cannot decide (different opaque building blocks), %s" % (what, d), where=W)

    with with_maxdeg(30):
        vd("%s: R^T R = I on the regular branch" % site, cm.matmul(cm.transpose(R), R), eye(3), "set-point matrix is not orthonormal")
        xB, yB, zB = (w.it.mat_get(R, (slice(0, 3), k)) for k in range(3))
        vd("%s: xB = yB x zB (right-handed, columns in the order x, y, z)" % site, xB, cm.cross(yB, zB), "frame is not right-handed / columns are not ordered [xB | yB | zB]")
        if xC is not None:
            vd("%s: yB . (cos psi, sin psi, 0) = 0 (body y perpendicular to the commanded heading)" % site, cm.dot(yB, xC), zeros(1, 1), "body y axis is not perpendicular to the heading direction")
            # xB has a non-negative component along the heading: xB . xC = |zB x xC| >= 0  (sign convention yB = zB x xC)
            n2 = cm.sumsqr(cm.cross(zB, xC)).s()
            vd("%s: (xB . xC)^2 = |zB x xC|^2 and yB = +(zB x xC)/|zB x xC|" % site, cm.ew(yB, cm.scalar(cm.un("sqrt", n2)), cm.pmul), cm.cross(zB, xC),
               "yB is not the normalised zB x xC (cyclic order gives the right-handed frame facing the heading)")
        if thrust is not None:
            nT = regular(thrust, g)
            v = cm.ew(zB, nT, cm.pmul)
            from ..decide import canon
            vc = [canon(p) for p in v.flat()]
            sqrt_free = all(not any(a.kind == "sqrt" for a in p.atoms()) for p in vc)
            rep.check("C14.frame", "%s: thrust * zB is the (un-normalised) demanded force" % site, sqrt_free, "returned thrust times body z still contains a norm: thrust is not |v| for zB = v/|v|", where=W)
            vv = MatVal(3, 1, [[p] for p in vc])
            verdict(rep, "C14.frame", "%s: returned thrust = |demanded force|" % site, nT, cm.scalar(cm.un("sqrt", cm.sumsqr(vv).s())), (), W, "returned thrust is not the norm of the demanded force")
    # ---- the documented fallbacks: each degenerate-norm guard taken alone (the others regular)
    tg = list(tol)
    for k_, c in enumerate(tg):
        sel = dict(g)
        sel[c] = not tol[c]
        Rdeg = regular(Rd, sel)
        if spec:
            # the frame is a function of the demanded force and the heading only: specialise the inputs so that the force is
            # m a_t + trim zW with a free feed-forward a_t (zero feedback error) - every force direction is still reached
            from .c16 import subs_syms
            Rdeg = subs_syms(Rdeg, spec)
        what = "|demanded force| (near-zero thrust)" if k_ == 0 and len(tg) > 1 else "|zB x heading| (thrust parallel to the heading)" if len(tg) > 1 else "norm"
        inst = "%s: fallback %d of %d (guard on %s) still gives an orthonormal frame" % (site, k_ + 1, len(tg), what)
        with with_maxdeg(30):
            v, d = decide_mat(cm.matmul(cm.transpose(Rdeg), Rdeg), eye(3))
        if v == EQUAL:
            rep.ok("C14.degenerate", inst)
        elif v == DIFFERENT:
            # the fallback region (norm below the tolerance) has non-empty interior and the frame entries are analytic
            # there: an identity that fails as an identity fails at points of the region
            rep.fail("C14.degenerate", inst, "on the fallback branch R^T R is not the identity: %s" % d, where=W, fact={"guard": short(c, 80)})
        else:
            rep.incomplete("C14.degenerate", inst, "cannot decide: %s" % d, where=W)
    return R


def heading_from_quat(w, qc):
    E = w.G("SO3EulerB321")
    Q = w.G("SO3Quat")
    yaw = w.it.mat_get(w.param(w.call(E, "from_Quat", w.elem(Q, qc))), 0)
    # regular Euler band
    from .c07 import pole_conditions
    yaw = assign_ites(yaw, {c: False for c in pole_conditions(yaw)})
    return yaw


def check_position_controllers(w, rep):
    Q = w.G("SO3Quat")
    for modname, fn, key, heading_in in (("cyecca.models.rdd2", "derive_position_control", "position_control", "qc_wb"),
                                         ("cyecca.models.rdd2_loglinear", "derive_outerloop_control", "se23_position_control", "qc_wb")):
        mod = w.mod(modname)
        if fn not in mod:
            raise AnchorMissing("%s.%s" % (modname, fn))
        W = w.where(modname, fn)
        ok, res = guarded(w, rep, "C14.API", "%s()" % fn, lambda: capture_calls(w, "from_Matrix", lambda: w.callf(mod[fn]), self_is=Q))
        if not ok:
            continue
        eqs, seen = res
        f = eqs.get(key) if isinstance(eqs, dict) else None
        if not isinstance(f, cm.FunctionVal):
            rep.fail("C14.API", "%s exported" % key, "%s does not return %s" % (fn, key), where=W)
            continue
        rep.ok("C14.API", "%s resolves" % key)
        if not seen:
            rep.fail("C14.flow", "%s: attitude is SO3Quat.from_Matrix of the frame" % key, "no SO3Quat.from_Matrix call while deriving the set-point", where=W)
            continue
        Rd = seen[-1]["arg"]
        outs = dict(zip(f.out_names, f.outs))
        ins = dict(zip(f.in_names, f.ins))
        if "qr_wb" not in outs or "nT" not in outs or heading_in not in ins:
            rep.fail("C14.API", "%s outputs nT, qr_wb" % key, "outputs are %s" % f.out_names, where=W)
            continue
        okq, qexp = guarded(w, rep, "C14.flow", "%s from_Matrix" % key, lambda: w.param(w.call(Q, "from_Matrix", Rd)))
        if okq:
            verdict(rep, "C14.flow", "%s: qr_wb = SO3Quat.from_Matrix([xB|yB|zB])" % key, outs["qr_wb"], qexp, (), W, "returned quaternion is not the quaternion of the constructed frame")
        yaw = heading_from_quat(w, ins[heading_in])
        xC = cm.vertcat(cm.unop("cos")(yaw), cm.unop("sin")(yaw), 0)
        spec = {}
        if "zeta" in ins:
            spec.update({a: Poly() for a in sym_atoms_of(ins["zeta"])})
        if all(k in ins for k in ("p_w", "pt_w", "v_w", "vt_w")):
            spec.update({a: Poly.atom(b) for a, b in zip(sym_atoms_of(ins["p_w"]) + sym_atoms_of(ins["v_w"]), sym_atoms_of(ins["pt_w"]) + sym_atoms_of(ins["vt_w"]))})
        frame_checks(w, rep, key, Rd, xC, W, thrust=outs["nT"], spec=spec)


def check_flatness(w, rep):
    Q = w.G("SO3Quat")
    D = w.G("SO3Dcm")
    mr = w.mod("cyecca.models.mr_ref_traj")
    bz = w.mod("cyecca.models.bezier")
    for m, name in ((mr, "derive_mr_ref_traj"), (bz, "derive_ref")):
        if name not in m:
            raise AnchorMissing(name)
    Wm = w.where("cyecca.models.mr_ref_traj", "derive_mr_ref_traj")
    Wb = w.where("cyecca.models.bezier", "derive_ref")
    ok1, e1 = guarded(w, rep, "C14.API", "derive_mr_ref_traj()", lambda: w.callf(mr["derive_mr_ref_traj"]))
    ok2, e2 = guarded(w, rep, "C14.API", "derive_ref()", lambda: w.callf(bz["derive_ref"]))
    f1 = e1.get("mr_ref_traj") if ok1 and isinstance(e1, dict) else None
    f2 = e2.get("f_ref") if ok2 and isinstance(e2, dict) else None
    names = ["psi", "psi_dot", "psi_ddot", "v_e", "a_e", "j_e", "s_e"]
    psi, psi_d, psi_dd = w.sym("psi"), w.sym("psi_dot"), w.sym("psi_ddot")
    v_e, a_e, j_e, s_e = (w.sym(n, 3) for n in ("v_e", "a_e", "j_e", "s_e"))
    common_args = [psi, psi_d, psi_dd, v_e, a_e, j_e, s_e]
    xC = cm.vertcat(cm.unop("cos")(psi), cm.unop("sin")(psi), 0)
    res1 = res2 = None
    if isinstance(f1, cm.FunctionVal):
        rep.check("C14.API", "mr_ref_traj signature", f1.in_names[:7] == names and f1.out_names == ["v_b", "C_be", "omega_eb_b", "omega_dot_eb_b", "M_b", "T"],
                  "signature %s -> %s" % (f1.in_names, f1.out_names), where=Wm)
        m_, g_, Jx, Jy, Jz, Jxz = (w.sym(n) for n in ("m", "g", "J_x", "J_y", "J_z", "J_xz"))
        okc, res1 = guarded(w, rep, "C14.API", "mr_ref_traj call", lambda: f1(*common_args, m_, g_, Jx, Jy, Jz, Jxz))
        if okc:
            v_b, C_be, om, omd, M_b, T = res1
            R = frame_checks(w, rep, "mr_ref_traj", C_be, xC, Wm, thrust=T)
            J = MatVal(3, 3, [[Jx.s(), cm.ZERO, Jxz.s()], [cm.ZERO, Jy.s(), cm.ZERO], [Jxz.s(), cm.ZERO, Jz.s()]])
            verdict(rep, "C14.euler-eq", "mr_ref_traj: M_b = J omega_dot + omega x (J omega) with the returned rates", M_b, cm.ew(cm.matmul(J, omd), cm.cross(om, cm.matmul(J, om)), cm.padd), (), Wm,
                    "returned moment does not satisfy Euler's equation for the returned rates")
            verdict(rep, "C14.flow", "mr_ref_traj: v_b = C_be^T v_e", v_b, cm.matmul(cm.transpose(C_be), v_e), (), Wm, "body velocity is not the rotated world velocity")
            # thrust axis rate: d/dt zB (along a' = j) = q xB - p yB
            if R is not None:
                g = tolerance_guards(C_be)
                g.update(tolerance_guards(T))
                with with_maxdeg(30):
                    Rr = regular(C_be, g)
                    xB, yB, zB = (w.it.mat_get(Rr, (slice(0, 3), k)) for k in range(3))
                    zdot = MatVal(3, 1)
                    for a, jk in zip(sym_atoms_of(a_e), j_e.flat()):
                        zdot = cm.ew(zdot, cm.ew(mat_diff(zB, a), jk, cm.pmul), cm.padd)
                    omr = regular(om, g)
                    p_, q_ = omr.cells[0][0], omr.cells[1][0]
                    want = cm.ew(cm.ew(xB, q_, cm.pmul), cm.ew(yB, p_, cm.pmul), cm.psub)
                    verdict(rep, "C14.rates", "mr_ref_traj: d zB/dt = q xB - p yB (roll/pitch rates are the rotation rate of the thrust axis)", zdot, want, (), Wm,
                            "returned roll/pitch rates are not the rotation rate of the thrust axis along the trajectory")
    if isinstance(f2, cm.FunctionVal):
        rep.check("C14.API", "f_ref signature", f2.in_names == names and f2.out_names == ["v_b", "quat", "omega_eb_b", "omega_dot_eb_b", "M_b", "T"],
                  "signature %s -> %s" % (f2.in_names, f2.out_names), where=Wb)
        okc, res2 = guarded(w, rep, "C14.API", "f_ref call", lambda: f2(*common_args))
    # D2: the two shipped variants agree under the constants of bezier.py
    if res1 is not None and res2 is not None and isinstance(f1, cm.FunctionVal):
        consts = [bz.get(k) for k in ("m", "g", "J_xx", "J_yy", "J_zz", "J_xz")]
        if any(c is None for c in consts):
            rep.incomplete("C14.SIB", "bezier.py constants", "module constants m, g, J_* not found", where=Wb)
        else:
            okc, r1c = guarded(w, rep, "C14.SIB", "mr_ref_traj at bezier constants", lambda: f1(*common_args, *consts))
            if okc:
                v_b, C_be, om, omd, M_b, T = r1c
                v2, q2, om2, omd2, M2, T2 = res2
                for nm, a, b in (("v_b", v_b, v2), ("omega_eb_b", om, om2), ("omega_dot_eb_b", omd, omd2), ("M_b", M_b, M2), ("T", T, T2)):
                    verdict(rep, "C14.SIB", "f_ref.%s = mr_ref_traj.%s at (m, g, J) of bezier.py" % (nm, nm), b, a, (), Wb, "the two flatness maps disagree on %s" % nm)
                okq, qexp = guarded(w, rep, "C14.SIB", "quat of C_be", lambda: w.param(w.call(Q, "from_Matrix", C_be)))
                if okq:
                    verdict(rep, "C14.SIB", "f_ref.quat = SO3Quat.from_Matrix(mr_ref_traj.C_be)", q2, qexp, (), Wb, "f_ref's quaternion is not the quaternion of mr_ref_traj's attitude matrix")


def check_helpers(w, rep):
    Q, E = w.G("SO3Quat"), w.G("SO3EulerB321")
    rdd2 = w.mod("cyecca.models.rdd2")
    bz = w.mod("cyecca.models.bezier")
    d2r = cm.ew(cm.PI, Fraction(1, 180), cm.pmul)
    # eulerB321_to_quat
    ok, eqs = guarded(w, rep, "C14.helpers", "derive_eulerB321_to_quat()", lambda: w.callf(bz["derive_eulerB321_to_quat"]))
    if ok:
        f = eqs.get("eulerB321_to_quat")
        y, p, r = w.sym("yaw"), w.sym("pitch"), w.sym("roll")
        okc, q = guarded(w, rep, "C14.helpers", "eulerB321_to_quat call", lambda: f(y, p, r))
        if okc:
            want = w.param(w.call(Q, "from_Euler", w.elem(E, cm.vertcat(y, p, r))))
            verdict(rep, "C14.helpers", "eulerB321_to_quat(yaw, pitch, roll) = SO3Quat.from_Euler((yaw, pitch, roll))", q, want, (), w.where("cyecca.models.bezier", "derive_eulerB321_to_quat"),
                    "helper does not return the quaternion of the B321 Euler triple in (yaw, pitch, roll) order")
    # input_auto_level
    ok, eqs = guarded(w, rep, "C14.helpers", "derive_input_auto_level()", lambda: w.callf(rdd2["derive_input_auto_level"]))
    if ok:
        f = eqs.get("input_auto_level")
        tt, td, aetr, q = w.sym("thrust_trim"), w.sym("thrust_delta"), w.sym("input_aetr", 4), w.sym("q", 4)
        okc, outs = guarded(w, rep, "C14.helpers", "input_auto_level call", lambda: f(tt, td, aetr, q))
        if okc:
            q_r, thrust = outs
            yaw = w.it.mat_get(w.param(w.call(E, "from_Quat", w.elem(Q, q))), 0)
            ymax, rpmax = rdd2.get("yaw_rate_max"), rdd2.get("rollpitch_max")
            er = cm.vertcat(cm.ew(yaw, cm.ew(cm.ew(ymax, d2r, cm.pmul), w.it.mat_get(aetr, 3), cm.pmul), cm.padd),
                            cm.ew(cm.ew(rpmax, d2r, cm.pmul), w.it.mat_get(aetr, 1), cm.pmul), cm.ew(cm.ew(rpmax, d2r, cm.pmul), w.it.mat_get(aetr, 0), cm.pmul))
            want = w.param(w.call(Q, "from_Euler", w.elem(E, er)))
            inst = "input_auto_level: q_r = SO3Quat.from_Euler((yaw + rudder, elevator, aileron) scaled)"
            what = "auto-level set-point is not the quaternion of (yaw + yaw stick, pitch stick, roll stick)"
            Wh = w.where("cyecca.models.rdd2", "derive_input_auto_level")
            v0, _ = decide_mat(q_r, want, ())
            if v0 == EQUAL or not (isinstance(q_r, MatVal) and q_r.shape == (4, 1)):
                verdict(rep, "C14.helpers", inst, q_r, want, (), Wh, what)
            else:
                # not built by that call: the same statement on what the quaternion denotes - its rotation matrix is the
                # matrix of the Euler triple and it has unit norm (a quaternion is determined by these up to sign)
                # change of variables: the yaw set-point (heading of q + stick) becomes one fresh angle
                y0 = er.cells[0][0]
                opq = [a for a in y0.atoms() if a.kind != "sym"] if hasattr(y0, "atoms") else [a for a in all_atoms(y0) if a.kind != "sym" and Poly.atom(a) in [Poly({m: 1}) for m in y0.t]]
                if len(opq) == 1 and y0.t.get(((opq[0], 1),)) == 1:
                    A = opq[0]
                    psi = w.sym("psi~sp").s()
                    repl = psi - (y0 - Poly.atom(A))
                    memo = {}
                    sub = lambda M: MatVal(M.r, M.c, [[deep_subs(c_, lambda a: repl if a is A or a == A else None, memo) for c_ in row] for row in M.cells], M.kind)
                    q_r, er = sub(q_r), sub(er)
                # ... and the stick deflections are measured in units of 1/pi (the scale factors carry pi): a bijective
                # change of variables that leaves rational multiples of plain angles
                pis = [a for a in all_atoms(er.cells[1][0]) | all_atoms(er.cells[2][0]) if a.kind == "sym" and a.key[0] == "pi"]
                if pis:
                    from .c16 import subs_syms
                    ipi = Poly({((pis[0], -1),): 1})
                    mp = {a: Poly.atom(a) * ipi for a in sym_atoms_of(aetr)[:2]}
                    q_r, er = subs_syms(q_r, mp), subs_syms(er, mp)
                with with_maxdeg(30):
                    Ra = w.call(w.elem(Q, q_r), "to_Matrix")
                    Rb = w.call(w.elem(E, er), "to_Matrix")
                    n2 = cm.sumsqr(q_r)
                    v1, d1 = decide_mat(Ra, Rb, ())
                    v2, d2 = decide_mat(n2, cm.to_mat(1), ())
                rep.note("input_auto_level decided on rotation matrix / norm: %s / %s" % (v1, v2))
                if v2 == DIFFERENT:
                    rep.fail("C14.helpers", inst, "%s: the set-point quaternion is not unit, |q|^2 - 1: %s" % (what, d2), where=Wh)
                elif v1 == DIFFERENT and v2 == EQUAL:
                    rep.fail("C14.helpers", inst, "%s: the unit quaternion returned denotes another rotation, %s" % (what, d1), where=Wh)
                elif v1 == EQUAL and v2 == EQUAL:
                    rep.ok("C14.helpers", inst, fact={"decided_on": "rotation matrix and unit norm"})
                else:
                    verdict(rep, "C14.helpers", inst, q_r, want, (), Wh, what)
    # input_velocity q_sp
    ok, eqs = guarded(w, rep, "C14.helpers", "derive_input_velocity()", lambda: w.callf(rdd2["derive_input_velocity"]))
    if ok:
        f = eqs.get("input_velocity")
        outs = dict(zip(f.out_names, f.outs))
        if "q_sp" in outs and "psi_sp1" in outs:
            want = w.param(w.call(Q, "from_Euler", w.elem(E, cm.vertcat(outs["psi_sp1"], 0, 0))))
            verdict(rep, "C14.helpers", "input_velocity: q_sp = SO3Quat.from_Euler((psi_sp1, 0, 0))", outs["q_sp"], want, (), w.where("cyecca.models.rdd2", "derive_input_velocity"),
                    "velocity-mode attitude set-point is not the level quaternion at the yaw set-point")


def run(w, rep, tier):
    rep.rule("C14.API", "the set-point generators resolve with the documented signatures")
    rep.rule("C14.frame", "on the regular branch: R^T R = I, xB = yB x zB, yB = (zB x xC)/|zB x xC| perpendicular to the heading, thrust = |v| with zB = v/|v|")
    rep.rule("C14.force", "the demanded force whose direction is body z is the norm-limited feedback term plus (thrust_trim + ki_z z_i) along world z (shared with C15.clamp)")
    rep.rule("C14.guard", "each normalised vector v/|v| of the frame construction is selected by the tolerance test on that same |v|")
    rep.rule("C14.degenerate", "each degenerate-norm fallback (near-zero thrust, thrust parallel to the heading), taken alone, still yields R^T R = I")
    rep.rule("C14.flow", "returned attitude is SO3Quat.from_Matrix of the constructed frame; v_b = C_be^T v_e")
    rep.rule("C14.euler-eq", "M_b = J omega_dot + omega x (J omega) with the very rates that are returned")
    rep.rule("C14.rates", "d zB/dt along the trajectory (a' = j) equals q xB - p yB")
    rep.rule("C14.SIB", "f_ref and mr_ref_traj agree output by output at the constants of bezier.py")
    rep.rule("C14.helpers", "auto-level, Euler-to-quaternion and velocity-mode set-points are SO3Quat.from_Euler of the documented triple (unit quaternion by C07)")
    from .c15 import check_position_loops2
    check_position_loops2(w, rep, RULE="C14.force", RA="C14.API")
    with with_maxdeg(30):
        check_position_controllers(w, rep)
        check_flatness(w, rep)
        check_helpers(w, rep)
    # the returned quaternion represents the constructed frame only if every selection of SO3Quat.from_Matrix is a right
    # inverse of to_Matrix (rule shared with C07; an inverted thrust demand with a rearward heading reaches branch 3)
    from .c07 import check_from_matrix
    check_from_matrix(w, rep, R="C14.flow", RV="C14.flow", RS="C14.flow")
    rep.floor("C14.frame", 14)
    rep.floor("C14.degenerate", 6)
    rep.floor("C14.guard", 4)
    rep.floor("C14.SIB", 6)
    rep.undecided_clause("rates, moment and thrust magnitude on the degenerate branches (only orthonormality of the fallback frames is decided, C14.degenerate)")
    rep.undecided_clause("yaw rate r and the angular acceleration of the flatness maps (Euler-rate singularities)")
