"""C20 - simulation bus (uros), parameter broadcast, logger rows, estimator rate limiting (DESIGN 4, C20).

Everything is decided on the syntax tree with sa/cfgwalk.py: `facts` = branch conditions that hold on every
path to a statement, `done` = statements completed on every path to it.  Nothing of cyecca is imported or run.
"""
import ast
import copy

from ..cfgwalk import (Flow, Locals, FUNCS, unp, qualname, enclosing_function, enclosing_class,
                       enclosing_stmt, canon_cmp, linform, parents, assigned_locs, mentions)
from ..frontend import AnchorMissing

UROS = "cyecca/sim/uros.py"
MSGS = "cyecca/sim/msgs.py"
EST = "cyecca/estimate/attitude/estimator.py"
REGISTRIES = ("_subscribers", "_publishers", "_declared_params")
# what cyecca may use of the simpy.Environment base class of Core
SIMPY_ENV = {"now", "run", "process", "timeout", "event", "all_of", "any_of", "step", "peek", "schedule", "exit",
             "active_process"}
MUTATORS = {"append", "insert", "pop", "remove", "clear", "sort", "reverse", "extend", "update", "setdefault",
            "popitem", "__setitem__", "__delitem__", "__iadd__"}
READERS = {"get", "items", "keys", "values", "copy", "index", "count", "__len__", "__contains__", "__iter__", "__getitem__"}
PURE_FUNCS = {"len", "list", "tuple", "iter", "enumerate", "sorted", "reversed", "dict", "set", "any", "all", "bool", "print", "repr", "str"}


def _guard_like(m):
    """A method whose body only tests and raises / returns None: `self.m(args)` as a statement is then a guard."""
    def ok(stmts):
        for st in stmts:
            if isinstance(st, ast.If):
                if not (ok(st.body) and ok(st.orelse)):
                    return False
            elif isinstance(st, ast.Return):
                if st.value is not None and not (isinstance(st.value, ast.Constant) and st.value.value is None):
                    return False
            elif isinstance(st, (ast.Raise, ast.Pass)) or (isinstance(st, ast.Expr) and isinstance(st.value, ast.Constant)):
                continue
            else:
                return False
        return True
    return not m.decorator_list and not m.args.vararg and not m.args.kwarg and not m.args.kwonlyargs and ok(m.body) and any(isinstance(x, ast.Raise) for x in ast.walk(m))


def _without_returns(stmts):
    """stmts with every `return` removed by nesting what follows it into the other branch -> (statements, may fall through)."""
    out = []
    for i, st in enumerate(stmts):
        if isinstance(st, ast.Return):
            return out, False
        if isinstance(st, ast.Raise):
            return out + [st], False
        if isinstance(st, ast.If):
            b, fb = _without_returns(st.body)
            e, fe = _without_returns(st.orelse)
            if fb and fe:
                out.append(ast.If(test=st.test, body=b or [ast.Pass()], orelse=e))
                continue
            rest, fr = _without_returns(stmts[i + 1:])
            if not fb and not fe:
                out.append(ast.If(test=st.test, body=b or [ast.Pass()], orelse=e))
                return out, False
            if not fb:
                out.append(ast.If(test=st.test, body=b or [ast.Pass()], orelse=e + rest))
            else:
                out.append(ast.If(test=st.test, body=(b + rest) or [ast.Pass()], orelse=e))
            return out, fr
        if isinstance(st, ast.Expr) and isinstance(st.value, ast.Constant):
            continue
        out.append(st)
    return out, True


def _clone_expr(e):
    return ast.parse(ast.unparse(e), mode="eval").body


def _clone_stmts(stmts):
    return ast.parse("\n".join(ast.unparse(x) for x in stmts)).body if stmts else []


def _relocate(nodes, at):
    for b in nodes:
        for x in ast.walk(b):
            ast.copy_location(x, at)
            if hasattr(x, "end_lineno"):
                x.end_lineno = getattr(at, "end_lineno", getattr(at, "lineno", None))
        ast.fix_missing_locations(b)


def _body_sans_doc(m):
    return [b for b in m.body if not (isinstance(b, ast.Expr) and isinstance(b.value, ast.Constant))]


def _simple_sig(m):
    return not m.decorator_list and not m.args.vararg and not m.args.kwarg and not m.args.kwonlyargs and not m.args.defaults \
        and not any(isinstance(x, (ast.Yield, ast.YieldFrom, ast.Await, ast.Global, ast.Nonlocal)) for x in ast.walk(m))


def _procedure_like(m):
    """No value is returned and nothing but straight-line code, ifs and loops: a call statement can be replaced by the body."""
    for x in ast.walk(m):
        if isinstance(x, ast.Return) and x.value is not None and not (isinstance(x.value, ast.Constant) and x.value.value is None):
            return False
        if isinstance(x, FUNCS + (ast.ClassDef, ast.Try, ast.With)) and x is not m:
            return False
        if isinstance(x, ast.Call) and isinstance(x.func, ast.Attribute) and isinstance(x.func.value, ast.Name) and x.func.value.id == "self" and x.func.attr == m.name:
            return False
    # a `return` inside a loop cannot be eliminated by nesting
    for lp in [x for x in ast.walk(m) if isinstance(x, (ast.For, ast.While))]:
        if any(isinstance(y, ast.Return) for y in ast.walk(lp)):
            return False
    return True


def _subst_params(nodes, sub):
    """Parameters replaced by the call's arguments.  A lambda in the helper body captures the helper's PARAMETER, which is
    bound when the helper is called; inlined, it must not start reading the caller's variable late: the captured
    parameters become defaults of the lambda (`lambda msg: f(topic, msg)` -> `lambda msg, topic=<argument>: f(topic, msg)`)."""
    class S(ast.NodeTransformer):
        def __init__(self, shadow=frozenset()):
            self.shadow = shadow

        def visit_Name(self, n):
            return _clone_expr(sub[n.id]) if n.id in sub and n.id not in self.shadow and isinstance(n.ctx, ast.Load) else n

        def visit_Lambda(self, L):
            own = {a.arg for a in L.args.args + L.args.kwonlyargs + getattr(L.args, "posonlyargs", [])}
            used = [x for x in dict.fromkeys(n.id for n in ast.walk(L.body) if isinstance(n, ast.Name) and isinstance(n.ctx, ast.Load)) if x in sub and x not in own and x not in self.shadow]
            for d_ in L.args.defaults:
                self.visit(d_)
            for p_ in used:
                L.args.args.append(ast.arg(arg=p_))
                L.args.defaults.append(_clone_expr(sub[p_]))
            L.body = S(self.shadow | own | set(used)).visit(L.body)
            return L
    return [S().visit(b) for b in nodes]


def _access_path(e):
    """self.a.b, param.name, self.x.data['k'], core._registry[topic] ... -> root Name, or None if e is not such a path."""
    while True:
        if isinstance(e, ast.Attribute):
            e = e.value
        elif isinstance(e, ast.Subscript) and isinstance(e.slice, (ast.Constant, ast.Name)):
            e = e.value
        elif isinstance(e, ast.Name):
            return e.id
        else:
            return None


def copy_propagate(fn):
    """A local bound once to an access path that nothing in the function re-binds (`declared = self._declared_params`,
    `name = param.name`, `latest = self.data_latest.data`) is replaced by that path in the statements after it: a store
    through the alias is a store into the object, and the rules see it as such."""
    params = {a.arg for a in fn.args.args + fn.args.kwonlyargs + getattr(fn.args, "posonlyargs", [])}
    stores = {}
    for x in ast.walk(fn):
        tgts = []
        if isinstance(x, ast.Assign):
            tgts = x.targets
        elif isinstance(x, (ast.AugAssign, ast.AnnAssign)):
            tgts = [x.target]
        elif isinstance(x, (ast.For, ast.comprehension)):
            tgts = [x.target]
        elif isinstance(x, ast.Delete):
            tgts = x.targets
        elif isinstance(x, ast.withitem) and x.optional_vars is not None:
            tgts = [x.optional_vars]
        elif isinstance(x, ast.NamedExpr):
            tgts = [x.target]
        for t in tgts:
            for y in ([t] if not isinstance(t, (ast.Tuple, ast.List)) else list(ast.walk(t))):
                if isinstance(y, (ast.Name, ast.Attribute, ast.Subscript)):
                    stores.setdefault(unp(y), []).append(x)
    cands = {}
    for st in fn.body:
        if isinstance(st, ast.Assign) and len(st.targets) == 1 and isinstance(st.targets[0], ast.Name):
            nm, v = st.targets[0].id, st.value
            root = _access_path(v)
            if root is None or isinstance(v, ast.Name) or nm in params or len(stores.get(nm, [])) != 1:
                continue
            if root != "self" and root not in params:
                continue
            # no prefix of the path is re-bound anywhere in the function (element stores below it are fine)
            prefixes, e = [], v
            while not isinstance(e, ast.Name):
                prefixes.append(unp(e))
                e = e.value
            prefixes.append(e.id)
            if any(pfx in stores for pfx in prefixes):
                continue
            if isinstance(v, ast.Subscript) and isinstance(v.slice, ast.Name) and v.slice.id in stores:
                continue
            cands[nm] = (st, v)
    if not cands:
        return

    class P(ast.NodeTransformer):
        def visit_Name(self, n):
            if isinstance(n.ctx, ast.Load) and n.id in cands and n.lineno > cands[n.id][0].lineno:
                r = _clone_expr(cands[n.id][1])
                _relocate([r], n)
                return r
            return n
    for i, st in enumerate(fn.body):
        fn.body[i] = P().visit(st)


def _namedtuple_fields(trees):
    """name -> field list for module-level `X = namedtuple("X", [...])` / `class X(NamedTuple): a: T ...` definitions"""
    out = {}
    for tree in trees:
        for st in tree.body:
            if isinstance(st, ast.Assign) and len(st.targets) == 1 and isinstance(st.targets[0], ast.Name) and isinstance(st.value, ast.Call) \
                    and unp(st.value.func).split(".")[-1] == "namedtuple" and len(st.value.args) >= 2:
                try:
                    f = ast.literal_eval(st.value.args[1])
                except (ValueError, SyntaxError):
                    continue
                out[st.targets[0].id] = f.replace(",", " ").split() if isinstance(f, str) else list(f)
            elif isinstance(st, ast.ClassDef) and any(unp(b_).split(".")[-1] == "NamedTuple" for b_ in st.bases):
                out[st.name] = [x.target.id for x in st.body if isinstance(x, ast.AnnAssign) and isinstance(x.target, ast.Name)]
    return out


def _tuple_elements(e, nt_fields):
    """element expressions of a tuple display or of a namedtuple construction (positional and keyword arguments in field order)"""
    if isinstance(e, (ast.Tuple, ast.List)):
        return list(e.elts)
    if isinstance(e, ast.Call) and isinstance(e.func, ast.Name) and e.func.id in nt_fields and not any(isinstance(a, ast.Starred) for a in e.args):
        fields = nt_fields[e.func.id]
        vals = dict(zip(fields, e.args))
        for k in e.keywords:
            if k.arg is None:
                return None
            vals[k.arg] = k.value
        return [vals[f] for f in fields] if set(vals) == set(fields) else None
    return None


def _value_helper(m, is_method):
    """straight-line statements followed by one final `return <expr>` (no other return): a call whose value is assigned can be
    replaced by the statements and an assignment of the returned expression"""
    body = _body_sans_doc(m)
    if len(body) < 2 or not isinstance(body[-1], ast.Return) or body[-1].value is None or not _simple_sig(m):
        return False
    for st in body[:-1]:
        for x in ast.walk(st):
            if isinstance(x, (ast.Return, ast.For, ast.While, ast.Try, ast.With) + FUNCS + (ast.ClassDef, ast.Lambda)):
                return False
    return True


def _locals_of(m):
    out = []
    for x in ast.walk(m):
        if isinstance(x, ast.Name) and isinstance(x.ctx, ast.Store) and x.id not in out:
            out.append(x.id)
    return out


def unroll_literal_loops(fn):
    """`for a, b, c in TABLE: body` with TABLE a literal tuple / list of tuples (given in place or bound once in the function)
    becomes the statements of the body for each row; `setattr(self, "name", v)` becomes `self.name = v`.  A parameter table
    walked by a loop declares the same attributes as the statements it replaced."""
    binds = {}
    for st in fn.body:
        if isinstance(st, ast.Assign) and len(st.targets) == 1 and isinstance(st.targets[0], ast.Name) and isinstance(st.value, (ast.Tuple, ast.List)):
            binds.setdefault(st.targets[0].id, []).append(st.value)

    def rows_of(it):
        if isinstance(it, ast.Name) and len(binds.get(it.id, [])) == 1:
            it = binds[it.id][0]
        if isinstance(it, (ast.Tuple, ast.List)) and it.elts and len(it.elts) <= 64:
            return list(it.elts)
        return None

    def rewrite(stmts):
        res = []
        for st in stmts:
            for fld in ("body", "orelse", "finalbody"):
                if isinstance(getattr(st, fld, None), list) and not isinstance(st, FUNCS + (ast.ClassDef,)):
                    setattr(st, fld, rewrite(getattr(st, fld)))
            if isinstance(st, ast.For) and not st.orelse and not any(isinstance(x, (ast.Break, ast.Continue)) for x in ast.walk(st)):
                rows = rows_of(st.iter)
                tg = st.target
                names = [tg.id] if isinstance(tg, ast.Name) else [e.id for e in tg.elts] if isinstance(tg, (ast.Tuple, ast.List)) and all(isinstance(e, ast.Name) for e in tg.elts) else None
                if rows is not None and names is not None:
                    ok_rows = [r.elts if isinstance(tg, (ast.Tuple, ast.List)) and isinstance(r, (ast.Tuple, ast.List)) and len(r.elts) == len(names) else [r] if isinstance(tg, ast.Name) else None for r in rows]
                    stored = {x.id for b_ in st.body for x in ast.walk(b_) if isinstance(x, ast.Name) and isinstance(x.ctx, ast.Store)}
                    if all(r is not None for r in ok_rows) and not (stored & set(names)):
                        for r in ok_rows:
                            body = _subst_params(_clone_stmts(st.body), dict(zip(names, r)))
                            _relocate(body, st)
                            res.extend(body)
                        continue
            res.append(st)
        return res
    fn.body = rewrite(fn.body)
    for x in ast.walk(fn):
        for fld in ("body", "orelse", "finalbody"):
            lst = getattr(x, fld, None)
            if isinstance(lst, list):
                for i, st in enumerate(lst):
                    c = st.value if isinstance(st, ast.Expr) else None
                    if isinstance(c, ast.Call) and isinstance(c.func, ast.Name) and c.func.id == "setattr" and len(c.args) == 3 and not c.keywords \
                            and isinstance(c.args[1], ast.Constant) and isinstance(c.args[1].value, str) and c.args[1].value.isidentifier():
                        new = ast.Assign(targets=[ast.Attribute(value=c.args[0], attr=c.args[1].value, ctx=ast.Store())], value=c.args[2])
                        _relocate([new], st)
                        lst[i] = new


def normalise_helpers(tree, mod_funcs=None, mod_aliases=(), nt_fields=None):
    """Source normalisation ahead of the flow rules:
    (1) `self.m(args)` / `helper(args)` / `module.helper(args)` anywhere, the callee's body a single `return <expr>`: replaced by
        that expression (a lambda in it keeps the captured parameters early-bound);
    (2) a call STATEMENT of a guard-like callee (only tests, raise, return None) or of a private procedure (`_name`) or a
        module-level procedure of the bus files: replaced by the body, returns eliminated by nesting;
    (3) `T = helper(args)` with the callee straight-line code ending in one `return <expr>`: the body (its locals renamed) and
        `T = <expr>`, a tuple target against a tuple / namedtuple construction split into single assignments;
    (4) loops over a literal table unrolled, `setattr(self, "name", v)` turned into `self.name = v`;
    (5) locals bound once to an access path replaced by the path (copy_propagate).
    A guard, a gate, a publication, a registry store or a parameter declaration moved into a helper, a table or behind a
    local alias is then the same construct for every rule."""
    mod_funcs = mod_funcs or {}
    nt_fields = nt_fields or {}
    inlined_private = set()

    def callee_of(c, cls_meths, m_name):
        """-> (kind, def, drop_self) for a call node, or None"""
        f = c.func
        if c.keywords or any(isinstance(a, ast.Starred) for a in c.args):
            return None
        if isinstance(f, ast.Attribute) and isinstance(f.value, ast.Name) and f.value.id == "self" and f.attr in cls_meths and f.attr != m_name:
            return cls_meths[f.attr], True
        if isinstance(f, ast.Name) and f.id in mod_funcs and f.id != m_name:
            return mod_funcs[f.id], False
        if isinstance(f, ast.Attribute) and isinstance(f.value, ast.Name) and f.value.id in mod_aliases and f.attr in mod_funcs:
            return mod_funcs[f.attr], False
        return None

    def process(owner_funcs, cls_meths):
        expr_ok = lambda h: _simple_sig(h) and len(_body_sans_doc(h)) == 1 and isinstance(_body_sans_doc(h)[0], ast.Return) and _body_sans_doc(h)[0].value is not None \
            and not h.name.startswith("__")
        # methods: guard-like ones and private procedures; module-level functions: private ones, and public procedures that
        # cannot raise (uros.check_nan stays a call: it raises, and a raise ends the run rather than a path through the callback)
        has_raise = lambda h: any(isinstance(x, ast.Raise) for x in ast.walk(h))
        proc_ok = lambda h, is_m: _simple_sig(h) and not expr_ok(h) and not h.name.startswith("__") and (
            (_guard_like(h) or (h.name.startswith("_") and _procedure_like(h))) if is_m else
            ((h.name.startswith("_") and (_guard_like(h) or _procedure_like(h))) or (_procedure_like(h) and not has_raise(h))))
        for _pass in range(2):
            for m in owner_funcs:
                class E(ast.NodeTransformer):
                    def visit_Call(self, c):
                        self.generic_visit(c)
                        hit = callee_of(c, cls_meths, m.name)
                        if hit and expr_ok(hit[0]):
                            h, is_m = hit
                            ps = [a.arg for a in h.args.args][1 if is_m else 0:]
                            if len(ps) == len(c.args):
                                out = _subst_params([_clone_expr(_body_sans_doc(h)[0].value)], dict(zip(ps, c.args)))[0]
                                _relocate([out], c)
                                return out
                        return c

                def rewrite(stmts):
                    res = []
                    for st in stmts:
                        for fld in ("body", "orelse", "finalbody"):
                            if isinstance(getattr(st, fld, None), list) and not isinstance(st, FUNCS + (ast.ClassDef,)):
                                setattr(st, fld, rewrite(getattr(st, fld)))
                        c = st.value if isinstance(st, ast.Expr) else None
                        hit = callee_of(c, cls_meths, m.name) if isinstance(c, ast.Call) else None
                        if hit and proc_ok(*hit):
                            h, is_m = hit
                            ps = [a.arg for a in h.args.args][1 if is_m else 0:]
                            if len(ps) == len(c.args):
                                body, _ = _without_returns(_clone_stmts(_body_sans_doc(h)))
                                body = _subst_params(body, dict(zip(ps, c.args)))
                                _relocate(body, st)
                                res.extend(body or [ast.Pass(lineno=st.lineno, col_offset=st.col_offset)])
                                if not is_m and h.name.startswith("_"):
                                    inlined_private.add(h.name)
                                continue
                        # T = helper(args), helper straight-line code + one final return
                        if isinstance(st, ast.Assign) and len(st.targets) == 1 and isinstance(st.value, ast.Call):
                            hit = callee_of(st.value, cls_meths, m.name)
                            if hit and _value_helper(hit[0], hit[1]):
                                h, is_m = hit
                                ps = [a.arg for a in h.args.args][1 if is_m else 0:]
                                if len(ps) == len(st.value.args):
                                    hb = _clone_stmts(_body_sans_doc(h))
                                    ren = {nm: "_%s_%s" % (h.name.strip("_"), nm) for nm in _locals_of(h) if nm not in ps}

                                    class R(ast.NodeTransformer):
                                        def visit_Name(self, n):
                                            if n.id in ren:
                                                n.id = ren[n.id]
                                            return n
                                    hb = [R().visit(x) for x in hb]
                                    hb = _subst_params(hb, dict(zip(ps, st.value.args)))
                                    ret = hb[-1].value
                                    out = hb[:-1]
                                    tg = st.targets[0]
                                    els = _tuple_elements(ret, nt_fields) if isinstance(tg, (ast.Tuple, ast.List)) else None
                                    if els is not None and len(els) == len(tg.elts) and all(isinstance(e, (ast.Name, ast.Attribute)) for e in tg.elts):
                                        out += [ast.Assign(targets=[e], value=v) for e, v in zip(tg.elts, els)]
                                    else:
                                        out.append(ast.Assign(targets=[tg], value=ret))
                                    _relocate(out, st)
                                    res.extend(out)
                                    continue
                        res.append(st)
                    return res
                m.body = rewrite([E().visit(st) for st in m.body])
        for m in owner_funcs:
            unroll_literal_loops(m)
            copy_propagate(m)

    for cls in [n for n in ast.walk(tree) if isinstance(n, ast.ClassDef)]:
        meths = {m.name: m for m in cls.body if isinstance(m, FUNCS)}
        process(list(meths.values()), meths)
        # a private method that is not referenced any more (every call was replaced by its body) is dropped: what it does
        # is now counted once, where it is done
        for nm in [k for k in meths if k.startswith("_") and not k.startswith("__")]:
            refs = [x for m_ in cls.body if not (isinstance(m_, FUNCS) and m_.name == nm) for x in ast.walk(m_)
                    if isinstance(x, ast.Attribute) and x.attr == nm and isinstance(x.value, ast.Name) and x.value.id == "self"]
            if not refs and (_guard_like(meths[nm]) or _procedure_like(meths[nm]) or _value_helper(meths[nm], True) or len(_body_sans_doc(meths[nm])) == 1):
                cls.body = [m_ for m_ in cls.body if m_ is not meths[nm]]
    process([f for f in tree.body if isinstance(f, FUNCS)], {})
    return inlined_private


def renumber(tree):
    """After inlining, several statements share the line of the call they replaced; the flow rules order definitions and uses
    by line.  Every statement gets its own line number in execution (source) order - original numbers are kept in
    `_orig_lineno` for reporting - and the nodes inside a statement take the statement's number."""
    counter = [0]

    def stmt_list(stmts):
        for st in stmts:
            counter[0] += 1
            new = counter[0]
            orig = getattr(st, "_orig_lineno", getattr(st, "lineno", 0))
            for x in ast.walk(st) if not isinstance(st, FUNCS + (ast.ClassDef, ast.If, ast.For, ast.While, ast.With, ast.Try)) else [st] + [y for f_ in ("test", "iter", "target", "items", "args", "decorator_list", "bases") for z in ([getattr(st, f_)] if isinstance(getattr(st, f_, None), ast.AST) else getattr(st, f_, []) or []) for y in ast.walk(z)]:
                if hasattr(x, "lineno") or isinstance(x, (ast.expr, ast.stmt)):
                    if not hasattr(x, "_orig_lineno"):
                        x._orig_lineno = getattr(x, "lineno", orig)
                    x.lineno = new
                    x.end_lineno = new
            for fld in ("body", "orelse", "finalbody", "handlers"):
                sub = getattr(st, fld, None)
                if isinstance(sub, list) and sub and isinstance(sub[0], ast.AST):
                    if fld == "handlers":
                        for h in sub:
                            stmt_list(h.body)
                    else:
                        stmt_list(sub)
            st.end_lineno = counter[0]
    stmt_list(tree.body)


def relink_parents(tree):
    for node in ast.walk(tree):
        for ch in ast.iter_child_nodes(node):
            ch._parent = node


class Ctx:
    """Per-run caches: Flow / Locals per function, class tables."""

    def __init__(self, w, rep):
        self.fe, self.rep = w.fe, rep
        self._flow, self._loc = {}, {}
        sfs = [sf for sf in (self.fe.get(rel) for rel in (UROS, MSGS, EST)) if sf is not None]
        if any(not getattr(sf, "_helpers_normalised", False) for sf in sfs):
            # module-level helper functions of the bus files (uros.update_params(...), _register_subscriber(core, sub)) are
            # inlined like private methods; the inlined private ones are then dropped, so that what they did counts once, at
            # the place it is done
            mod_funcs = {f.name: f for sf in sfs for f in sf.tree.body if isinstance(f, FUNCS)}
            nt = _namedtuple_fields([sf.tree for sf in sfs])
            gone = set()
            for sf in sfs:
                gone |= normalise_helpers(sf.tree, mod_funcs, ("uros", "msgs"), nt)
                sf._helpers_normalised = True
            for sf in sfs:
                still = {x.func.id if isinstance(x.func, ast.Name) else x.func.attr for x in ast.walk(sf.tree) if isinstance(x, ast.Call) and isinstance(x.func, (ast.Name, ast.Attribute))
                         and enclosing_function(x) is not None and enclosing_function(x).name not in gone}
                gone -= still
            for sf in sfs:
                sf.tree.body = [st for st in sf.tree.body if not (isinstance(st, FUNCS) and st.name in gone)]
                renumber(sf.tree)
                relink_parents(sf.tree)

    def flow(self, fn):
        if id(fn) not in self._flow:
            self._flow[id(fn)] = Flow(fn)
        return self._flow[id(fn)]

    def locs(self, fn):
        if id(fn) not in self._loc:
            self._loc[id(fn)] = Locals(fn)
        return self._loc[id(fn)]

    def inl(self, expr, fn=None):
        fn = fn or enclosing_function(expr)
        return self.locs(fn).inline(expr, expr.lineno) if fn is not None else expr

    def scope(self):
        """The bus itself and every file that names the uros module: only there do `core`, Param, Subscriber,
        Publisher and the registry attribute names mean the simulation bus."""
        return [(rel, sf) for rel, sf in sorted(self.fe.files.items()) if rel in (UROS, MSGS) or "uros" in sf.text]

    def where(self, rel, node):
        return (rel, getattr(node, "_orig_lineno", getattr(node, "lineno", 0)))


def params_of(fn):
    return [a.arg for a in fn.args.posonlyargs + fn.args.args]


def is_self_attr(e, attr=None):
    return (isinstance(e, ast.Attribute) and isinstance(e.value, ast.Name) and e.value.id == "self"
            and (attr is None or e.attr == attr))


def is_core_expr(e):
    """`core` or `self.core` - the only two spellings of a Core object in cyecca."""
    return (isinstance(e, ast.Name) and e.id == "core") or is_self_attr(e, "core")


def callee_name(call):
    f = call.func
    return f.id if isinstance(f, ast.Name) else f.attr if isinstance(f, ast.Attribute) else None


def methods_of(cls):
    return {n.name: n for n in cls.body if isinstance(n, FUNCS)}


def self_assigns(cls, attr):
    """Every statement in the class that binds self.<attr>."""
    out = []
    for n in ast.walk(cls):
        if isinstance(n, ast.Assign) and any(is_self_attr(t, attr) for t in n.targets):
            out.append(n)
        elif isinstance(n, (ast.AugAssign, ast.AnnAssign)) and is_self_attr(n.target, attr):
            out.append(n)
    return out


def ctor_field(cx, rel, cls, attr, param, rule):
    """self.<attr> is bound exactly once in the class: unconditionally in __init__, to the constructor parameter."""
    inst = "%s.%s is the constructor argument `%s`" % (cls.name, attr, param)
    init = methods_of(cls).get("__init__")
    if init is None:
        raise AnchorMissing("%s: %s.__init__ not found" % (rel, cls.name))
    binds = self_assigns(cls, attr)
    good = [b for b in binds if isinstance(b, ast.Assign) and isinstance(b.value, ast.Name) and b.value.id == param
            and enclosing_function(b) is init and param in params_of(init)]
    if len(binds) == 1 and good and id(good[0]) in cx.flow(init).exit_done():
        cx.rep.ok(rule, inst, fact={"assignment": unp(good[0])})
    elif len(binds) == 1 and isinstance(binds[0], ast.Assign) and not isinstance(binds[0].value, (ast.Name, ast.Constant)):
        cx.rep.incomplete(rule, inst, "cannot relate `%s` to the constructor argument" % unp(binds[0]), where=cx.where(rel, binds[0]))
    else:
        bad = [b for b in binds if b not in good] or binds
        cx.rep.fail(rule, inst, "self.%s must be bound once, unconditionally, in %s.__init__ to the parameter `%s`; found: %s"
                    % (attr, cls.name, param, "; ".join(unp(b) for b in binds) or "no binding"),
                    where=cx.where(rel, bad[0] if bad else init))


# ---------------------------------------------------------------------------------------------------------
# "call f exactly once for every element of a collection, in order"

def strip_iter(e):
    """-> (base expression, None) when e enumerates all of base in order, else (None, reason, is_violation)."""
    while True:
        if isinstance(e, ast.Call) and isinstance(e.func, ast.Name) and e.func.id in ("list", "tuple", "iter") \
                and len(e.args) == 1 and not e.keywords:
            e = e.args[0]
            continue
        if isinstance(e, ast.Subscript) and isinstance(e.slice, ast.Slice):
            s = e.slice
            if s.lower is None and s.upper is None and s.step is None:
                e = e.value
                continue
            return None, "iterates over the slice %s, not the whole list" % unp(e), True
        if isinstance(e, ast.Call) and isinstance(e.func, ast.Name) and e.func.id in ("reversed", "sorted", "set", "filter", "frozenset"):
            return None, "iterates over %s(...), which reorders or filters the list" % e.func.id, True
        if isinstance(e, ast.Call) and callee_name(e) in ("islice", "takewhile", "dropwhile", "sample", "shuffle"):
            return None, "iterates over %s(...), which drops or reorders elements" % callee_name(e), True
        return e, None, False


class Site:
    """One recognised `for v in ITER: ... v.<meth>(args)` or `[v.<meth>(args) for v in ITER]`."""
    def __init__(self, node, var, iter_expr, call, event):
        self.node, self.var, self.iter, self.call, self.event = node, var, iter_expr, call, event
        self.problems = []     # (message, node) - definite deviations from "once per element, in order"
        self.unknown = []      # (message, node) - shapes the walker does not understand


def foreach_sites(cx, fn, meth):
    """All places in fn that call <loop variable>.<meth>(...) ; plus stray calls of .<meth> outside any such loop."""
    flow = cx.flow(fn)
    sites, claimed = [], set()

    def var_calls(nodes, var):
        return [c for n in nodes for c in ast.walk(n) if isinstance(c, ast.Call) and isinstance(c.func, ast.Attribute)
                and c.func.attr == meth and isinstance(c.func.value, ast.Name) and c.func.value.id == var]
    for ev in flow.events:
        s = ev.node
        if isinstance(s, (ast.For, ast.AsyncFor)):
            if not isinstance(s.target, ast.Name):
                continue
            calls = var_calls(s.body, s.target.id)
            if not calls:
                continue
            site = Site(s, s.target.id, cx.inl(s.iter, fn), calls[0], ev)
            claimed.update(id(c) for c in calls)
            info = flow.loops[id(s)]
            if isinstance(s, ast.AsyncFor):
                site.unknown.append(("async for", s))
            if len(calls) != 1:
                site.problems.append(("%s.%s is called %d times per element" % (s.target.id, meth, len(calls)), calls[1]))
            for j in info["jumps"]:
                site.problems.append(("`%s` inside the loop ends the iteration early" % unp(j.node).split("\n")[0], j.node))
            cev = flow.event_of(calls[0])
            if cev.loops[-1] is not s:
                site.problems.append(("the call sits in a nested loop", calls[0]))
            extra = [f for f in cev.facts if f.key() not in {g.key() for g in info["body_facts"]}]
            if extra:
                site.problems.append(("the call is conditional on %s (a filter)" % " and ".join(f.text() for f in extra), calls[0]))
            elif info["end"] is not None and id(cev.node) not in info["end"][1]:
                site.problems.append(("the call is not executed on every iteration", calls[0]))
            if s.orelse:
                site.unknown.append(("for/else", s))
            if any(isinstance(n, ast.Name) and n.id == s.target.id and isinstance(n.ctx, ast.Store) for b in s.body for n in ast.walk(b)):
                site.problems.append(("the loop variable is re-bound inside the loop", s))
            sites.append(site)
        else:
            for n in ev.walk():
                if isinstance(n, (ast.ListComp, ast.SetComp, ast.GeneratorExp, ast.DictComp)):
                    g = n.generators[0]
                    if not isinstance(g.target, ast.Name):
                        continue
                    elts = [n.key, n.value] if isinstance(n, ast.DictComp) else [n.elt]
                    calls = var_calls(elts, g.target.id)
                    if not calls:
                        continue
                    site = Site(n, g.target.id, cx.inl(g.iter, fn), calls[0], ev)
                    claimed.update(id(c) for c in calls)
                    if isinstance(n, ast.GeneratorExp) and isinstance(n._parent, ast.Expr):
                        site.problems.append(("the generator expression is never consumed: no callback runs", n))
                    elif not isinstance(n, ast.ListComp):
                        site.unknown.append(("%s is lazy or unordered, not a list comprehension" % type(n).__name__, n))
                    if len(n.generators) != 1 or g.is_async:
                        site.unknown.append(("more than one generator clause", n))
                    if g.ifs:
                        site.problems.append(("the comprehension filters with `if %s`" % unp(g.ifs[0]), n))
                    if len(calls) != 1:
                        site.problems.append(("%s.%s is called %d times per element" % (g.target.id, meth, len(calls)), calls[1]))
                    if any(isinstance(p, (ast.IfExp, ast.BoolOp)) for p in parents(calls[0]) if p is not n and id(p) in {id(x) for x in ast.walk(n)}):
                        site.problems.append(("the call is conditional inside the comprehension element", calls[0]))
                    sites.append(site)
    stray = [c for c in ast.walk(fn) if isinstance(c, ast.Call) and isinstance(c.func, ast.Attribute) and c.func.attr == meth
             and id(c) not in claimed and enclosing_function(c) is fn]
    return sites, stray


# ---------------------------------------------------------------------------------------------------------
# Publisher.publish

def is_membership(cond, reg_text, key_text):
    return (isinstance(cond, ast.Compare) and len(cond.ops) == 1 and isinstance(cond.ops[0], (ast.In, ast.NotIn))
            and unp(cond.comparators[0]) == reg_text and unp(cond.left) == key_text)


def rule_publish(cx):
    rep, rel = cx.rep, UROS
    R_T, R_F = "C20.publish-typecheck", "C20.publish-fanout"
    rep.rule(R_T, "the isinstance(msg, self.msg_type) test of Publisher.publish dominates the callback fan-out and the failing side does not deliver")
    rep.rule(R_F, "Publisher.publish calls s.callback(msg) exactly once, in list order, with the published object, for every element of core._subscribers[self.topic], on every path that has subscribers")
    cls = cx.fe.find_def(rel, "Publisher")
    fn = cx.fe.find_def(rel, "Publisher.publish")
    sub = cx.fe.find_def(rel, "Subscriber")
    for attr in ("topic", "msg_type", "core"):
        ctor_field(cx, rel, cls, attr, attr, R_F)
    ctor_field(cx, rel, sub, "callback", "callback", R_F)
    ps = params_of(fn)
    if len(ps) < 2:
        raise AnchorMissing("%s: Publisher.publish has no message parameter" % rel)
    msg = ps[1]
    flow = cx.flow(fn)
    sites, stray = foreach_sites(cx, fn, "callback")
    P = "Publisher.publish "
    if not sites and not stray:
        rep.fail(R_F, P + "delivers", "no call of <subscriber>.callback(...) found: nothing is delivered", where=cx.where(rel, fn))
        return
    if stray or len(sites) != 1:
        n = (stray or [sites[1].call])[0]
        rep.incomplete(R_F, P + "delivers", "callback is invoked outside a single recognised for-each over the subscriber list: %s" % unp(n), where=cx.where(rel, n))
        return
    site = sites[0]
    for m, n in site.unknown:
        rep.incomplete(R_F, P + "fan-out shape", m, where=cx.where(rel, n))
    rep.check(R_F, P + "calls callback once per subscriber, in order", not site.problems,
              "; ".join(m for m, _ in site.problems), where=cx.where(rel, site.problems[0][1] if site.problems else site.node))
    # what is iterated
    base, why, bad = strip_iter(site.iter)
    reg_text, key_text = "self.core._subscribers", "self.topic"
    if base is None:
        rep.fail(R_F, P + "iterates the whole list of self.topic", why, where=cx.where(rel, site.node))
    else:
        reg = key = None
        if isinstance(base, ast.Subscript):
            reg, key = base.value, base.slice
        elif (isinstance(base, ast.Call) and isinstance(base.func, ast.Attribute) and base.func.attr == "get" and len(base.args) == 2
              and isinstance(base.args[1], (ast.List, ast.Tuple)) and not base.args[1].elts):
            reg, key = base.func.value, base.args[0]
        cached = None
        if reg is None and is_self_attr(base):
            # the loop iterates an attribute of the publisher: where does it come from?
            cls_ = enclosing_class(fn)
            for b in self_assigns(cls_, base.attr):
                v = b.value
                if isinstance(v, ast.Call) and isinstance(v.func, ast.Attribute) and v.func.attr == "get" and isinstance(v.func.value, ast.Attribute) and v.func.value.attr == "_subscribers" \
                        and len(v.args) == 2 and isinstance(v.args[1], (ast.List, ast.Tuple)):
                    cached = (b, "a fresh empty list when the topic has no subscriber yet")
                elif isinstance(v, ast.Call) and callee_name(v) in ("list", "tuple", "copy", "deepcopy") and "_subscribers" in unp(v):
                    cached = (b, "a copy of the list")
        if cached is not None:
            b, what = cached
            rep.fail(R_F, P + "iterates the whole list of self.topic", "publish iterates self.%s, which is filled once by `%s` (%s): a Subscriber registered after that first publish is never called"
                     % (base.attr, unp(b), what), where=cx.where(rel, b))
        elif reg is None or not (isinstance(reg, ast.Attribute) and reg.attr == "_subscribers"):
            rep.incomplete(R_F, P + "iterates the whole list of self.topic", "cannot relate the iterated expression %s to core._subscribers" % unp(base), where=cx.where(rel, site.node))
        else:
            rep.check(R_F, P + "iterates the whole list of self.topic", unp(reg) == reg_text and unp(key) == key_text,
                      "the fan-out iterates %s, not self.core._subscribers[self.topic]" % unp(base), where=cx.where(rel, site.node),
                      fact={"iterated": unp(site.iter)})
    # what is passed
    c = site.call
    rebound = [n for n in ast.walk(fn) if isinstance(n, ast.Name) and n.id == msg and isinstance(n.ctx, (ast.Store, ast.Del))]
    same = len(c.args) == 1 and not c.keywords and isinstance(c.args[0], ast.Name) and c.args[0].id == msg
    rep.check(R_F, P + "passes the published object", same and not rebound,
              ("the parameter `%s` is re-bound before delivery" % msg) if (same and rebound) else
              "callback receives %s instead of the published object `%s` (identity is not preserved)" % (", ".join(unp(a) for a in c.args) or "nothing", msg),
              where=cx.where(rel, rebound[0] if (same and rebound) else c), fact={"call": unp(c)})
    # guards of the fan-out, and every exit that skips it
    known = []
    tfact = None
    for f in site.event.facts:
        cnd = f.cond
        if (isinstance(cnd, ast.Call) and callee_name(cnd) == "isinstance" and len(cnd.args) == 2 and unp(cnd.args[0]) == msg
                and unp(cnd.args[1]) == "self.msg_type"):
            if f.pol:
                tfact = f
            known.append(f)
        elif is_membership(cnd, reg_text, key_text):
            known.append(f)
            if f.pol != isinstance(cnd.ops[0], ast.In):
                rep.fail(R_F, P + "delivers whenever subscribers exist", "the fan-out only runs when %s" % f.text(), where=cx.where(rel, f.stmt))
    for f in site.event.facts:
        if f not in known and f.origin not in ("return", "raise"):     # those two are judged at the statement that leaves
            rep.incomplete(R_F, P + "delivers whenever subscribers exist", "the fan-out is conditional on %s, which the rule cannot interpret" % f.text(), where=cx.where(rel, f.stmt))
    # every way out of publish in front of the fan-out: only "no subscribers" may return, only the type test may raise
    skipped = []
    for ev in flow.events[:flow.events.index(site.event)]:
        if isinstance(ev.node, ast.Return) and not any(is_membership(f.cond, reg_text, key_text) and f.pol != isinstance(f.cond.ops[0], ast.In) for f in ev.facts):
            skipped.append(ev)
        elif isinstance(ev.node, ast.Raise) and not any(isinstance(f.cond, ast.Call) and callee_name(f.cond) == "isinstance" and not f.pol for f in ev.facts):
            rep.incomplete(R_F, P + "delivers whenever subscribers exist", "publish raises in front of the fan-out for a reason other than the type test: %s" % unp(ev.node), where=cx.where(rel, ev.node))
    rep.check(R_F, P + "delivers whenever subscribers exist", not skipped,
              "publish can return without delivering%s" % (" when " + " and ".join(f.text() for f in skipped[0].facts) if skipped and skipped[0].facts else " unconditionally"),
              where=cx.where(rel, skipped[0].node if skipped else fn))
    # a wrong-type message must be rejected on EVERY path, also when nobody subscribes: no `return` may be reachable
    # without the positive type test
    early = []
    for ev in flow.events:
        if isinstance(ev.node, ast.Return):
            has = any(isinstance(f.cond, ast.Call) and callee_name(f.cond) == "isinstance" and len(f.cond.args) == 2 and unp(f.cond.args[0]) == msg
                      and unp(f.cond.args[1]) == "self.msg_type" and f.pol for f in ev.facts)
            if not has:
                early.append(ev)
    rep.check(R_T, P + "type check dominates every return", not early,
              "publish can return%s without having tested isinstance(%s, self.msg_type): a wrong-type message is silently accepted on that path" % (
                  (" when " + " and ".join(f.text() for f in early[0].facts)) if early and early[0].facts else "", msg),
              where=cx.where(rel, early[0].node if early else fn))
    if tfact is not None:
        rep.ok(R_T, P + "type check dominates the fan-out", fact={"test": tfact.text(), "other side": tfact.origin})
    else:
        mention = [f for f in site.event.facts if "msg_type" in unp(f.cond) and f not in known]
        if mention:
            rep.incomplete(R_T, P + "type check dominates the fan-out", "unrecognised type test %s" % mention[0].text(), where=cx.where(rel, mention[0].stmt))
        else:
            rep.fail(R_T, P + "type check dominates the fan-out",
                     "no path condition isinstance(%s, self.msg_type) holds at the callback fan-out: a message of the wrong type is delivered" % msg,
                     where=cx.where(rel, site.node))


# ---------------------------------------------------------------------------------------------------------
# registries: who may write core._subscribers / _publishers / _declared_params / pub_sub_locked

def classify_use(cx, node, level, seen=None):
    """Follow one expression that denotes a registry (level 0) or one of its elements (level 1) outwards.
    -> list of (kind, detail, node): kind in read | write | unknown."""
    seen = seen if seen is not None else set()
    p = node._parent
    if isinstance(p, ast.Subscript) and p.value is node:
        if isinstance(p.ctx, ast.Store):
            return [("write", "setitem" if level == 0 else "element setitem", p)]
        if isinstance(p.ctx, ast.Del):
            return [("write", "del", p)]
        if isinstance(p.slice, ast.Slice):
            return [("read", "slice", p)]
        return classify_use(cx, p, level + 1, seen) if level == 0 else [("read", "element item", p)]
    if isinstance(p, ast.Attribute) and p.value is node:
        gp = p._parent
        if isinstance(gp, ast.Call) and gp.func is p:
            if level == 0 and (p.attr == "get" or (p.attr == "setdefault" and len(gp.args) == 2 and unp(gp.args[1]) == "[]")):
                return classify_use(cx, gp, 1, seen)     # .setdefault(k, []) never touches an existing list
            if p.attr in MUTATORS:
                return [("write", p.attr, gp)]
            if p.attr in READERS:
                return [("read", p.attr, gp)]
            return [("unknown", "method %s" % p.attr, gp)]
        return [("read", "attribute %s" % p.attr, p)] if level >= 1 else [("unknown", "attribute %s" % p.attr, p)]
    if isinstance(p, ast.Compare):
        return [("read", "comparison", p)]
    if isinstance(p, (ast.For, ast.AsyncFor, ast.comprehension)) and p.iter is node:
        return [("read", "iteration", p)]
    if isinstance(p, ast.Call) and node in p.args and isinstance(p.func, ast.Name) and p.func.id in PURE_FUNCS:
        return [("read", p.func.id, p)]
    if isinstance(p, (ast.Assign, ast.AugAssign, ast.AnnAssign)) and getattr(p, "value", None) is not node:
        return [("write", "rebind" if not isinstance(p, ast.AugAssign) else "augmented assignment", p)]
    if isinstance(p, ast.Delete):
        return [("write", "del", p)]
    if isinstance(p, ast.Assign) and p.value is node and len(p.targets) == 1 and isinstance(p.targets[0], ast.Name):
        fn, name = enclosing_function(p), p.targets[0].id
        if fn is not None and (id(fn), name) not in seen:
            seen.add((id(fn), name))
            out = []
            for n in ast.walk(fn):
                if isinstance(n, ast.Name) and n.id == name and isinstance(n.ctx, ast.Load):
                    out += classify_use(cx, n, level, seen)
            return out or [("read", "unused alias", p)]
    if isinstance(p, (ast.Expr, ast.If, ast.While, ast.Assert, ast.UnaryOp, ast.BoolOp, ast.IfExp)):
        return [("read", "truth test", p)]
    return [("unknown", "escapes into %s" % type(p).__name__, p)]


def rule_registries(cx):
    rep = cx.rep
    R_W, R_L = "C20.registry-writes", "C20.registry-lock"
    rep.rule(R_W, "only Core.__init__ creates the registries; only Subscriber.__init__ appends to _subscribers[topic], only Publisher.__init__ stores into _publishers, only Core.declare_param stores into _declared_params; nothing else in the tree writes, removes, inserts or reorders; subscribers are appended exactly once, unconditionally, under the constructor's topic")
    rep.rule(R_L, "every registrar tests pub_sub_locked before it writes; only Core.__init__ (False) and Logger.__init__ (True, after subscribing) assign the lock")
    allowed = {
        "_subscribers": {("Core.__init__", "rebind"), ("Subscriber.__init__", "setitem"), ("Subscriber.__init__", "append")},
        "_publishers": {("Core.__init__", "rebind"), ("Publisher.__init__", "setitem")},
        "_declared_params": {("Core.__init__", "rebind"), ("Core.declare_param", "setitem")},
    }
    writes = {}
    for rel, sf in cx.scope():
        for n in ast.walk(sf.tree):
            if not (isinstance(n, ast.Attribute) and n.attr in REGISTRIES):
                continue
            q = qualname(n)
            for kind, detail, at in classify_use(cx, n, 0):
                inst = "%s: %s of %s" % (q, detail, unp(n))
                if kind == "unknown":
                    rep.incomplete(R_W, inst, "cannot tell whether this use of the registry mutates it: %s" % unp(at), where=cx.where(rel, at))
                elif kind == "write":
                    okw = rel == UROS and (q, detail) in allowed[n.attr]
                    writes.setdefault((n.attr, q, detail), []).append((rel, at, n))
                    rep.check(R_W, inst, okw, "%s must not be modified here (`%s`): subscriber order and registry contents are fixed by the constructors"
                              % (n.attr, unp(at).split("\n")[0]), where=cx.where(rel, at), fact={"statement": unp(enclosing_stmt(at)).split("\n")[0]})
    # shape of the permitted writes
    for reg in REGISTRIES:
        ws = writes.get((reg, "Core.__init__", "rebind"), [])
        good = len(ws) == 1 and isinstance(ws[0][1].value, ast.Dict) and not ws[0][1].value.keys
        rep.check(R_W, "Core.__init__ creates %s empty, once" % reg, good, "expected exactly one `self.%s = {}` in Core.__init__" % reg,
                  where=cx.where(UROS, ws[0][1] if ws else cx.fe.find_def(UROS, "Core.__init__")))
    lock_ok = {}
    lock_ok["Subscriber.__init__"] = check_registrar(cx, "Subscriber", "_subscribers", "append", writes, R_W, R_L)
    lock_ok["Publisher.__init__"] = check_registrar(cx, "Publisher", "_publishers", "setitem", writes, R_W, R_L)
    # declare_param
    fn = cx.fe.find_def(UROS, "Core.declare_param")
    ws = writes.get(("_declared_params", "Core.declare_param", "setitem"), [])
    par = params_of(fn)[1] if len(params_of(fn)) > 1 else None
    good = len(ws) == 1 and isinstance(ws[0][1]._parent, ast.Assign) and unp(ws[0][1]._parent.value) == par \
        and unp(ws[0][1].slice) == "%s.name" % par and id(ws[0][1]._parent) in cx.flow(fn).exit_done()
    rep.check(R_W, "Core.declare_param registers the parameter under its name", good,
              "expected one unconditional `self._declared_params[%s.name] = %s`" % (par, par), where=cx.where(UROS, ws[0][1] if ws else fn))
    lock_ok["Core.declare_param"] = bool(ws) and has_lock_fact(cx.flow(fn).event_of(ws[0][1]).facts)
    rep.check(R_L, "Core.declare_param tests pub_sub_locked before registering", lock_ok["Core.declare_param"],
              "no `not self.pub_sub_locked` condition holds at the write to _declared_params", where=cx.where(UROS, ws[0][1] if ws else fn))
    # Param.__init__ registers through declare_param
    pin = cx.fe.find_def(UROS, "Param.__init__")
    pflow = cx.flow(pin)
    decl = [c for e in pflow.events for c in e.calls() if callee_name(c) == "declare_param" and is_core_expr(c.func.value)]
    if len(decl) != 1 or [unp(a) for a in decl[0].args] != ["self"] or id(enclosing_stmt(decl[0])) not in pflow.exit_done():
        rep.fail(R_W, "Param.__init__ declares itself on the core", "expected one unconditional core.declare_param(self)", where=cx.where(UROS, decl[0] if decl else pin))
    else:
        rep.ok(R_W, "Param.__init__ declares itself on the core")
        own = has_lock_fact(pflow.event_of(decl[0]).facts)
        rep.check(R_L, "Param.__init__ tests pub_sub_locked before registering", own or lock_ok["Core.declare_param"],
                  "neither Param.__init__ nor Core.declare_param tests the lock", where=cx.where(UROS, decl[0]), fact={"own test": own})
    # who assigns the lock
    for rel, sf in cx.scope():
        for n in ast.walk(sf.tree):
            if isinstance(n, ast.Attribute) and n.attr == "pub_sub_locked" and isinstance(n.ctx, (ast.Store, ast.Del)):
                q, st = qualname(n), enclosing_stmt(n)
                val = st.value.value if isinstance(st, ast.Assign) and isinstance(st.value, ast.Constant) else None
                good = rel == UROS and ((q == "Core.__init__" and val is False) or (q == "Logger.__init__" and val is True))
                rep.check(R_L, "%s assigns pub_sub_locked" % q, good, "`%s`: only Core.__init__ may clear the lock and only Logger.__init__ may set it" % unp(st),
                          where=cx.where(rel, st), fact={"statement": unp(st)})


def has_lock_fact(facts):
    return any(isinstance(f.cond, ast.Attribute) and f.cond.attr == "pub_sub_locked" and not f.pol
               and (is_core_expr(f.cond.value) or (isinstance(f.cond.value, ast.Name) and f.cond.value.id == "self")) for f in facts)


def check_registrar(cx, cname, reg, how, writes, R_W, R_L):
    rep = cx.rep
    q = "%s.__init__" % cname
    fn = cx.fe.find_def(UROS, q)
    flow = cx.flow(fn)
    ws = writes.get((reg, q, how), [])
    inst = "%s registers self under its topic exactly once" % q
    if len(ws) != 1:
        rep.fail(R_W, inst, "expected exactly one registration of self in core.%s, found %d" % (reg, len(ws)), where=cx.where(UROS, ws[1][1] if ws else fn))
        return False
    _, at, regnode = ws[0]
    if how == "append":
        item = at.func.value                      # core._subscribers[topic]  (or .setdefault(topic, []))
        key = item.slice if isinstance(item, ast.Subscript) else (item.args[0] if isinstance(item, ast.Call) and item.args else None)
        val = at.args[0] if len(at.args) == 1 else None
        if not isinstance(item, (ast.Subscript, ast.Call)):
            rep.incomplete(R_W, inst, "append on an alias: %s" % unp(at), where=cx.where(UROS, at))
            return False
    else:
        key, val = at.slice, at._parent.value if isinstance(at._parent, ast.Assign) else None
    stmt = enclosing_stmt(at)
    good = key is not None and unp(key) == "topic" and val is not None and unp(val) == "self" and is_core_expr(regnode.value) \
        and "topic" in params_of(fn) and id(stmt) in flow.exit_done() and not flow.event_of(at).loops
    rep.check(R_W, inst, good, "`%s` must run unconditionally, once, and store `self` under the constructor's `topic`" % unp(stmt),
              where=cx.where(UROS, at), fact={"statement": unp(stmt)})
    if how == "append":
        # the list is created only when the topic is new, and never replaced otherwise
        for _, s_at, s_reg in writes.get((reg, q, "setitem"), []):
            ev = flow.event_of(s_at)
            v = s_at._parent.value if isinstance(s_at._parent, ast.Assign) else None
            fresh = any(isinstance(f.cond, ast.Compare) and len(f.cond.ops) == 1 and unp(f.cond.comparators[0]) == unp(s_reg) and unp(f.cond.left) == unp(s_at.slice)
                        and f.pol != isinstance(f.cond.ops[0], ast.In) and isinstance(f.cond.ops[0], (ast.In, ast.NotIn)) for f in ev.facts)
            rep.check(R_W, "%s creates the subscriber list only for a new topic" % q,
                      fresh and isinstance(v, ast.List) and not v.elts,
                      "`%s` replaces the list of an existing topic (earlier subscribers are lost) unless guarded by `topic not in core._subscribers`" % unp(enclosing_stmt(s_at)),
                      where=cx.where(UROS, s_at))
    ok = has_lock_fact(flow.event_of(at).facts)
    rep.check(R_L, "%s tests pub_sub_locked before registering" % q, ok, "no `not core.pub_sub_locked` condition holds at `%s`" % unp(stmt), where=cx.where(UROS, at))
    return ok


# ---------------------------------------------------------------------------------------------------------
# parameters

def is_ctor_call(c, name):
    """uros.<name>(...) or <name>(...)"""
    return isinstance(c, ast.Call) and callee_name(c) == name and (isinstance(c.func, ast.Name) or isinstance(c.func.value, ast.Name))


def is_publish_of(c, pub_attr, what):
    return (isinstance(c, ast.Call) and isinstance(c.func, ast.Attribute) and c.func.attr == "publish" and is_self_attr(c.func.value, pub_attr)
            and [unp(a) for a in c.args] == [what] and not c.keywords)


def rule_params_core(cx):
    rep = cx.rep
    R = "C20.param-broadcast"
    rep.rule(R, "Core.set_param stores the value before it publishes self._params on the 'params' publisher; Core.run publishes before super().run; Param.update/get and Core.get_param read the same store")
    core = cx.fe.find_def(UROS, "Core")
    init = cx.fe.find_def(UROS, "Core.__init__")
    # the publisher of "params"
    pubs = [s for s in self_assigns(core, "pub_params")]
    okp = (len(pubs) == 1 and isinstance(pubs[0], ast.Assign) and is_ctor_call(pubs[0].value, "Publisher") and len(pubs[0].value.args) >= 2
           and unp(pubs[0].value.args[0]) == "self" and isinstance(pubs[0].value.args[1], ast.Constant) and pubs[0].value.args[1].value == "params"
           and enclosing_function(pubs[0]) is init and id(pubs[0]) in cx.flow(init).exit_done())
    rep.check(R, "Core.__init__ creates the 'params' publisher", okp, "expected one unconditional self.pub_params = Publisher(self, \"params\", ...) in Core.__init__",
              where=cx.where(UROS, pubs[0] if pubs else init))
    # set_param
    fn = cx.fe.find_def(UROS, "Core.set_param")
    flow = cx.flow(fn)
    ps = params_of(fn)
    stores = [e for e in flow.events if isinstance(e.node, ast.Assign) and len(e.node.targets) == 1
              and unp(e.node.targets[0]) == "self._params.data[%s]" % ps[1] and unp(e.node.value) == ps[2]] if len(ps) >= 3 else []
    pubs = [(e, c) for e in flow.events for c in e.calls() if is_publish_of(c, "pub_params", "self._params")]
    I = "Core.set_param stores the value, then publishes"
    if not stores or id(stores[0].node) not in flow.exit_done():
        rep.fail(R, I, "set_param does not unconditionally store the value into self._params.data[name]", where=cx.where(UROS, fn))
    elif not pubs or id(pubs[0][0].node) not in flow.exit_done():
        rep.fail(R, I, "set_param does not unconditionally publish self._params on self.pub_params: nodes never see the new value", where=cx.where(UROS, fn))
    else:
        early = [c for e, c in pubs if id(stores[0].node) not in e.done]
        rep.check(R, I, not early, "self.pub_params.publish(self._params) runs before the value is stored: subscribers are told the old value",
                  where=cx.where(UROS, early[0] if early else fn), fact={"store": unp(stores[0].node), "publish": unp(pubs[0][1])})
    # run
    fn = cx.fe.find_def(UROS, "Core.run")
    flow = cx.flow(fn)
    sup = [(e, c) for e in flow.events for c in e.calls() if isinstance(c.func, ast.Attribute) and c.func.attr == "run" and unp(c.func.value) == "super()"]
    pubs = [(e, c) for e in flow.events for c in e.calls() if is_publish_of(c, "pub_params", "self._params")]
    I = "Core.run publishes the parameters before the simulation starts"
    if len(sup) != 1:
        rep.incomplete(R, I, "expected exactly one super().run(...) call", where=cx.where(UROS, fn))
    else:
        before = [c for e, c in pubs if id(e.node) in sup[0][0].done]
        rep.check(R, I, bool(before), "no self.pub_params.publish(self._params) is executed on every path before super().run(): nodes start with undeclared defaults",
                  where=cx.where(UROS, sup[0][1]), fact={"publish": unp(before[0]) if before else None})
    # the read side
    def single_return(q):
        f = cx.fe.find_def(UROS, q)
        rets = [n for n in ast.walk(f) if isinstance(n, ast.Return)]
        return f, (unp(cx.inl(rets[0].value, f)) if len(rets) == 1 and rets[0].value is not None else None)
    f, r = single_return("Core.get_param")
    rep.check(R, "Core.get_param reads self._params.data[name]", r == "self._params.data[%s]" % params_of(f)[1], "returns %s" % r, where=cx.where(UROS, f))
    f, r = single_return("Param.get")
    rep.check(R, "Param.get returns self.value", r == "self.value", "returns %s" % r, where=cx.where(UROS, f))
    f = cx.fe.find_def(UROS, "Param.update")
    fl = cx.flow(f)
    good = [e for e in fl.events if isinstance(e.node, ast.Assign) and [unp(t) for t in e.node.targets] == ["self.value"]
            and unp(cx.inl(e.node.value, f)) == "self.core.get_param(self.name)" and id(e.node) in fl.exit_done()]
    rep.check(R, "Param.update reads core.get_param(self.name) into self.value", bool(good),
              "Param.update must unconditionally assign self.value = self.core.get_param(self.name)", where=cx.where(UROS, f))
    par = cx.fe.find_def(UROS, "Param")
    ctor_field(cx, UROS, par, "name", "name", R)
    ctor_field(cx, UROS, par, "core", "core", R)


def param_classes(cx):
    """Classes that construct uros.Param objects -> (rel, class node, [Param(...) call nodes])."""
    out = []
    for rel, sf in cx.scope():
        for cls in ast.walk(sf.tree):
            if isinstance(cls, ast.ClassDef):
                calls = [c for c in ast.walk(cls) if is_ctor_call(c, "Param") and enclosing_class(c) is cls]
                if calls:
                    out.append((rel, cls, calls))
        loose = [c for c in ast.walk(sf.tree) if is_ctor_call(c, "Param") and enclosing_class(c) is None]
        for c in loose:
            cx.rep.incomplete("C20.param-wiring", "%s creates a Param outside any class" % qualname(c), "cannot attribute the parameter to a node", where=cx.where(rel, c))
    return out


def is_plist_append(c):
    return (isinstance(c, ast.Call) and isinstance(c.func, ast.Attribute) and c.func.attr == "append" and is_self_attr(c.func.value, "param_list")
            and len(c.args) == 1)


def rule_param_wiring(cx, all_subscriber):
    """-> {class name: {attr: Param call}} of the parameter attributes proven to be in param_list."""
    rep = cx.rep
    R = "C20.param-wiring"
    rep.rule(R, "every class that creates uros.Param objects puts each of them into self.param_list, subscribes to 'params', and its params callback calls update() on every element of param_list")
    table = {}
    for rel, cls, calls in param_classes(cx):
        C = cls.name
        meths = methods_of(cls)
        init = meths.get("__init__")
        attrs, helpers = {}, {}
        plist = self_assigns(cls, "param_list")
        lit = [unp(e) for e in plist[0].value.elts] if len(plist) == 1 and isinstance(plist[0], ast.Assign) and isinstance(plist[0].value, (ast.List, ast.Tuple)) else None
        if lit is None or init is None or enclosing_function(plist[0]) is not init or id(plist[0]) not in cx.flow(init).exit_done():
            rep.incomplete(R, "%s.param_list is built once in __init__" % C, "expected one unconditional `self.param_list = [...]` in __init__", where=cx.where(rel, plist[0] if plist else cls))
            continue
        for c in calls:
            fn, p = enclosing_function(c), c._parent
            fl = cx.flow(fn)
            inst = "%s: Param created in %s joins param_list" % (C, qualname(c))
            if isinstance(p, ast.Assign) and len(p.targets) == 1 and isinstance(p.targets[0], ast.Name):
                v = p.targets[0].id
                apps = [e for e in fl.events for k in e.calls() if is_plist_append(k) and unp(k.args[0]) == v and id(p) in e.done]
                rebind = [n for n in ast.walk(fn) if isinstance(n, ast.Name) and n.id == v and isinstance(n.ctx, ast.Store)]
                good = any(id(e.node) in fl.exit_done() and not e.loops for e in apps) and len(rebind) == 1
                rep.check(R, inst, good, "`%s` is never appended to self.param_list on every path: params_callback will not refresh it" % unp(p), where=cx.where(rel, c))
                if good and enclosing_function(fn) is init:
                    rets = [n for n in ast.walk(fn) if isinstance(n, ast.Return)]
                    if len(rets) == 1 and unp(rets[0].value) == v:
                        helpers[fn.name] = c
            elif isinstance(p, ast.Assign) and len(p.targets) == 1 and is_self_attr(p.targets[0]):
                a = unp(p.targets[0])
                apps = [e for e in fl.events for k in e.calls() if is_plist_append(k) and unp(k.args[0]) == a and id(e.node) in fl.exit_done()]
                good = (a in lit or bool(apps)) and len(self_assigns(cls, p.targets[0].attr)) == 1
                rep.check(R, inst + " (%s)" % a, good, "%s is not an element of self.param_list" % a, where=cx.where(rel, c))
                if good:
                    attrs[p.targets[0].attr] = c
            elif is_plist_append(p):
                rep.check(R, inst, id(enclosing_stmt(p)) in fl.exit_done(), "conditional append", where=cx.where(rel, c))
            else:
                rep.incomplete(R, inst, "cannot follow where the new Param goes: %s" % unp(enclosing_stmt(c)).split("\n")[0], where=cx.where(rel, c))
        # attributes bound from the helpers; the list must exist before the first helper call
        ifl = cx.flow(init)
        for e in ifl.events:
            for k in e.calls():
                if isinstance(k.func, ast.Name) and k.func.id in helpers:
                    st = e.node
                    if not lit and id(plist[0]) not in e.done:
                        rep.fail(R, "%s: param_list exists before %s is used" % (C, k.func.id), "`%s` runs before self.param_list is created (or the list is reset afterwards)" % unp(st).split("\n")[0], where=cx.where(rel, st))
                    if isinstance(st, ast.Assign) and st.value is k and len(st.targets) == 1 and is_self_attr(st.targets[0]) and len(self_assigns(cls, st.targets[0].attr)) == 1:
                        attrs[st.targets[0].attr] = k
        if not lit:
            late = [e for e in ifl.events for k in e.calls() if (is_plist_append(k) or (isinstance(k.func, ast.Name) and k.func.id in helpers)) and id(plist[0]) not in e.done]
            rep.check(R, "%s: param_list is created before it is filled and never reset" % C, not late, "self.param_list = [] is executed after elements were added", where=cx.where(rel, plist[0]))
        table[C] = attrs
        # subscription + callback
        subs = [(e, k) for e in ifl.events for k in e.calls() if is_ctor_call(k, "Subscriber") and len(k.args) == 4
                and isinstance(k.args[1], ast.Constant) and k.args[1].value == "params"]
        I = "%s subscribes to the 'params' topic" % C
        cb = guard = None
        if subs:
            e, k = subs[0]
            good = id(e.node) in ifl.exit_done() and is_core_expr(k.args[0]) and is_self_attr(k.args[3]) and k.args[3].attr in meths
            rep.check(R, I, good, "the subscription `%s` is conditional or its callback is not a method of %s" % (unp(k), C), where=cx.where(rel, k))
            cb = meths.get(k.args[3].attr) if good else None
        elif C in all_subscriber:
            cb, guard = all_subscriber[C]
            rep.ok(R, I, fact={"via": "subscribes to every publisher, including Core's 'params'"})
        else:
            rep.fail(R, I, "%s creates parameters but never subscribes to \"params\": set_param has no effect on it" % C, where=cx.where(rel, cls))
        if cb is None:
            continue
        I = "%s.%s updates every element of param_list" % (C, cb.name)
        sites, stray = foreach_sites(cx, cb, "update")
        sites = [s for s in sites if "param_list" in unp(s.iter)]
        if len(sites) != 1:
            (rep.fail if not sites else rep.incomplete)(R, I, "expected one `for p in self.param_list: p.update()` in the params callback, found %d" % len(sites), where=cx.where(rel, cb))
            continue
        s = sites[0]
        base, why, _ = strip_iter(s.iter)
        is_guard = lambda f: bool(guard) and eq_fact(f.cond, f.pol) is not None and eq_fact(f.cond, f.pol) == eq_fact(guard)
        other = [f for f in s.event.facts if not is_guard(f)]
        if s.unknown or other:
            rep.incomplete(R, I, "unrecognised shape: %s" % (s.unknown[0][0] if s.unknown else "conditional on " + other[0].text()), where=cx.where(rel, s.node))
        elif base is None or unp(base) != "self.param_list":
            rep.fail(R, I, why or "iterates %s instead of self.param_list" % unp(s.iter), where=cx.where(rel, s.node))
        elif s.problems or s.call.args:
            rep.fail(R, I, "; ".join(m for m, _ in s.problems) or "update() takes no argument", where=cx.where(rel, s.node))
        elif guard and not any(is_guard(f) for f in s.event.facts) and s.event.facts:
            rep.incomplete(R, I, "guard mismatch", where=cx.where(rel, s.node))
        elif id(s.event.node) not in cx.flow(cb).exit_done() and not guard:
            rep.fail(R, I, "the update loop is not reached on every path through the callback", where=cx.where(rel, s.node))
        else:
            rep.ok(R, I, fact={"loop": unp(s.node).split("\n")[0]})
    return table


# ---------------------------------------------------------------------------------------------------------
# Logger

def eq_fact(cond, pol=True):
    """An (in)equality fact in normal form: ({left text, right text}, holds-as-equality) - `a != b` being false is `a == b`."""
    if isinstance(cond, str):
        cond = ast.parse(cond, mode="eval").body
    if isinstance(cond, ast.Compare) and len(cond.ops) == 1 and isinstance(cond.ops[0], (ast.Eq, ast.NotEq)):
        return frozenset((unp(cond.left), unp(cond.comparators[0]))), isinstance(cond.ops[0], ast.Eq) == bool(pol)
    return None


def is_deepcopy(e):
    return isinstance(e, ast.Call) and callee_name(e) == "deepcopy" and len(e.args) == 1 and not e.keywords


def rule_logger(cx):
    """-> {"Logger": (callback method, text of the `topic == 'params'` guard)} when the subscribe-all loop is proven."""
    rep, rel = cx.rep, UROS
    R_S, R_R, R_C, R_L = "C20.logger-subscribes-all", "C20.logger-row", "C20.logger-callback", "C20.registry-lock"
    rep.rule(R_S, "Logger.__init__ creates one Subscriber per entry of core._publishers (no filter), each bound to its own topic, and only afterwards sets pub_sub_locked; it starts its run() process")
    rep.rule(R_R, "Logger.run: per loop iteration exactly one data_list.append(deepcopy(self.data_latest.data)), after data['time'] = core.now and before the single yield of a Timeout of the logger/dt parameter")
    rep.rule(R_C, "Logger.callback stores msg.data of the delivered message under the topic it was subscribed with")
    cls = cx.fe.find_def(rel, "Logger")
    init = cx.fe.find_def(rel, "Logger.__init__")
    meths = methods_of(cls)
    ctor_field(cx, rel, cls, "core", "core", R_S)
    fl = cx.flow(init)
    out = {}
    loops = [e for e in fl.events if isinstance(e.node, ast.For) and any(is_ctor_call(c, "Subscriber") for b in e.node.body for c in ast.walk(b))]
    I = "Logger.__init__ subscribes to every publisher"
    loop = None
    if len(loops) != 1:
        (rep.fail if not loops else rep.incomplete)(R_S, I, "expected one loop creating Subscribers, found %d" % len(loops), where=cx.where(rel, init))
    else:
        ev = loops[0]
        loop = ev.node
        info = fl.loops[id(loop)]
        it = cx.inl(loop.iter, init)
        whole = isinstance(it, ast.Call) and isinstance(it.func, ast.Attribute) and it.func.attr == "items" and not it.args \
            and isinstance(it.func.value, ast.Attribute) and it.func.value.attr == "_publishers" and is_core_expr(it.func.value.value)
        tgt = loop.target
        subs = [(e, c) for e in fl.in_loop(loop) for c in e.calls() if is_ctor_call(c, "Subscriber")]
        problems = []
        if not whole:
            base, why, bad = strip_iter(it)
            if bad:
                problems.append(why)
            else:
                rep.incomplete(R_S, I, "cannot relate the iterated expression %s to core._publishers.items()" % unp(it), where=cx.where(rel, loop))
        if not (isinstance(tgt, ast.Tuple) and len(tgt.elts) == 2 and all(isinstance(x, ast.Name) for x in tgt.elts)):
            rep.incomplete(R_S, I, "loop target is not `topic, publisher`", where=cx.where(rel, loop))
            tgt = None
        for j in info["jumps"]:
            problems.append("`%s` skips publishers" % unp(j.node))
        if len(subs) != 1:
            problems.append("%d Subscriber(...) calls per publisher" % len(subs))
        elif tgt is not None:
            e, c = subs[0]
            extra = [f for f in e.facts if f.key() not in {g.key() for g in info["body_facts"]}]
            if extra:
                problems.append("the subscription is conditional on %s: filtered topics are never logged" % extra[0].text())
            elif e.loops[-1] is not loop or info["end"] is None or id(e.node) not in info["end"][1]:
                problems.append("the subscription is not executed for every publisher")
            tv = tgt.elts[0].id
            if len(c.args) != 4 or not is_core_expr(c.args[0]) or unp(c.args[1]) != tv:
                problems.append("the subscriber is not created on self.core for the loop's topic: %s" % unp(c))
            else:
                out = logger_callback_binding(cx, init, meths, c.args[3], tv, problems, R_S)
        rep.check(R_S, I, not problems, "; ".join(problems), where=cx.where(rel, loop), fact={"loop": unp(loop).split("\n")[0]})
    # the lock
    locks = [e for e in fl.events if isinstance(e.node, ast.Assign) and any(isinstance(t, ast.Attribute) and t.attr == "pub_sub_locked" for t in e.node.targets)]
    I = "Logger.__init__ locks the bus after subscribing"
    if len(locks) != 1 or not (isinstance(locks[0].node.value, ast.Constant) and locks[0].node.value.value is True) or not is_core_expr(locks[0].node.targets[0].value):
        rep.fail(R_L, I, "expected exactly one `self.core.pub_sub_locked = True`", where=cx.where(rel, locks[0].node if locks else init))
    elif id(locks[0].node) not in fl.exit_done():
        rep.fail(R_L, I, "the lock is not set on every path", where=cx.where(rel, locks[0].node))
    elif loop is not None:
        rep.check(R_L, I, id(loop) in locks[0].done, "pub_sub_locked is set before the subscribe loop has run: Subscriber.__init__ then refuses every topic",
                  where=cx.where(rel, locks[0].node))
        late = [c for e in fl.events for c in e.calls() if (is_ctor_call(c, "Param") or is_ctor_call(c, "Subscriber") or is_ctor_call(c, "Publisher")) and id(locks[0].node) in e.done]
        rep.check(R_L, "Logger.__init__ registers nothing after locking", not late, "`%s` runs after the lock is set" % (unp(late[0]) if late else ""), where=cx.where(rel, late[0] if late else init))
    # the process
    starts = [e for e in fl.events for c in e.calls() if callee_name(c) in ("Process", "process") and any(unp(a) == "self.run()" for a in c.args)
              and id(e.node) in fl.exit_done()]
    rep.check(R_S, "Logger.__init__ starts its run() process", len(starts) == 1, "expected one unconditional simpy.Process(core, self.run()) / core.process(self.run())", where=cx.where(rel, init))
    rule_logger_run(cx, cls, R_R)
    # callback
    if out:
        cb, tpar, mpar = out["Logger"]
        cfl = cx.flow(cb)
        st = [e for e in cfl.events if isinstance(e.node, ast.Assign) and len(e.node.targets) == 1 and unp(e.node.targets[0]) == "self.data_latest.data[%s]" % tpar]
        I = "Logger.callback stores msg.data under its topic"
        if len(st) != 1 or id(st[0].node) not in cfl.exit_done() or st[0].facts:
            rep.fail(R_C, I, "expected one unconditional `self.data_latest.data[%s] = ...`, found %d" % (tpar, len(st)), where=cx.where(rel, st[0].node if st else cb))
        else:
            v = st[0].node.value
            v = v.args[0] if is_deepcopy(v) or (isinstance(v, ast.Call) and callee_name(v) == "copy" and len(v.args) == 1) else v
            v = v.func.value if isinstance(v, ast.Call) and callee_name(v) == "copy" and not v.args and isinstance(v.func, ast.Attribute) else v
            rep.check(R_C, I, unp(v) == "%s.data" % mpar, "stores %s, not the data of the delivered message `%s`" % (unp(st[0].node.value), mpar),
                      where=cx.where(rel, st[0].node), fact={"statement": unp(st[0].node), "note": "assignment into a numpy record field copies; deepcopy is not required for independence"})
        out = {"Logger": (cb, "%s == 'params'" % tpar)}
    return out


def logger_callback_binding(cx, init, meths, cbexpr, tv, problems, R):
    """The callback handed to Subscriber binds the loop's topic at creation time and forwards to a method."""
    cb = cx.inl(cbexpr, init)
    if isinstance(cb, ast.Call) and callee_name(cb) == "partial" and len(cb.args) == 2 and is_self_attr(cb.args[0]) and unp(cb.args[1]) == tv:
        m = meths.get(cb.args[0].attr)
        ps = params_of(m) if m else []
        return {"Logger": (m, ps[1], ps[2])} if len(ps) == 3 else {}
    if not isinstance(cb, ast.Lambda):
        cx.rep.incomplete(R, "Logger.__init__ binds each callback to its topic", "callback %s is neither a lambda nor functools.partial" % unp(cbexpr), where=cx.where(UROS, cbexpr))
        return {}
    a = cb.args
    names = [x.arg for x in a.args]
    bound = dict(zip(names[len(names) - len(a.defaults):], a.defaults))
    call = cb.body
    if not (isinstance(call, ast.Call) and is_self_attr(call.func) and call.func.attr in meths and len(call.args) == 2 and not call.keywords):
        cx.rep.incomplete(R, "Logger.__init__ binds each callback to its topic", "lambda body is not self.<method>(topic, msg)", where=cx.where(UROS, cb))
        return {}
    t_arg, m_arg = call.args
    free = len(names) - len(a.defaults)
    if not (isinstance(t_arg, ast.Name) and isinstance(m_arg, ast.Name) and free == 1 and m_arg.id == names[0]):
        problems.append("the lambda does not forward (topic, message): %s" % unp(cb))
    elif t_arg.id in bound and unp(bound[t_arg.id]) == tv:
        pass
    elif t_arg.id == tv:
        problems.append("the lambda reads the loop variable `%s` when it is called, not when it is created: every message is recorded under the last topic" % tv)
    else:
        problems.append("the lambda passes `%s`, which is not the loop's topic" % t_arg.id)
    m = meths[call.func.attr]
    ps = params_of(m)
    return {"Logger": (m, ps[1], ps[2])} if len(ps) == 3 else {}


def rule_logger_run(cx, cls, R):
    rep, rel = cx.rep, UROS
    fn = cx.fe.find_def(rel, "Logger.run")
    fl = cx.flow(fn)
    yields = [(e, y) for e in fl.events for y in e.walk() if isinstance(y, (ast.Yield, ast.YieldFrom))]
    appends = [(e, c) for e in fl.events for c in e.calls() if isinstance(c.func, ast.Attribute) and c.func.attr in ("append", "insert", "extend") and is_self_attr(c.func.value, "data_list")]
    other = [n for n in ast.walk(cls) if is_self_attr(n, "data_list") and isinstance(n._parent, ast.Attribute) and n._parent.attr in MUTATORS
             and not any(n._parent._parent is c for _, c in appends)]
    binds = self_assigns(cls, "data_list")
    rep.check(R, "Logger.data_list is only created empty and appended to by run", not other and len(binds) == 1 and unp(binds[0].value) == "[]" and qualname(binds[0]) == "Logger.__init__",
              "data_list is modified elsewhere: %s" % (unp(other[0]._parent._parent) if other else "; ".join(unp(b) for b in binds)), where=cx.where(rel, other[0] if other else cls))
    I = "Logger.run "
    if len(yields) != 1 or not yields[0][0].loops:
        rep.incomplete(R, I + "one yield per iteration", "expected exactly one yield inside one loop, found %d" % len(yields), where=cx.where(rel, fn))
        return
    yev, y = yields[0]
    loop = yev.loops[-1]
    info = fl.loops[id(loop)]
    forever = isinstance(loop, ast.While) and isinstance(loop.test, ast.Constant) and bool(loop.test.value) and len(yev.loops) == 1
    jumps = [j for j in info["jumps"]]
    uncond = yev.fact_keys() == {f.key() for f in info["body_facts"]} and info["end"] is not None and id(yev.node) in info["end"][1]
    rep.check(R, I + "loops forever with one unconditional yield per iteration", forever and not jumps and uncond,
              "the logging loop can stop or skip its wait (%s)" % ("`%s`" % unp(jumps[0].node) if jumps else "loop is not `while True` or the yield is conditional"),
              where=cx.where(rel, jumps[0].node if jumps else loop))
    # period
    d = y.value
    delay = None
    if isinstance(d, ast.Call) and callee_name(d) == "Timeout" and len(d.args) == 2 and is_core_expr(d.args[0]):
        delay = d.args[1]
    elif isinstance(d, ast.Call) and callee_name(d) == "timeout" and len(d.args) == 1 and is_core_expr(d.func.value):
        delay = d.args[0]
    raw_delay = delay
    delay = cx.inl(delay, fn) if delay is not None else None
    stale_def = None
    if raw_delay is not None:
        for nm in [x for x in ast.walk(raw_delay) if isinstance(x, ast.Name)]:
            dd = cx.locs(fn).defs.get(nm.id)
            if dd is not None and not (loop.lineno <= dd.lineno <= (loop.end_lineno or loop.lineno)) and any(
                    isinstance(c, ast.Call) and callee_name(c) == "get" for c in ast.walk(dd.value)):
                stale_def = dd
    if stale_def is not None:
        rep.fail(R, I + "waits one logging period", "the period is read once, by `%s` before the loop: a parameter change broadcast while the logger runs is stored by the Param but never used, rows keep the old period"
                 % unp(stale_def), where=cx.where(rel, stale_def), fact={"period": unp(delay)})
    elif delay is not None and not (isinstance(delay, ast.Call) and callee_name(delay) == "get") and any(
            (isinstance(x_, ast.Attribute) and x_.attr == "now") or (isinstance(x_, ast.Call) and callee_name(x_) == "len") for x_ in ast.walk(delay)) and ".get()" in unp(delay):
        rep.fail(R, I + "waits one logging period", "the wait `%s` is computed from an absolute schedule (current time / number of rows), not the logging period itself: once the period parameter "
                 "changes, the next row comes a whole backlog late or the delay is negative (simpy raises)" % unp(delay), where=cx.where(rel, y), fact={"delay": unp(delay)})
    elif delay is None or not (isinstance(delay, ast.Call) and callee_name(delay) == "get" and is_self_attr(delay.func.value) and not delay.args):
        rep.incomplete(R, I + "waits one logging period", "yield value is not a Timeout of self.<param>.get(): %s" % unp(y), where=cx.where(rel, y))
    else:
        a = delay.func.value.attr
        src = self_assigns(cls, a)
        rep.check(R, I + "waits one logging period", len(src) == 1 and is_ctor_call(src[0].value, "Param"), "self.%s is not a uros.Param created once in Logger" % a,
                  where=cx.where(rel, y), fact={"period": unp(delay)})
    # the row
    in_loop = [(e, c) for e, c in appends if loop in e.loops]
    I2 = I + "appends exactly one deep-copied row per iteration, stamped, before the yield"
    if len(in_loop) != 1 or len(appends) != 1:
        rep.fail(R, I2, "%d appends to data_list per iteration (and %d outside the loop)" % (len(in_loop), len(appends) - len(in_loop)), where=cx.where(rel, (in_loop[1][1] if len(in_loop) > 1 else loop)))
        return
    aev, ac = in_loop[0]
    def target_text(t):
        # a store through a local alias of the record (`latest = self.data_latest.data; latest["time"] = ...`) is a store
        # into the record
        if isinstance(t, ast.Subscript):
            return "%s[%s]" % (unp(cx.inl(t.value, fn)), unp(t.slice))
        return unp(t)
    stamps = [e for e in fl.in_loop(loop) if isinstance(e.node, ast.Assign) and [target_text(t) for t in e.node.targets] == ["self.data_latest.data['time']"]]
    probs = []
    if ac.func.attr != "append" or len(ac.args) != 1:
        probs.append((ac, "rows must be added with append(row): %s" % unp(ac)))
    elif not is_deepcopy(cx.inl(ac.args[0], fn)):
        arg = cx.inl(ac.args[0], fn)
        if unp(arg) == "self.data_latest.data":
            probs.append((ac, "the row appended is self.data_latest.data itself, not a deep copy: every row aliases the same record"))
        else:
            rep.incomplete(R, I2, "cannot tell whether %s is an independent copy of self.data_latest.data" % unp(arg), where=cx.where(rel, ac))
            return
    elif unp(cx.inl(ac.args[0], fn).args[0]) != "self.data_latest.data":
        probs.append((ac, "the row is a copy of %s, not of self.data_latest.data" % unp(cx.inl(ac.args[0], fn).args[0])))
    if aev.loops[-1] is not loop or aev.fact_keys() != {f.key() for f in info["body_facts"]} or info["end"] is None or id(aev.node) not in info["end"][1]:
        probs.append((ac, "the append is conditional or in a nested loop: not one row per period"))
    if id(aev.node) not in yev.done:
        probs.append((ac, "the row is appended after the yield, i.e. one period late and with a stale time stamp"))
    good_stamp = [e for e in stamps if is_core_expr(getattr(e.node.value, "value", None)) and getattr(e.node.value, "attr", None) == "now"]
    if not stamps:
        probs.append((loop, "data['time'] is never written inside the loop: rows carry no (or a constant) time"))
    elif not good_stamp:
        probs.append((stamps[0].node, "the time stamp is %s, not self.core.now" % unp(stamps[0].node.value)))
    elif not any(id(e.node) in aev.done for e in good_stamp):
        probs.append((good_stamp[0].node, "the time stamp is written after the row has been copied (or only on some paths)"))
    rep.check(R, I2, not probs, "; ".join(m for _, m in probs), where=cx.where(rel, probs[0][0] if probs else ac), fact={"append": unp(ac)})


# ---------------------------------------------------------------------------------------------------------
# every attribute used on a Core object is defined by Core (or by simpy.Environment)

def rule_core_attrs(cx):
    rep = cx.rep
    R = "C20.core-attr-resolves"
    rep.rule(R, "every attribute read or called on `core` / `self.core` (and on `self` inside class Core) is defined in class Core or is part of the simpy.Environment interface")
    core = cx.fe.find_def(UROS, "Core")
    defined = set(methods_of(core))
    for n in ast.walk(core):
        if is_self_attr(n) and isinstance(n.ctx, ast.Store):
            defined.add(n.attr)
        elif isinstance(n, ast.Assign) and n._parent is core:
            defined.update(t.id for t in n.targets if isinstance(t, ast.Name))
    bases = [unp(b) for b in core.bases]
    if bases != ["simpy.Environment"]:
        rep.incomplete(R, "Core base class", "Core derives from %s; the allow-list is for simpy.Environment" % bases, where=cx.where(UROS, core))
    seen = set()
    for rel, sf in cx.scope():
        for n in ast.walk(sf.tree):
            if not (isinstance(n, ast.Attribute) and isinstance(n.ctx, ast.Load)):
                continue
            in_core = enclosing_class(n) is core and isinstance(n.value, ast.Name) and n.value.id == "self" and \
                enclosing_function(n) is not None and params_of(enclosing_function(n))[:1] == ["self"]
            if not (is_core_expr(n.value) or in_core):
                continue
            if is_self_attr(n.value, "core") and enclosing_class(n) is None:
                continue
            q = qualname(n)
            key = (q, n.attr)
            if key in seen:
                continue
            seen.add(key)
            inst = "%s -> core.%s" % (q, n.attr)
            rep.check(R, inst, n.attr in defined or n.attr in SIMPY_ENV,
                      "`%s`: class Core defines no attribute or method `%s` (AttributeError when this line runs)" % (unp(n), n.attr), where=cx.where(rel, n),
                      fact={"defined_in": "Core" if n.attr in defined else "simpy.Environment"})


# ---------------------------------------------------------------------------------------------------------
# estimator

def eqs_call(flow, key):
    out = []
    for e in flow.events:
        for c in e.calls():
            f = c.func
            if isinstance(f, ast.Subscript) and is_self_attr(f.value, "eqs") and isinstance(f.slice, ast.Constant) and f.slice.value == key:
                out.append((e, c))
    return out


def expand_helpers(cls, expr, depth=0):
    """`self.<m>(args)` where method m of the class is a single `return <expr>` (docstring aside): the returned
    expression with the parameters replaced by the arguments.  A gate moved into a helper stays the same gate."""
    if depth > 3:
        return expr
    table = methods_of(cls)

    class T(ast.NodeTransformer):
        def visit_Call(self, node):
            self.generic_visit(node)
            f = node.func
            if isinstance(f, ast.Attribute) and isinstance(f.value, ast.Name) and f.value.id == "self" and f.attr in table and not node.keywords:
                m = table[f.attr]
                body = [b for b in m.body if not (isinstance(b, ast.Expr) and isinstance(b.value, ast.Constant))]
                ps = [a.arg for a in m.args.args][1:]
                if len(body) == 1 and isinstance(body[0], ast.Return) and body[0].value is not None and len(ps) == len(node.args) and not m.args.vararg and not m.args.kwarg \
                        and not any(isinstance(a, ast.Starred) for a in node.args):
                    sub = dict(zip(ps, node.args))

                    class S(ast.NodeTransformer):
                        def visit_Name(self, n):
                            return ast.copy_location(copy.deepcopy(sub[n.id]), n) if n.id in sub and isinstance(n.ctx, ast.Load) else n
                    out = S().visit(copy.deepcopy(body[0].value))
                    for x in ast.walk(out):
                        ast.copy_location(x, node)
                    return expand_helpers(cls, out, depth + 1)
            return node
    return T().visit(copy.deepcopy(expr))


def split_fact(cond, pol):
    """A fact `cond is pol` as a list of (comparison, polarity) facts when it is a conjunction that way:
    not (a or b) -> not a, not b;  (a and b) -> a, b;  not not a -> a."""
    if isinstance(cond, ast.UnaryOp) and isinstance(cond.op, ast.Not):
        return split_fact(cond.operand, not pol)
    if isinstance(cond, ast.BoolOp) and ((isinstance(cond.op, ast.And) and pol) or (isinstance(cond.op, ast.Or) and not pol)):
        return [x for v in cond.values for x in split_fact(v, pol)]
    return [(cond, pol)]


def cmp_forms(cls, loc, f, inline=True):
    """canon_cmp forms of the comparisons a fact amounts to (helpers expanded, conjunctions split)."""
    e = expand_helpers(cls, f.cond)
    if inline:
        e = loc.inline(e, f.cond.lineno)
    out = []
    for c0, p0 in split_fact(e, f.pol):
        c = canon_cmp(c0, p0)
        if c is not None:
            out.append(c)
    return out


def stamp_updates(cx, fn, attr_text, tkey):
    """Events `self.<attr> = <time of this message>` in fn."""
    out = []
    for e in cx.flow(fn).events:
        if isinstance(e.node, ast.Assign) and [unp(t) for t in e.node.targets] == [attr_text] and unp(cx.inl(e.node.value, fn)) == tkey:
            out.append(e)
    return out


def rule_estimator(cx, ptable):
    rep, rel = cx.rep, EST
    R_P, R_R = "C20.est-predict-dt", "C20.est-rate-limit"
    rep.rule(R_P, "AttitudeEstimator.imu_callback: every path to self.eqs['predict'](..., dt) carries dt > 0, dt = t - self.t_last_imu with t the message time, and self.t_last_imu = t is updated on that path")
    rep.rule(R_R, "accelerometer / magnetometer corrections are reached only under t - self.t_last_X >= self.dt_min_X.get() - eps (eps <= 1 ms), self.t_last_X = t is assigned together with the correction, dt_min_X is a Param in param_list")
    cls = cx.fe.find_def(rel, "AttitudeEstimator")
    pattrs = ptable.get("AttitudeEstimator", {})
    # ---- predict
    fn = cx.fe.find_def(rel, "AttitudeEstimator.imu_callback")
    fl = cx.flow(fn)
    loc = cx.locs(fn)
    tkey = "%s.data['time']" % params_of(fn)[1]
    I = "AttitudeEstimator.imu_callback predict"
    pc = eqs_call(fl, "predict")
    if len(pc) != 1:
        raise AnchorMissing("%s: expected one self.eqs['predict'](...) call in imu_callback, found %d" % (rel, len(pc)))
    pev, pcall = pc[0]
    dt_arg = None
    for a in pcall.args:
        d = loc.defs.get(a.id) if isinstance(a, ast.Name) else None
        dl = linform(loc.inline(d.value, d.lineno, at_def=True) if d is not None else loc.inline(a, a.lineno))
        last = [x for x, c in dl.items() if c == -1.0 and x and x.startswith("self.")]
        if dl.get(tkey) == 1.0 and len(dl) == 2 and len(last) == 1:
            dt_arg = (a, d, last[0])
    I2 = I + " time step is message time minus the previous IMU time"
    if dt_arg is None:
        rep.fail(R_P, I2, "no argument of `%s` is <message time> - self.<last time>" % unp(pcall).split("\n")[0], where=cx.where(rel, pcall))
    else:
        a, d, last = dt_arg
        rep.ok(R_P, I2, fact={"definition": unp(d) if d is not None else unp(a)})
        guard = None
        offset = 0.0
        for f, cc in [(f, cc) for f in pev.facts for cc in cmp_forms(cls, loc, f)]:
            la = linform(loc.inline(a, f.cond.lineno))
            if None in la or not set(la) <= set(cc[0]):
                continue
            ks = {round(cc[0][x] / la[x], 9) for x in la}
            if len(ks) != 1:
                continue
            k0 = next(iter(ks))
            # extra terms: k*dt - c > 0 with c a non-negative constant (literal or an attribute bound once to a non-negative
            # number) still implies dt > 0; the offset is recorded (samples with 0 < dt <= c are skipped)
            extra_ok, off = True, 0.0
            for x, cx_ in cc[0].items():
                if x in la:
                    continue
                if x is None:
                    val = -cx_
                else:
                    binds = self_assigns(cls, x[5:]) if x.startswith("self.") else []
                    v = binds[0].value if len(binds) == 1 else None
                    if not (isinstance(v, ast.Constant) and isinstance(v.value, (int, float))):
                        extra_ok = False
                        break
                    val = -cx_ * v.value
                if k0 <= 0 or val < 0:
                    extra_ok = False
                    break
                off += val / k0
            if extra_ok:
                guard = (f, k0, cc[1] or off > 0)
                offset = off
        if guard is None:
            rep.fail(R_P, I + " is dominated by dt > 0", "no condition `%s > 0` holds at the predict call: a repeated or out-of-order IMU time stamp is propagated with a non-positive step" % unp(a),
                     where=cx.where(rel, pcall))
        else:
            f, k, strict = guard
            rep.check(R_P, I + " is dominated by dt > 0", k > 0 and strict,
                      "the guard only establishes %s at the predict call, so a non-positive step is not excluded" % f.text(),
                      where=cx.where(rel, f.stmt), fact={"guard": f.text(), "other side": f.origin, "skips_positive_steps_up_to": offset})
        I3 = I + " updates %s on every path" % last
        if d is None:
            rep.incomplete(R_P, I3, "the time step is computed inside the call; ordering against the time-stamp update is not analysed", where=cx.where(rel, pcall))
        else:
            d0 = d
            while isinstance(d0.value, ast.Name) and d0.value.id in loc.defs:      # dt = a; a = t - self.last : the step is computed at a's definition
                d0 = loc.defs[d0.value.id]
            ups = [e for e in stamp_updates(cx, fn, last, tkey) if id(d0) in e.done and id(e.node) in pev.done]
            others = [b for b in self_assigns(cls, last[5:]) if enclosing_function(b).name != "__init__" and b not in [e.node for e in ups]]
            if ups and others:
                rep.incomplete(R_P, I3, "%s is also assigned by `%s`, which the rule does not model" % (last, unp(others[0])), where=cx.where(rel, others[0]))
            else:
                rep.check(R_P, I3, bool(ups), "`%s = <message time>` is not executed (after the step is computed) on every path to predict: the step stops being the time since the previous sample" % last,
                          where=cx.where(rel, pcall))
    # ---- rate limits
    n_stale = []
    for sensor, meth, key in (("accel", "imu_callback", "correct_accel"), ("mag", "mag_callback", "correct_mag")):
        fn = cx.fe.find_def(rel, "AttitudeEstimator.%s" % meth)
        fl, loc = cx.flow(fn), cx.locs(fn)
        tkey = "%s.data['time']" % params_of(fn)[1]
        I = "AttitudeEstimator.%s %s correction" % (meth, sensor)
        cc = eqs_call(fl, key)
        if len(cc) != 1:
            raise AnchorMissing("%s: expected one self.eqs['%s'](...) call in %s, found %d" % (rel, key, meth, len(cc)))
        cev, ccall = cc[0]
        cands = []
        # a guard that mentions self.t_last_X stops being a fact once `self.t_last_X = t` has run: also look at the
        # conditions that held at the assignments which dominate the correction and were invalidated by them
        held = list(cev.facts)
        for e in fl.events:
            if isinstance(e.node, ast.Assign) and id(e.node) in cev.done:
                held += [x for x in e.facts if mentions(x.cond, assigned_locs([e.node]))]
        for f in held:
            for c in cmp_forms(cls, loc, f):
                if any(a and a.endswith(".get()") for a in c[0]) and tkey in c[0]:
                    cands.append((f, c[0], c[1]))
        if not cands:
            vague = [f for f in cev.facts if cmp_forms(cls, loc, f, inline=False) and ("t_last" in unp(expand_helpers(cls, f.cond)) or "dt_min" in unp(expand_helpers(cls, f.cond)))]
            # elapsed time computed into a local and the time stamp overwritten with the message time before the gate:
            # the gate then measures the time since the previous MESSAGE, not since the previous correction
            stale = None
            for f in vague:
                for nm in [x for x in ast.walk(f.cond) if isinstance(x, ast.Name)]:
                    d = loc.defs.get(nm.id)
                    if d is None:
                        continue
                    lf = linform(loc.inline(d.value, d.lineno, at_def=True))
                    As = [a for a, c in lf.items() if a and a.startswith("self.") and "t_last" in a and c == -1.0]
                    if lf.get(tkey) == 1.0 and len(As) == 1:
                        for e in stamp_updates(cx, fn, As[0], tkey):
                            if d.lineno < e.node.lineno <= f.cond.lineno and not any(mentions(x.cond, {("n", nm.id)}) or "dt_min" in unp(x.cond) for x in e.facts):
                                stale = (f, nm.id, As[0], e)
            if stale:
                # corrections are then at least one minimum period apart (each follows a message gap that long), so the
                # rate limit itself holds; what is lost is the correction (C12 reads the `starves` fact)
                f, nm, A, e = stale
                n_stale.append(sensor)
                rep.ok(R_R, I + " is rate limited", fact={"guard": f.text(), "stamp": unp(e.node), "starves": "`%s` is the time since the previous %s MESSAGE: `%s` is executed before the gate on every message, so with a minimum "
                       "period longer than the sensor period the gate never opens and the correction is never applied" % (nm, sensor, unp(e.node)), "starves_where": list(cx.where(rel, e.node))})
            elif vague:
                rep.incomplete(R_R, I + " is rate limited", "cannot interpret the guard %s" % vague[0].text(), where=cx.where(rel, vague[0].stmt))
            else:
                rep.fail(R_R, I + " is rate limited", "no condition of the form t - self.t_last_%s >= self.dt_min_%s.get() - eps holds at the correction call: it runs on every message" % (sensor, sensor),
                         where=cx.where(rel, ccall))
            continue
        f, lin, strict = cands[0]
        k = lin[tkey]
        lin = {a: c / abs(k) for a, c in lin.items()}
        period = [a for a, c in lin.items() if a and a.endswith(".get()") and a.startswith("self.")]
        last = [a for a, c in lin.items() if a and a.startswith("self.") and not a.endswith(".get()") and abs(abs(c) - 1.0) < 1e-9 and (c < 0) == (k > 0) and "t_last" in a]
        if len(period) != 1 or len(last) != 1:
            rep.incomplete(R_R, I + " is rate limited", "cannot identify the period parameter and the last-time attribute in %s" % f.text(), where=cx.where(rel, f.stmt))
            continue
        P, A = period[0], last[0]
        rest = {a: c for a, c in lin.items() if a not in (tkey, P, A)}
        if k < 0 or abs(lin[P] + 1.0) > 1e-9:
            rep.fail(R_R, I + " is rate limited", "the guard %s lets the correction run when the elapsed time is SHORTER than the minimum period (comparison direction is reversed)" % f.text(),
                     where=cx.where(rel, f.stmt), fact={"normal form": {str(a): c for a, c in lin.items()}})
        else:
            # rest is the tolerance: elapsed - period + tol >= 0
            tol_ok, tol_txt = True, "0"
            for a, c in rest.items():
                if a is None:
                    tol_ok &= 0 <= c <= 1e-3 + 1e-12
                    tol_txt = repr(c)
                else:
                    binds = self_assigns(cls, a[5:]) if a.startswith("self.") else []
                    d = loc.defs.get(a)
                    v = binds[0].value if len(binds) == 1 else d.value if d is not None else None
                    tol_ok &= c == 1.0 and isinstance(v, ast.Constant) and isinstance(v.value, (int, float)) and 0 <= v.value <= 1e-3
                    tol_txt = "%s = %s" % (a, unp(v) if v is not None else "?")
            rep.check(R_R, I + " is rate limited", tol_ok and len(rest) <= 1, "the tolerance term (%s) exceeds the 1 ms scheduling tolerance or is not a constant" % tol_txt,
                      where=cx.where(rel, f.stmt), fact={"guard": f.text(), "tolerance": tol_txt, "other side": f.origin})
        # the period is a refreshed parameter
        pa = P[5:-len(".get()")]
        rep.check(R_R, I + " period %s is a Param in param_list" % P[:-len(".get()")], pa in pattrs, "self.%s is not a uros.Param that params_callback refreshes" % pa, where=cx.where(rel, f.stmt))
        # the period must be this sensor's configured minimum period, and the time stamp this sensor's
        pname = None
        for b in self_assigns(cls, pa):
            v = b.value
            if isinstance(v, ast.Call) and v.args and isinstance(v.args[0], ast.Constant) and isinstance(v.args[0].value, str):
                pname = v.args[0].value
        if pname is None:
            rep.incomplete(R_R, I + " uses the %s period" % sensor, "cannot read the parameter name bound to self.%s" % pa, where=cx.where(rel, f.stmt))
        else:
            rep.check(R_R, I + " uses the %s minimum period and the %s time stamp" % (sensor, sensor), sensor in pname and sensor in A,
                      "the %s correction is rate limited with parameter %r and time stamp %s: a different sensor's period/time stamp" % (sensor, pname, A), where=cx.where(rel, f.stmt),
                      fact={"parameter": pname, "stamp": A})
        # time stamp
        ups = stamp_updates(cx, fn, A, tkey)
        ctx = lambda ev: {x.key() for x in ev.facts if not mentions(x.cond, {("a", A)})}
        same = [e for e in ups if ctx(e) == ctx(cev) and e.loops == cev.loops and (id(e.node) in cev.done or id(cev.node) in e.done)]
        others = [b for b in self_assigns(cls, A[5:]) if enclosing_function(b).name != "__init__" and b not in [e.node for e in same]]
        I3 = I + " records %s = t together with the correction" % A
        if not same:
            def no_exit_between(a, b):
                return not any(isinstance(x, (ast.Return, ast.Raise, ast.Continue, ast.Break, ast.Yield, ast.YieldFrom)) and a.lineno <= x.lineno <= b.lineno for x in ast.walk(fn))
            # the time stamp taken on every path that corrects AND on others: corrections stay a minimum period apart
            # (the rate limit holds) but the gate measures the time since the previous message (C12 reads `starves`)
            wider = [e for e in ups if ctx(e) <= ctx(cev) and e.loops == cev.loops and (id(e.node) in cev.done or (e.node.lineno > cev.node.lineno and no_exit_between(cev.node, e.node)))]
            if wider:
                extra = " and ".join(sorted(x.text() for x in cev.facts if x.key() not in ctx(wider[0]) and not mentions(x.cond, {("a", A)})))
                rep.ok(R_R, I3, fact={"assignment": unp(wider[0].node), "starves": "`%s` also runs on messages that are not corrected (the correction additionally needs %s): the gate measures the time since the previous "
                       "MESSAGE, so with a minimum period longer than the sensor period it never opens and the correction is never applied" % (unp(wider[0].node), extra or "its rate gate"),
                       "starves_where": list(cx.where(rel, wider[0].node))})
            elif ups:
                rep.fail(R_R, I3, "`%s = t` is not taken on every path that runs the correction (it additionally needs %s): a correction that does not restamp is followed by the next one too early" % (
                    A, " and ".join(x.text() for x in ups[0].facts if x.key() not in ctx(cev)) or "a different path"), where=cx.where(rel, ups[0].node))
            else:
                rep.fail(R_R, I3, "%s is never set to the message time in %s: after the first correction every message is corrected" % (A, meth), where=cx.where(rel, ccall))
        elif others:
            rep.incomplete(R_R, I3, "%s is also assigned by `%s`, which the rule does not model" % (A, unp(others[0])), where=cx.where(rel, others[0]))
        else:
            rep.ok(R_R, I3, fact={"assignment": unp(same[0].node)})
    return n_stale


# ---------------------------------------------------------------------------------------------------------
# topics and message fields

def msg_class_name(e):
    """msgs.Imu / Imu -> 'Imu'"""
    return e.attr if isinstance(e, ast.Attribute) and isinstance(e.value, ast.Name) else e.id if isinstance(e, ast.Name) else None


def msg_fields(cx):
    """class name -> set of field names of its literal class-level dtype (classes with computed dtypes are absent)."""
    out = {}
    for cls in cx.fe.get(MSGS).tree.body:
        if not isinstance(cls, ast.ClassDef):
            continue
        for st in cls.body:
            if isinstance(st, ast.Assign) and [unp(t) for t in st.targets] == ["dtype"] and isinstance(st.value, ast.Call) and st.value.args \
                    and isinstance(st.value.args[0], ast.List):
                names = [el.elts[0].value for el in st.value.args[0].elts if isinstance(el, ast.Tuple) and el.elts and isinstance(el.elts[0], ast.Constant)]
                if len(names) == len(st.value.args[0].elts):
                    out[cls.name] = set(names)
    return out


def rule_topics(cx):
    rep = cx.rep
    R = "C20.topic-types"
    rep.rule(R, "every Subscriber with a literal topic has a Publisher of the same topic and message class somewhere in cyecca; every literal field name used on a message object of known class exists in that class's dtype")
    fields = msg_fields(cx)
    pubs, subs = {}, []
    for rel, sf in cx.scope():
        for c in ast.walk(sf.tree):
            if is_ctor_call(c, "Publisher") and len(c.args) == 3 and isinstance(c.args[1], ast.Constant):
                pubs.setdefault(c.args[1].value, set()).add(msg_class_name(c.args[2]))
            elif is_ctor_call(c, "Subscriber") and len(c.args) == 4:
                subs.append((rel, c))
    cb_types = {}          # id(method node) -> message class of its message parameter
    for rel, c in subs:
        T = msg_class_name(c.args[2])
        if not isinstance(c.args[1], ast.Constant):
            rep.na(R, "%s subscribes to computed topic %s" % (qualname(c), unp(c.args[1])), "topic is not a literal")
            continue
        topic = c.args[1].value
        inst = "%s subscribes to '%s' as %s" % (qualname(c), topic, T)
        if topic not in pubs:
            rep.fail(R, inst, "no Publisher(core, \"%s\", ...) exists anywhere in cyecca: the callback is never invoked" % topic, where=cx.where(rel, c))
        else:
            rep.check(R, inst, T in pubs[topic], "topic '%s' is published as %s, subscribed as %s" % (topic, sorted(pubs[topic]), T), where=cx.where(rel, c), fact={"publishers": sorted(pubs[topic])})
        cls = enclosing_class(c)
        if cls is not None and is_self_attr(c.args[3]) and c.args[3].attr in methods_of(cls) and T in fields:
            cb_types[id(methods_of(cls)[c.args[3].attr])] = T
    seen = set()
    for rel, sf in cx.scope():
        if rel == MSGS:
            continue
        for n in ast.walk(sf.tree):
            if not (isinstance(n, ast.Subscript) and isinstance(n.value, ast.Attribute) and n.value.attr == "data"
                    and isinstance(n.slice, ast.Constant) and isinstance(n.slice.value, str)):
                continue
            T = msg_type_of(cx, n.value.value, cb_types, fields)
            if T is None:
                continue
            inst = "%s: %s.data['%s'] on %s" % (qualname(n), unp(n.value.value), n.slice.value, T)
            if inst in seen:
                continue
            seen.add(inst)
            rep.check(R, inst, n.slice.value in fields[T], "message class %s has no field '%s' (fields: %s)" % (T, n.slice.value, ", ".join(sorted(fields[T]))),
                      where=cx.where(rel, n))


def msg_type_of(cx, e, cb_types, fields, depth=0):
    """Message class of expression e when it is syntactically evident, else None."""
    fn = enclosing_function(e)
    if fn is None or depth > 3:
        return None
    if isinstance(e, ast.Name):
        ps = params_of(fn)
        if e.id in ps:
            return cb_types.get(id(fn)) if ps.index(e.id) == 1 and ps[0] == "self" else None
        # nearest preceding `name = msgs.T()` in an enclosing block
        node = enclosing_stmt(e)
        while node is not fn:
            par = node._parent
            for fld in ("body", "orelse", "finalbody"):
                blk = getattr(par, fld, None)
                if isinstance(blk, list) and node in blk:
                    for prev in reversed(blk[:blk.index(node)]):
                        binds = [x for x in ast.walk(prev) if isinstance(x, ast.Name) and x.id == e.id and isinstance(x.ctx, ast.Store)]
                        if not binds:
                            continue
                        if isinstance(prev, ast.Assign) and len(prev.targets) == 1 and prev.targets[0] is binds[0] and isinstance(prev.value, ast.Call) \
                                and not prev.value.args and msg_class_name(prev.value.func) in fields:
                            return msg_class_name(prev.value.func)
                        return None
            node = par
        return None
    if is_self_attr(e):
        cls = enclosing_class(e)
        if cls is None:
            return None
        types = set()
        for b in self_assigns(cls, e.attr):
            v = getattr(b, "value", None)
            if isinstance(v, ast.Constant) and v.value is None:
                continue
            if isinstance(v, ast.Call) and not v.args and msg_class_name(v.func) in fields:
                types.add(msg_class_name(v.func))
            elif isinstance(v, ast.Name):
                types.add(msg_type_of(cx, v, cb_types, fields, depth + 1))
            else:
                types.add(None)
        return types.pop() if len(types) == 1 else None
    return None


# ---------------------------------------------------------------------------------------------------------

def run(w, rep, tier):
    cx = Ctx(w, rep)
    for rel in (UROS, MSGS, EST):
        cx.fe.get(rel)
    rule_publish(cx)
    rule_registries(cx)
    rule_params_core(cx)
    all_sub = rule_logger(cx)
    ptable = rule_param_wiring(cx, all_sub)
    rule_core_attrs(cx)
    n_stale = rule_estimator(cx, ptable)
    rule_topics(cx)
    # vacuity guard: decided instances confirmed by hand on the tree of 2026-10-02 (usage-count rules get ~80%)
    for rule, n in (("C20.publish-typecheck", 2), ("C20.publish-fanout", 8), ("C20.registry-writes", 13), ("C20.registry-lock", 8),
                    ("C20.param-broadcast", 8), ("C20.param-wiring", 11), ("C20.logger-subscribes-all", 3), ("C20.logger-row", 4),
                    ("C20.logger-callback", 1), ("C20.core-attr-resolves", 25), ("C20.est-predict-dt", 3), ("C20.est-rate-limit", 6),
                    ("C20.topic-types", 40)):
        # a gate on the message gap is decided by one instance instead of four
        rep.floor(rule, n - 3 * len(n_stale) if rule == "C20.est-rate-limit" else n)
    rep.note("scope: %s" % ", ".join(rel for rel, _ in cx.scope()))
    rep.undecided_clause("monotonicity of core.now and the actual firing times of Timeout events are properties of simpy, not of cyecca: not decided")
    rep.undecided_clause("that callbacks return (a subscriber callback that raises aborts the fan-out) and that calls do not re-assign attributes mentioned in a recorded guard are assumed")
    rep.undecided_clause("`assert` statements are counted as tests of pub_sub_locked; under python -O they vanish")
    rep.undecided_clause("numeric values of the configured minimum periods and of the simulation step are not examined; the rules decide the comparison structure only")
