"""C19.value - the sympy -> CasADi converter decided on the VALUES it builds.

`sympy_to_casadi` / `_sympy_parser` are run by the abstract interpreter on stand-ins for sympy expression trees (one Python
class per sympy node type, so that `type(f) == sympy.core.add.Add`, `str(type(f)) == "sin"`, `f.args`, `int(f)`,
`f.numerator` ... behave as the real objects do) and the canonical value number of the result is compared with the
meaning of the tree.  How the converter is written - loops, `sum`/`reduce`, a dispatch table, helper functions, the order
of the branches - does not matter to this rule; the idiom rules of c19.py remain for what they can say on top (operand
order of non-commutative constructs is covered here as well: `x**y`, `a/b`)."""
import ast
from fractions import Fraction

from .common import *
from ..absint import NativeModel, Env
from ..poly import Poly

REL = "cyecca/symbolic.py"


class S(NativeModel):
    args = ()

    def __init__(self, *args):
        self.args = tuple(args)

    def __str__(self):
        return "%s(%s)" % (type(self).__name__, ", ".join(str(a) for a in self.args))


class Add(S):
    pass


class Mul(S):
    pass


class Pow(S):
    pass


class Symbol(S):
    def __init__(self, name):
        self.name = name
        self.args = ()

    def __str__(self):
        return self.name

    def __hash__(self):
        return hash(("Symbol", self.name))

    def __eq__(self, o):
        return isinstance(o, Symbol) and o.name == self.name


class Integer(S):
    def __init__(self, v):
        self.v = v
        self.args = ()

    def __int__(self):
        return self.v

    def __float__(self):
        return float(self.v)

    def __index__(self):
        return self.v

    def __str__(self):
        return str(self.v)


class One(Integer):
    def __init__(self):
        Integer.__init__(self, 1)


class Zero(Integer):
    def __init__(self):
        Integer.__init__(self, 0)


class NegativeOne(Integer):
    def __init__(self):
        Integer.__init__(self, -1)


class Rational(S):
    def __init__(self, p, q):
        self.numerator, self.denominator = p, q
        self.p, self.q = p, q
        self.args = ()

    def __float__(self):
        return self.p / self.q

    def __str__(self):
        return "%d/%d" % (self.p, self.q)


class Half(Rational):
    def __init__(self):
        Rational.__init__(self, 1, 2)


class Float(S):
    def __init__(self, v):
        self.v = v
        self.args = ()

    def __float__(self):
        return self.v

    def __str__(self):
        return repr(self.v)


class MutableDenseMatrix(S):
    def __init__(self, rows):
        self.rows = rows
        self.shape = (len(rows), len(rows[0]))
        self.args = tuple(x for r in rows for x in r)

    def __getitem__(self, k):
        return self.rows[k[0]][k[1]]


def _fn_class(name):
    return type(name, (S,), {})


sin, cos, tan, atan = (_fn_class(n) for n in ("sin", "cos", "tan", "atan"))
g_fn, h_fn, Weird = _fn_class("g"), _fn_class("h"), _fn_class("Weird")


class _NS(NativeModel):
    def __init__(self, **kw):
        self.__dict__.update(kw)


def sympy_namespace():
    ns = _NS(
        core=_NS(add=_NS(Add=Add), mul=_NS(Mul=Mul), power=_NS(Pow=Pow), symbol=_NS(Symbol=Symbol),
                 numbers=_NS(Integer=Integer, Rational=Rational, Float=Float, One=One, Zero=Zero, NegativeOne=NegativeOne, Half=Half)),
        matrices=_NS(dense=_NS(MutableDenseMatrix=MutableDenseMatrix)),
        Add=Add, Mul=Mul, Pow=Pow, Symbol=Symbol, Integer=Integer, Rational=Rational, Float=Float, Matrix=MutableDenseMatrix,
        MutableDenseMatrix=MutableDenseMatrix,
    )
    ns._cse = None
    ns.cse = lambda f, *a, **k: ns._cse
    return ns


def check_sympy_value(w, rep):
    """-> True when every case was decided and none failed."""
    R = "C19.value"
    rep.rule(R, "sympy_to_casadi run on stand-in expression trees: the value built equals the meaning of the tree for every node type the converter accepts (numbers, symbols, n-ary sums and products, powers incl. sqrt and reciprocal, "
                "sin/cos/tan/atan, user functions by name, matrices, the cse path); unknown node types are refused")
    it = w.it
    sf = w.fe.get(REL)
    fn = w.fe.find_def(REL, "sympy_to_casadi")
    W = (REL, fn.lineno)
    ns = sympy_namespace()
    env = Env({"__name__": "cyecca.symbolic", "__file__": sf.path})
    env.is_module = True
    env["ca"] = CA
    env["sympy"] = ns
    try:
        for st in sf.tree.body:
            if isinstance(st, (ast.FunctionDef, ast.Import, ast.ImportFrom)):
                if isinstance(st, ast.FunctionDef):
                    it.exec_stmt(st, env, "cyecca.symbolic")
                elif any(a.name.split(".")[0] in ("functools", "operator", "itertools", "math") for a in st.names) or (isinstance(st, ast.ImportFrom) and (st.module or "").split(".")[0] in ("functools", "operator", "itertools", "math")):
                    it.exec_stmt(st, env, "cyecca.symbolic")
            elif isinstance(st, ast.Assign) and not any(isinstance(c, ast.Call) and ast.unparse(c.func).startswith("derive_series") for c in ast.walk(st.value)):
                # module-level tables the converter may consult (a name -> function map, ...), not the series tables
                try:
                    it.exec_stmt(st, env, "cyecca.symbolic")
                except (InterpRaise, Unsupported):
                    pass
    except (InterpRaise, Unsupported) as ex:
        rep.incomplete(R, "sympy_to_casadi", "cannot load the converter: %s" % ex, where=W)
        return False
    conv = env.get("sympy_to_casadi") if hasattr(env, "get") else env["sympy_to_casadi"]
    x, y = Symbol("x"), Symbol("y")
    un = lambda k, p: cm.un(k, p)

    def run(tree, f_dict=None, symbols=None, cse=False):
        kw = {"f": tree}
        if f_dict is not None:
            kw["f_dict"] = f_dict
        if symbols is not None:
            kw["symbols"] = symbols
        if cse:
            kw["cse"] = True
        res = it.call(conv, [], kw, fn)
        if not (isinstance(res, tuple) and len(res) == 2 and isinstance(res[1], dict)):
            raise InterpRaise("TypeError", "sympy_to_casadi does not return (expression, symbol table)")
        return res

    def P(v):
        m = cm.to_mat(v)
        return m

    cases = []

    def case(label, tree, want, **kw):
        cases.append((label, tree, want, kw))
    X = lambda st: st["x"].s()
    Y = lambda st: st["y"].s()
    c = Poly.const
    case("Integer 3", Integer(3), lambda st: c(3))
    case("One / Zero / NegativeOne / Half", MutableDenseMatrix([[One(), Zero()], [NegativeOne(), Half()]]), lambda st: [[c(1), c(0)], [c(-1), c(Fraction(1, 2))]])
    case("Float 2.5", Float(2.5), lambda st: c(Fraction(5, 2)))
    case("Rational 3/4", Rational(3, 4), lambda st: c(Fraction(3, 4)))
    case("python int 7", 7, lambda st: c(7))
    case("Symbol x", x, X)
    case("Add(x, y, 3)", Add(x, y, Integer(3)), lambda st: X(st) + Y(st) + c(3))
    case("Add of four terms", Add(x, y, Integer(3), Mul(x, y)), lambda st: X(st) + Y(st) + c(3) + X(st) * Y(st))
    case("Mul(x, y, 2)", Mul(x, y, Integer(2)), lambda st: (X(st) * Y(st)).scale(2))
    case("Mul of four factors", Mul(x, y, Integer(2), Add(x, One())), lambda st: (X(st) * Y(st)).scale(2) * (X(st) + c(1)))
    case("Pow(x, 3)", Pow(x, Integer(3)), lambda st: X(st) * X(st) * X(st))
    case("Pow(x, y): base ** exponent in that order", Pow(x, y), lambda st: cm.ew(cm.scalar(X(st)), cm.scalar(Y(st)), cm.ppow).s() if hasattr(cm, "ppow") else None)
    case("Pow(x, 1/2) = sqrt(x)", Pow(x, Half()), lambda st: un("sqrt", X(st)))
    case("Pow(x, -1) = 1/x", Pow(x, NegativeOne()), lambda st: X(st).recip())
    case("Pow(x + y, 2)", Pow(Add(x, y), Integer(2)), lambda st: (X(st) + Y(st)) * (X(st) + Y(st)))
    case("Mul(x, Pow(y, -1)) = x / y", Mul(x, Pow(y, NegativeOne())), lambda st: X(st) * Y(st).recip())
    for nm, cls_, kind in (("sin", sin, "sin"), ("cos", cos, "cos"), ("tan", tan, "tan"), ("atan", atan, "atan")):
        case("%s(x)" % nm, cls_(x), lambda st, kind=kind: un(kind, X(st)))
    fd = {"g": CA.sin, "h": CA.cos}
    case("user function g(x) with f_dict = {g: sin, h: cos}", g_fn(x), lambda st: un("sin", X(st)), f_dict=fd)
    case("user function h(x) with f_dict = {g: sin, h: cos}", h_fn(x), lambda st: un("cos", X(st)), f_dict=fd)
    case("Matrix [[x, y], [2, sin(x)]]", MutableDenseMatrix([[x, y], [Integer(2), sin(x)]]), lambda st: [[X(st), Y(st)], [c(2), un("sin", X(st))]])
    case("2 x + y^2 + sin(x y)", Add(Mul(Integer(2), x), Pow(y, Integer(2)), sin(Mul(x, y))), lambda st: X(st).scale(2) + Y(st) * Y(st) + un("sin", X(st) * Y(st)))
    all_ok = True
    for label, tree, want, kw in cases:
        inst = "sympy_to_casadi(%s)" % label
        try:
            val, st = run(tree, **kw)
            exp = want(st)
        except (InterpRaise, Unsupported, KeyError) as ex:
            all_ok = False
            (rep.fail if isinstance(ex, InterpRaise) else rep.incomplete)(R, inst, ("raises %s" % ex) if isinstance(ex, InterpRaise) else "cannot interpret the converter on this tree: %s" % (ex,), where=W)
            continue
        if exp is None:
            continue
        got = P(val)
        expm = MatVal(len(exp), len(exp[0]), [list(r) for r in exp], "SX") if isinstance(exp, list) else cm.scalar(exp)
        v, d = decide_mat(got, expm) if got.shape == expm.shape else (DIFFERENT, "shape %s vs %s" % (got.shape, expm.shape))
        if v == EQUAL:
            rep.ok(R, inst)
        elif v == DIFFERENT:
            all_ok = False
            rep.fail(R, inst, "the converted expression does not mean the same as the sympy tree: %s" % d, where=W, fact={"difference": d})
        else:
            all_ok = False
            rep.incomplete(R, inst, "cannot decide: %s" % d, where=W)
    # refusal of an unknown node type
    inst = "sympy_to_casadi(node of an unknown type) is refused"
    try:
        val, st = run(Weird(x))
        all_ok = False
        rep.fail(R, inst, "an expression of a type the converter does not know is converted to %s instead of being refused" % short(P(val).cells[0][0], 60), where=W)
    except InterpRaise as ex:
        rep.check(R, inst, ex.kind in ("NotImplementedError", "KeyError", "ValueError", "TypeError"), "raises %s" % ex, where=W)
    except Unsupported as ex:
        all_ok = False
        rep.incomplete(R, inst, "cannot interpret: %s" % ex, where=W)
    # the caller's symbol table: lookup before create, returned as is
    inst = "sympy_to_casadi(x + y, symbols={x: X0}) uses the caller's X0 and returns the caller's table with y added"
    try:
        X0 = CA.SX.sym("x")
        table = {"x": X0}
        val, st = run(Add(x, y), symbols=table)
        good = st is table and st.get("x") is X0 and "y" in st and decide(P(val).s(), X0.s() + st["y"].s()) == EQUAL
        rep.check(R, inst, good, "the caller's symbol is replaced or the table handed back is not the caller's (%s)" % sorted(st), where=W)
        all_ok &= good
    except (InterpRaise, Unsupported) as ex:
        all_ok = False
        (rep.fail if isinstance(ex, InterpRaise) else rep.incomplete)(R, inst, "%s" % ex, where=W)
    # cse path: definitions in dependency order, a later one uses an earlier one
    inst = "sympy_to_casadi(f, cse=True) with cse definitions x0 = x + y, x1 = sin(x0)^2 and reduced form x1 cos(x1) + x0"
    try:
        x0, x1 = Symbol("x0"), Symbol("x1")
        ns._cse = ([(x0, Add(x, y)), (x1, Pow(sin(x0), Integer(2)))], [Add(Mul(x1, cos(x1)), x0)])
        table = {}
        val, st = run(Add(x, y), symbols=table, cse=True)
        s_ = st["x"].s() + st["y"].s()
        x1v = un("sin", s_) * un("sin", s_)
        want = x1v * un("cos", x1v) + s_
        v = decide(P(val).s(), want)
        if v == EQUAL:
            left = sorted(k for k in st if k in ("x0", "x1"))
            rep.check(R, inst, not left, "the cse temporaries %s stay in the caller's symbol table" % left, where=W)
            all_ok &= not left
        elif v == DIFFERENT:
            all_ok = False
            rep.fail(R, inst, "the cse path does not reproduce the expression: got %s" % short(P(val).s(), 160), where=W)
        else:
            all_ok = False
            rep.incomplete(R, inst, "cannot decide: %s" % short(P(val).s(), 160), where=W)
    except (InterpRaise, Unsupported, KeyError) as ex:
        all_ok = False
        (rep.fail if isinstance(ex, InterpRaise) else rep.incomplete)(R, inst, "%s" % (ex,), where=W)
    finally:
        ns._cse = None
    rep.floor(R, 60)      # 26 sympy-side cases + 41 opcodes + 9 constants + symbol and matrix cases on the tree of 2026-10-04
    return all_ok


# ------------------------------------------------------------------------------------------------------------------
# CasADi -> sympy: casadi_to_sympy run on stand-ins for SX nodes; what it returns is rendered as source text and looked
# up in the same semantic table (c19.OPS) the idiom rule uses - however the operands are plumbed (nested closures,
# module-level helpers bound with functools.partial, operator.add instead of a lambda, a shared Piecewise helper).

class SymNode(NativeModel):
    """Stand-in for a sympy expression under construction; records how it was built."""

    def __init__(self, text, atom=False):
        self.text = text if atom else "(%s)" % text

    @staticmethod
    def of(v):
        if isinstance(v, SymNode):
            return v.text
        if isinstance(v, bool) or v is None:
            return repr(v)
        if isinstance(v, Fraction):
            return repr(v.numerator) if v.denominator == 1 else "(%d / %d)" % (v.numerator, v.denominator) if Fraction(float(v)) != v else repr(float(v))
        if isinstance(v, (int, float)):
            return repr(v)
        if isinstance(v, (tuple, list)):
            return "(%s%s)" % (", ".join(SymNode.of(x) for x in v), "," if len(v) == 1 else "")
        if isinstance(v, str):
            return repr(v)
        raise Unsupported("sympy stand-in: cannot render %r" % (v,))

    def _b(self, op, o, rev=False):
        a, b = (SymNode.of(o), self.text) if rev else (self.text, SymNode.of(o))
        return SymNode("%s %s %s" % (a, op, b))

    def __add__(self, o): return self._b("+", o)
    def __radd__(self, o): return self._b("+", o, True)
    def __sub__(self, o): return self._b("-", o)
    def __rsub__(self, o): return self._b("-", o, True)
    def __mul__(self, o): return self._b("*", o)
    def __rmul__(self, o): return self._b("*", o, True)
    def __truediv__(self, o): return self._b("/", o)
    def __rtruediv__(self, o): return self._b("/", o, True)
    def __pow__(self, o): return self._b("**", o)
    def __rpow__(self, o): return self._b("**", o, True)
    def __mod__(self, o): return self._b("%", o)
    def __rmod__(self, o): return self._b("%", o, True)
    def __and__(self, o): return self._b("&", o)
    def __or__(self, o): return self._b("|", o)
    def __lt__(self, o): return self._b("<", o)
    def __le__(self, o): return self._b("<=", o)
    def __gt__(self, o): return self._b("<", o, True)      # a > b is b < a (one spelling, as the idiom rule's canoniser)
    def __ge__(self, o): return self._b("<=", o, True)
    def __neg__(self): return SymNode("-%s" % self.text)
    def __pos__(self): return self
    def __invert__(self): return SymNode("~%s" % self.text)
    def __abs__(self): return SymNode("sympy.Abs(%s)" % self.text, True)
    __hash__ = object.__hash__

    def __repr__(self):
        return self.text


class MatOut(NativeModel):
    def __init__(self, m, n):
        self.shape = (m, n)
        self.entries = {}

    def __setitem__(self, k, v):
        self.entries[tuple(int(x) for x in k)] = v

    def __getitem__(self, k):
        return self.entries[tuple(k)]


class _SympyOut(NativeModel):
    def __init__(self, prefix="sympy"):
        self._p = prefix

    def __getattr__(self, k):
        if k.startswith("__"):
            raise AttributeError(k)
        if k in ("zeros", "Matrix") and self._p == "sympy":
            return (lambda m, n=None: MatOut(m, n if n is not None else m)) if k == "zeros" else (lambda *a: (_ for _ in ()).throw(Unsupported("sympy.Matrix in the stand-in")))
        if k in ("S", "core", "functions"):
            return _SympyOut(self._p + "." + k)
        if k in ("Half", "One", "Zero", "NegativeOne", "pi", "E", "oo", "true", "false"):
            return SymNode("%s.%s" % (self._p, k), True)
        name = "%s.%s" % (self._p, k)
        return lambda *a, **kw: SymNode("%s(%s)" % (name, ", ".join([SymNode.of(x) for x in a] + ["%s=%s" % (q, SymNode.of(v)) for q, v in kw.items()])), True)


class ExprNode(NativeModel):
    CODES = {}

    def __init__(self, opname, deps=(), value=None, name="", shape=(1, 1), elems=None):
        self.opname, self.deps, self.value, self._name, self.shape, self.elems = opname, tuple(deps), value, name, shape, elems

    @classmethod
    def code(cls, opname):
        return cls.CODES.setdefault(opname, 1000 + len(cls.CODES))

    def op(self): return ExprNode.code(self.opname)
    def dep(self, i=0): return self.deps[int(i)]
    def n_dep(self): return len(self.deps)
    def numel(self): return self.shape[0] * self.shape[1]
    def size1(self): return self.shape[0]
    def size2(self): return self.shape[1]
    def rows(self): return self.shape[0]
    def columns(self): return self.shape[1]
    def elements(self): return list(self.elems) if self.elems is not None else [self]
    def nonzeros(self): return self.elements()
    def is_symbolic(self): return self.opname == "OP_PARAMETER"
    def is_constant(self): return self.opname == "OP_CONST"
    def is_scalar(self): return self.numel() == 1
    def is_leaf(self): return not self.deps
    def name(self): return self._name
    def __float__(self): return float(self.value)
    def __int__(self): return int(self.value)
    def __str__(self): return self._name or self.opname
    def __repr__(self): return "SX(%s)" % (self._name or self.opname)
    __hash__ = object.__hash__

    def __getitem__(self, k):
        if self.elems is None:
            return self
        if isinstance(k, tuple):
            return self.elems[int(k[0]) + self.shape[0] * int(k[1])]
        return self.elems[int(k)]


class _CaOps(NativeModel):
    def __getattr__(self, k):
        if k.startswith("OP_"):
            return ExprNode.code(k)
        if k.startswith("__"):
            raise AttributeError(k)
        raise Unsupported("ca.%s in casadi_to_sympy is not modelled by the stand-in" % k)


def check_casadi_value(w, rep, OPS, verdict_fn, cx):
    """-> True when every opcode was decided and none failed."""
    R = "C19.value"
    it = w.it
    sf = w.fe.get(REL)
    fn = w.fe.find_def(REL, "casadi_to_sympy")
    W = (REL, fn.lineno)
    env = Env({"__name__": "cyecca.symbolic", "__file__": sf.path})
    env.is_module = True
    env["ca"] = _CaOps()
    env["sympy"] = _SympyOut()
    try:
        for st in sf.tree.body:
            if isinstance(st, ast.FunctionDef):
                it.exec_stmt(st, env, "cyecca.symbolic")
            elif isinstance(st, (ast.Import, ast.ImportFrom)):
                mods = [a.name.split(".")[0] for a in st.names] if isinstance(st, ast.Import) else [(st.module or "").split(".")[0]]
                if all(m in ("functools", "operator", "itertools", "math", "collections", "typing") for m in mods):
                    it.exec_stmt(st, env, "cyecca.symbolic")
            elif isinstance(st, (ast.Assign, ast.AnnAssign, ast.ClassDef)) and not any(isinstance(c_, ast.Call) and ast.unparse(c_.func).startswith("derive_series") for c_ in ast.walk(st)):
                try:
                    it.exec_stmt(st, env, "cyecca.symbolic")
                except (InterpRaise, Unsupported):
                    pass
    except (InterpRaise, Unsupported) as ex:
        rep.incomplete(R, "casadi_to_sympy", "cannot load the converter: %s" % ex, where=W)
        return False
    conv = env["casadi_to_sympy"]
    # opcodes the source mentions
    named = sorted({x.attr for x in ast.walk(sf.tree) if isinstance(x, ast.Attribute) and x.attr.startswith("OP_") and isinstance(x.value, ast.Name) and x.value.id == "ca"})
    all_ok = True
    n_conv = n_ref = 0
    for opname in named:
        if opname in ("OP_CONST", "OP_PARAMETER"):
            continue
        p0, p1 = ExprNode("OP_PARAMETER", name="_0"), ExprNode("OP_PARAMETER", name="_1")
        syms = {p0: SymNode("_0", True), p1: SymNode("_1", True)}
        node = ExprNode(opname, (p0, p1))
        inst = "casadi_to_sympy(%s(_0, _1))" % opname
        try:
            res = it.call(conv, [node, syms], {}, fn)
        except InterpRaise as ex:
            if ex.kind == "NotImplementedError":
                n_ref += 1
                continue
            all_ok = False
            rep.fail(R, inst, "raises %s instead of converting or refusing with NotImplementedError" % ex, where=W)
            continue
        except Unsupported as ex:
            all_ok = False
            rep.incomplete(R, inst, "cannot interpret the converter on this opcode: %s" % ex, where=W)
            continue
        n_conv += 1
        if opname not in OPS:
            all_ok = False
            rep.incomplete(R, inst, "the opcode is converted but the semantic table has no row for it", where=W)
            continue
        try:
            expr = ast.parse(SymNode.of(res), mode="eval").body
        except (SyntaxError, Unsupported) as ex:
            all_ok = False
            rep.incomplete(R, inst, "cannot read back the constructed expression: %s" % ex, where=W)
            continue
        before = len(rep.obs)
        verdict_fn(cx, R, inst, OPS[opname], expr, fn)
        if any(o.status != "ok" for o in rep.obs[before:]):
            all_ok = False
    rep.note("C19.value: casadi_to_sympy converts %d opcodes and refuses %d of the %d it names" % (n_conv, n_ref, len(named)))
    # numeric constants: the value must come back exactly (an integer-valued constant may come back as int)
    for val in (2.5, -2.5, 3.0, -4.0, 0.0, 1e-12, -0.75, 4000000000.5, 1e300):
        inst = "casadi_to_sympy(constant %r) returns that number" % val
        try:
            res = it.call(conv, [ExprNode("OP_CONST", value=val), {}], {}, fn)
            num = float(res) if isinstance(res, (int, float, Fraction)) and not isinstance(res, bool) else None
            good = num is not None and num == val
            rep.check(R, inst, good, "the constant comes back as %r: the value is not preserved" % (res,), where=W)
            all_ok &= good
        except (InterpRaise, Unsupported) as ex:
            all_ok = False
            (rep.fail if isinstance(ex, InterpRaise) else rep.incomplete)(R, inst, "%s" % ex, where=W)
    # symbols: created once, looked up afterwards, the caller's table is the one that is filled
    inst = "casadi_to_sympy(symbol) creates the sympy symbol once and returns the stored object afterwards"
    try:
        p = ExprNode("OP_PARAMETER", name="q")
        table = {}
        r1 = it.call(conv, [p, table], {}, fn)
        r2 = it.call(conv, [ExprNode("OP_ADD", (p, p)), table], {}, fn)
        good = p in table and table[p] is r1 and isinstance(r1, SymNode) and "'q'" in r1.text and isinstance(r2, SymNode) and r2.text.count(r1.text) == 2
        rep.check(R, inst, good, "symbol table %r, first %r, then %r" % (table, r1, r2), where=W)
        all_ok &= good
    except (InterpRaise, Unsupported) as ex:
        all_ok = False
        (rep.fail if isinstance(ex, InterpRaise) else rep.incomplete)(R, inst, "%s" % ex, where=W)
    # matrices: element (i, j) of the result is the translation of element i + rows * j (column-major) of the argument
    inst = "casadi_to_sympy(2x3 matrix): entry (i, j) is the translation of element i + 2 j"
    try:
        els = [ExprNode("OP_PARAMETER", name="e%d" % k) for k in range(6)]
        syms = {e: SymNode("e%d" % k, True) for k, e in enumerate(els)}
        M = it.call(conv, [ExprNode("OP_VERTCAT", shape=(2, 3), elems=els), syms], {}, fn)
        good = isinstance(M, MatOut) and M.shape == (2, 3) and all(M.entries.get((i, j)) is syms[els[i + 2 * j]] for i in range(2) for j in range(3))
        rep.check(R, inst, good, "the matrix comes back as %s" % (getattr(M, "entries", M),), where=W)
        all_ok &= good
    except (InterpRaise, Unsupported) as ex:
        all_ok = False
        (rep.fail if isinstance(ex, InterpRaise) else rep.incomplete)(R, inst, "%s" % ex, where=W)
    return all_ok
