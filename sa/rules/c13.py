"""C13 - control allocation: reachable motor commands, exact reproduction of feasible demands (DESIGN 4, C13)."""
from .common import *
from .liecommon import *
from ..poly import Poly, deep_subs, all_atoms
from ..frontend import AnchorMissing


def clamp_parts(p):
    """If p is a clamp of x into [lo, hi] return (x, lo, hi) else None.  Accepted idioms:
       if_else(x > hi, hi, if_else(x < lo, lo, x));  fmin(fmax(x, lo), hi);  fmax(fmin(x, hi), lo)."""
    a = p.single_atom()
    if a is None:
        return None
    if a.kind == "ite":
        c, hi, rest = a.key
        ca_ = c.single_atom()
        ra = rest.single_atom()
        if ca_ is not None and ca_.kind == "lt" and ca_.key[0] == hi and ra is not None and ra.kind == "ite":
            x = ca_.key[1]
            c2, lo, x2 = ra.key
            c2a = c2.single_atom()
            if c2a is not None and c2a.kind == "lt" and c2a.key[0] == x and c2a.key[1] == lo and x2 == x:
                return x, lo, hi
        return None
    if a.kind == "fmin":
        for inner, hi in ((a.key[0], a.key[1]), (a.key[1], a.key[0])):
            ia = inner.single_atom()
            if ia is not None and ia.kind == "fmax":
                return ia.key[0], ia.key[1], hi
    if a.kind == "fmax":
        for inner, lo in ((a.key[0], a.key[1]), (a.key[1], a.key[0])):
            ia = inner.single_atom()
            if ia is not None and ia.kind == "fmin":
                return ia.key[0], lo, ia.key[1]
    return None


def sign_cases(M, signed):
    """Resolve every comparison lt(x, y) for which (y - x) is +-(one of the named quantities) under the given signs.
    signed: list of (poly, sign) with sign in (-1, 0, +1)."""
    def f(a):
        if a.kind in ("lt", "le") and isinstance(a.key[0], Poly):
            d = a.key[1] - a.key[0]
            for q, s in signed:
                for k in (1, -1):
                    if d == q.scale(k):
                        val = s * k      # sign of (y - x)
                        truth = (val > 0) if a.kind == "lt" else (val >= 0)
                        return Poly.const(1 if truth else 0)
        return None
    return MatVal(M.r, M.c, [[deep_subs(p, f) if p.t else p for p in row] for row in M.cells], M.kind)


def headroom_identity(conds, C1, C2, fresh, params):
    """For every order comparison inside the unresolved conditions: is the tested quantity +-C1 or +-C2 as a FUNCTION?
    -> ("different", message, fact) when some tested quantity differs from all four on a cell with a rational witness,
       ("same"/"undecided", message, None) otherwise."""
    from ..cells import piecewise_compare
    from ..poly import all_atoms as _aa
    msyms = [v.single_atom() for k, v in fresh.items() if v.single_atom().symname.startswith("Msat")]
    others = [v.single_atom() for k, v in fresh.items() if not v.single_atom().symname.startswith("Msat")] + [p_.s().single_atom() for p_ in params]
    tested = []
    for c in conds:
        for a in _aa(c):
            if a.kind in ("lt", "le") and isinstance(a.key[0], Poly):
                # headroom tests are sign tests (one side is exactly 0) of a quantity that involves the thrust level; other
                # comparisons (the 1e-5 threshold on the largest moment, ...) are not candidates
                if a.key[0].t and a.key[1].t:
                    continue
                d = a.key[1] - a.key[0]
                tsat = [x for x in others if x.symname.startswith("Tsat") or x.symname == "T"]
                if d not in tested and any(x.kind in ("fmax", "fmin", "fabs") for x in _aa(d)) and any(x in tsat for x in _aa(d)):
                    tested.append(d)
    notes = []
    for d in tested:
        matches = False
        wit = None
        for name, ref in (("C1", C1), ("-C1", -C1), ("C2", C2), ("-C2", -C2)):
            r = piecewise_compare(d, ref, msyms, others)
            if r[0] == "different":
                wit = wit or (name, r)
                continue
            matches = True
            notes.append("tested quantity %s: %s against %s" % (short(d, 50), r[0], name))
            break
        if not matches and wit is not None:
            name, r = wit
            return ("different", "the saturation logic tests the sign of %s, which is neither the upper headroom C1 = F_max - max(F_sum) nor the lower headroom C2 = min(F_sum): "
                    "on the cell of the moment shares M_sat = %s it equals %s while %s there is %s (the moment shares of a 3-axis demand are not symmetric: max|m| != max m)"
                    % (short(d, 70), r[1], short(r[2], 70), name, short(r[3], 70)), {"witness": r[1]})
    return ("undecided", "; ".join(notes) or "no order comparison of piecewise-linear quantities found", None)


def witness_in_case(Xc, want, C1, C2, signs, fresh, params):
    """Exact evaluation (constant propagation, sa/pointscan.py) of the program's pre-clamp forces and of the value the sign
    case requires at rational points that lie strictly inside the case.  -> (point, got, required) for the first point
    where they differ, else None.  A difference is a concrete counterexample in exact arithmetic."""
    import itertools
    from fractions import Fraction as Fr
    from ..pointscan import Scan
    msyms = [v.single_atom() for k, v in fresh.items() if v.single_atom().symname.startswith("Msat")]
    tsat = [v.single_atom() for k, v in fresh.items() if v.single_atom().symname.startswith("Tsat")]
    pa = [p_.s().single_atom() for p_ in params]            # F_max, l, Cm, T
    cands = [(f_, t_, c_) for f_, t_ in itertools.product((Fr(8), Fr(20)), (Fr(1), Fr(6), Fr(16), Fr(30), Fr(60)))
             for c_ in itertools.product((Fr(-2), Fr(-1), Fr(1, 2), Fr(3)), repeat=len(msyms))]
    # points just inside a case: a headroom of -+F_max/4000 (the forces are affine in the thrust level, so the level that
    # puts max(F_sum) resp. min(F_sum) there is found by one evaluation at level 0) - a tolerance band around "exactly
    # saturated" that swallows a real over-saturation shows here and nowhere on the coarse grid
    for f_ in (Fr(8),):
        for c_ in itertools.product((Fr(-1), Fr(1, 2)), repeat=len(msyms)):
            pt0 = {pa[0]: f_, pa[1]: Fr(1, 4), pa[2]: Fr(1, 16), pa[3]: Fr(0)}
            pt0.update({a: Fr(0) for a in tsat})
            pt0.update(dict(zip(msyms, c_)))
            sc0 = Scan(pt0)
            c1, c2 = sc0.poly(C1), sc0.poly(C2)
            if c1 is None or c2 is None:
                continue
            n_ = Xc.r
            for eps in (Fr(1, 4000), Fr(-1, 4000)):
                cands.append((f_, (c1 + eps * f_) * n_, c_))          # C1 = -eps F_max at this level
                cands.append((f_, (-c2 - eps * f_) * n_, c_))         # C2 = -eps F_max
    for fmax_v, tv, combo in cands:
        if True:
            pt = {pa[0]: fmax_v, pa[1]: Fr(1, 4), pa[2]: Fr(1, 16), pa[3]: tv}
            pt.update({a: tv for a in tsat})
            pt.update(dict(zip(msyms, combo)))
            sc = Scan(pt)
            c1, c2 = sc.poly(C1), sc.poly(C2)
            if c1 is None or c2 is None or c1 == 0 or c2 == 0:
                continue
            if ((c1 > 0) - (c1 < 0), (c2 > 0) - (c2 < 0)) != signs:
                continue
            got = [sc.poly(p_) for p_ in Xc.flat()]
            req = [sc.poly(p_) for p_ in want.flat()]
            if None in got or None in req:
                continue
            if got != req:
                return ({repr(k): str(v) for k, v in pt.items()}, [str(x) for x in got], [str(x) for x in req])
    return None


def run(w, rep, tier):
    rep.rule("C13.API", "derive_control_allocation resolves; Function control_allocation(F_max, l, Cm, Ct, T, M) -> (omega, Fp_sum, F_moment, F_thrust, M_sat)")
    rep.rule("C13.clamp", "every motor force output is a clamp into [0, F_max] (if_else or fmin/fmax idiom, L7) and omega_i = sqrt(Fp_sum_i / Ct); a zero moment demand selects no division by zero")
    rep.rule("C13.mixer", "mixer matrix: thrust column constant 1/n, moment columns sum to zero, pairwise orthogonal, equal magnitude; forces sum to the (range-limited) thrust")
    rep.rule("C13.cases", "sign-case analysis of the headroom logic over (C1, C2) in {-,0,+}^2: feasible demand reproduced exactly; one-sided saturation shifts the collective thrust by exactly the violated headroom")
    rdd2 = w.mod("cyecca.models.rdd2")
    if "derive_control_allocation" not in rdd2:
        raise AnchorMissing("cyecca.models.rdd2.derive_control_allocation")
    W = w.where("cyecca.models.rdd2", "derive_control_allocation")
    ok, eqs = guarded(w, rep, "C13.API", "derive_control_allocation()", lambda: w.callf(rdd2["derive_control_allocation"]))
    if not ok:
        return
    fs = [v for v in eqs.values() if isinstance(v, cm.FunctionVal)] if isinstance(eqs, dict) else []
    f = next((x for x in fs if x.fname == "control_allocation"), fs[0] if fs else None)
    if f is None:
        rep.fail("C13.API", "control_allocation exported", "no Function returned", where=W)
        return
    good = f.in_names == ["F_max", "l", "Cm", "Ct", "T", "M"] and f.out_names[:2] == ["omega", "Fp_sum"] and len(f.outs) >= 5
    rep.check("C13.API", "signature (F_max, l, Cm, Ct, T, M) -> (omega, Fp_sum, F_moment, F_thrust, M_sat)", good, "signature is %s -> %s" % (f.in_names, f.out_names), where=W)
    if not good:
        return
    F_max, l, Cm, Ct, T, M = (w.sym(n, *( (3,) if n == "M" else ())) for n in ("F_max", "l", "Cm", "Ct", "T", "M"))
    outs = f(F_max, l, Cm, Ct, T, M)
    omega, Fp, Fm, Ft, Msat = outs[:5]
    n = Fp.r
    # zero moment demand (pure thrust - hover): constant propagation of M = 0 through the outputs must not select a division
    # by zero (0 * x / 0 is NaN in the generated code: a blend "c * a / m + (1 - c) * b" evaluates both sides)
    from ..pointscan import Scan
    from fractions import Fraction as Fr
    syms = {nm: [p_.single_atom() for p_ in v.flat()] for nm, v in (("F_max", F_max), ("l", l), ("Cm", Cm), ("Ct", Ct), ("T", T), ("M", M))}
    for tv in (Fr(-1), Fr(6), Fr(60)):
        pt = {syms["F_max"][0]: Fr(8), syms["l"][0]: Fr(1, 4), syms["Cm"][0]: Fr(1, 16), syms["Ct"][0]: Fr(1, 4), syms["T"][0]: tv}
        pt.update({a: Fr(0) for a in syms["M"]})
        sc = Scan(pt)
        for o in (Fp, omega):
            for p_ in o.flat():
                sc.poly(p_)
        bad = [(a, why) for a, why in sc.flags if "division" in why]
        inst = "zero moment demand, T = %s F_max = 8: motor forces and speeds evaluate no division by zero" % tv
        if bad:
            rep.fail("C13.clamp", inst, "%s [%s]: with M = (0, 0, 0) every motor command is NaN" % (bad[0][1], short(Poly.atom(bad[0][0]), 80)), where=W)
        else:
            rep.ok("C13.clamp", inst, fact={"atoms_visited": len(sc.memo)})
    zero = cm.ZERO
    pre = []
    for i in range(n):
        cp = clamp_parts(Fp.cells[i][0])
        inst = "Fp_sum[%d] is clamp(., 0, F_max)" % i
        if cp is None:
            rep.fail("C13.clamp", inst, "motor force %d is not clamped into [0, F_max]: %s" % (i, short(Fp.cells[i][0], 120)), where=W)
            pre.append(None)
            continue
        x, lo, hi = cp
        okc = lo == zero and hi == F_max.s()
        rep.check("C13.clamp", inst, okc, "clamp bounds are [%s, %s], expected [0, F_max]" % (short(lo, 40), short(hi, 40)), where=W)
        pre.append(x)
        want = cm.un("sqrt", cm.pdiv(Fp.cells[i][0], Ct.s()))
        rep.check("C13.clamp", "omega[%d] = sqrt(Fp_sum[%d] / Ct)" % (i, i), omega.cells[i][0] == want, "motor speed %d is not sqrt(clamped force / Ct): %s" % (i, short(omega.cells[i][0], 100)), where=W)
    # thrust and moment pre-saturation
    cpT = None
    ft0 = Ft.cells[0][0]
    # F_thrust_i = T_sat / n with T_sat = clamp(T, 0, n F_max)
    Tsat_atoms = [a for a in ft0.atoms() if a.kind in ("ite", "fmin", "fmax")]
    if len(ft0.t) == 1 and Tsat_atoms:
        (mono, c), = ft0.t.items()
        Tsat = Poly.atom(Tsat_atoms[0])
        cpT = clamp_parts(Tsat)
        rep.check("C13.mixer", "thrust column: F_thrust_i = T_sat / %d for every motor" % n, c == Fraction(1, n) and all(Ft.cells[i][0] == ft0 for i in range(n)),
                  "thrust is not spread equally over the motors", where=W)
        rep.check("C13.clamp", "T_sat = clamp(T, 0, %d F_max)" % n, cpT is not None and cpT[0] == T.s() and cpT[1] == zero and cpT[2] == F_max.s().scale(n),
                  "thrust demand is not range-limited to [0, n F_max]", where=W)
    else:
        rep.fail("C13.mixer", "thrust column", "F_thrust is not (clamped thrust)/n: %s" % short(ft0, 100), where=W)
    # moment columns: coefficients of the three M_sat atoms in F_moment
    ms = [Msat.cells[j][0].single_atom() for j in range(3)]
    if any(a is None for a in ms):
        rep.fail("C13.mixer", "M_sat cells are clamps of M", "M_sat is not an elementwise clamp", where=W)
        return
    for j in range(3):
        cp = clamp_parts(Msat.cells[j][0])
        Mmax = cm.pmul(l.s(), F_max.s()).scale(Fraction(n, 2))
        rep.check("C13.clamp", "M_sat[%d] = clamp(M[%d], -l n F_max/2, +l n F_max/2)" % (j, j), cp is not None and cp[0] == M.cells[j][0] and cp[2] == Mmax and cp[1] == -Mmax,
                  "moment demand %d is not range-limited symmetrically" % j, where=W)
    A = [[None] * 3 for _ in range(n)]
    lin = True
    for i in range(n):
        rest = Fm.cells[i][0]
        for j in range(3):
            coef = Poly()
            for mono, c in rest.t.items():
                d = dict(mono)
                if d.get(ms[j]) == 1:
                    d.pop(ms[j])
                    coef = coef + Poly({tuple(sorted(d.items(), key=lambda z: z[0].id)): c})
            A[i][j] = coef
            rest = rest - coef * Poly.atom(ms[j])
        if rest.t:
            lin = False
    rep.check("C13.mixer", "F_moment is linear in M_sat", lin, "F_moment has terms outside the span of M_sat", where=W)
    if lin:
        for j in range(3):
            s = Poly()
            for i in range(n):
                s = s + A[i][j]
            rep.check("C13.mixer", "moment column %d sums to zero (a pure moment does not change the collective thrust)" % j, s.is_zero(), "column sum is %s" % short(s, 60), where=W)
            mags = {repr(A[i][j] * A[i][j]) for i in range(n)}
            rep.check("C13.mixer", "moment column %d has equal magnitude on all motors" % j, len(mags) == 1 and not A[0][j].is_zero(), "entries %s" % [short(A[i][j], 30) for i in range(n)], where=W)
            for k in range(j + 1, 3):
                dp = Poly()
                for i in range(n):
                    dp = dp + A[i][j] * A[i][k]
                rep.check("C13.mixer", "moment columns %d and %d are orthogonal" % (j, k), dp.is_zero(), "dot product %s" % short(dp, 60), where=W)
        tot = Poly()
        for i in range(n):
            tot = tot + Fm.cells[i][0] + Ft.cells[i][0]
        rep.check("C13.mixer", "sum of demanded motor forces = T_sat", cpT is not None and tot == Poly.atom(Tsat_atoms[0]), "forces do not add up to the range-limited thrust", where=W)
    # ---- sign-case analysis of the headroom logic
    if all(x is not None for x in pre) and cpT is not None:
        # the range-limited demands are abstracted to fresh symbols: the analysis is over the headroom logic only
        fresh = {ms[j]: Poly.sym("Msat~%d" % j, None) for j in range(3)}
        fresh[Tsat_atoms[0]] = Poly.sym("Tsat~", None)
        ab = lambda Mx: MatVal(Mx.r, Mx.c, [[deep_subs(p, lambda a: fresh.get(a)) if p.t else p for p in row] for row in Mx.cells], Mx.kind)
        Fm, Ft = ab(Fm), ab(Ft)
        pre = [deep_subs(x, lambda a: fresh.get(a)) for x in pre]
        Fsum = cm.ew(Fm, Ft, cm.padd)
        C1 = F_max.s() - cm.mmax(Fsum).s()
        C2 = cm.mmin(Fsum).s()
        X = MatVal(n, 1, [[x] for x in pre])
        conds = ite_conditions(X)
        uses = [c for c in conds]
        names = {1: "+", 0: "0", -1: "-"}
        ones = cm.CA.SX.ones(n, 1)
        expected = {
            (1, 1): (Fsum, "demand jointly achievable"), (1, 0): (Fsum, "demand jointly achievable (min force exactly 0)"),
            (0, 1): (Fsum, "demand jointly achievable (max force exactly F_max)"), (0, 0): (Fsum, "demand jointly achievable (max = F_max and min = 0 exactly)"),
            (-1, 1): (cm.ew(Fsum, cm.ew(ones, cm.scalar(C1), cm.pmul), cm.padd), "upper saturation only: thrust lowered by the missing headroom C1"),
            (1, -1): (cm.ew(Fsum, cm.ew(ones, cm.scalar(C2), cm.pmul), cm.psub), "lower saturation only: thrust raised by -C2"),
        }
        for (s1, s2), (want, what) in expected.items():
            Xc = sign_cases(X, [(C1, s1), (C2, s2)])
            # a quantity that is exactly 0 in this case is substituted: max(F_sum) = F_max resp. min(F_sum) = 0
            eqs0 = {}
            mx, mn = cm.mmax(Fsum).s().single_atom(), cm.mmin(Fsum).s().single_atom()
            if s1 == 0 and mx is not None:
                eqs0[mx] = F_max.s()
            if s2 == 0 and mn is not None:
                eqs0[mn] = Poly()
            if eqs0:
                Xc = MatVal(Xc.r, Xc.c, [[deep_subs(p, lambda a: eqs0.get(a)) if p.t else p for p in row] for row in Xc.cells], Xc.kind)
                want = MatVal(want.r, want.c, [[deep_subs(p, lambda a: eqs0.get(a)) if p.t else p for p in row] for row in want.cells], want.kind)
            left = ite_conditions(Xc)
            inst = "case C1 %s 0, C2 %s 0 (%s): pre-clamp forces = %s" % (names[s1], names[s2], what, "F_moment + F_thrust" if want is Fsum else "F_moment + F_thrust shifted")
            if left:
                # a condition that is not literally a sign test of C1 / C2: is the quantity it tests one of them written
                # differently, or another piecewise-linear function?  (cell decomposition with rational witnesses, sa/cells.py)
                verdict_h = headroom_identity(left, C1, C2, fresh, [F_max, l, Cm, T])
                wit = None
                if not (verdict_h is not None and verdict_h[0] == "different"):
                    wit = witness_in_case(Xc, want, C1, C2, (s1, s2), fresh, [F_max, l, Cm, T])
                if verdict_h is not None and verdict_h[0] == "different":
                    rep.fail("C13.cases", inst, verdict_h[1], where=W, fact=verdict_h[2])
                elif wit is not None:
                    rep.fail("C13.cases", inst, "at the rational witness %s (which lies in this sign case) the pre-clamp forces are %s, the case requires %s: an unresolved condition (%s) changes the result where it must not"
                             % (wit[0], wit[1], wit[2], short(left[0], 60)), where=W, fact={"witness": wit[0]})
                else:
                    rep.incomplete("C13.cases", inst, "conditions not resolved by the signs of C1 = F_max - max(F_sum), C2 = min(F_sum): %s%s" % (
                        short(left[0], 80), "; " + verdict_h[1] if verdict_h else ""), where=W)
                continue
            v, d = decide_mat(Xc, want)
            if v == EQUAL:
                rep.ok("C13.cases", inst)
            elif v == DIFFERENT:
                rep.fail("C13.cases", inst, "headroom logic does not reproduce the demand in this sign case: %s" % d, where=W, fact={"C1": names[s1], "C2": names[s2], "difference": d})
            else:
                # the reference is written with the program's own atoms (max/min of the demanded forces); if the
                # candidate uses no building block the reference lacks, no alternative spelling is involved and the
                # two differ as functions (the extra max/min atoms occur with non-zero coefficients)
                from ..decide import generators, normal
                gc = set().union(*[generators(normal(p)) for p in Xc.flat()])
                gr = set().union(*[generators(normal(p)) for p in want.flat()])
                if gc <= gr:
                    rep.fail("C13.cases", inst, "headroom logic does not reproduce the demand in this sign case: %s" % d, where=W, fact={"C1": names[s1], "C2": names[s2], "difference": d})
                else:
                    rep.incomplete("C13.cases", inst, "cannot decide: %s" % d, where=W)
    rep.floor("C13.clamp", 8)
    rep.floor("C13.mixer", 8)
    rep.floor("C13.cases", 6)
    rep.undecided_clause("double saturation (C1 < 0 and C2 < 0): the moment rescale is a heuristic, no exactness claim is decided")
