"""C10 - filter numerics: RK4 order conditions, square-root covariance algebra, LDL^T / UDU^T (DESIGN 4, C10)."""
from .common import *
from .liecommon import *
from ..frontend import AnchorMissing
from ..poly import Poly, all_atoms, deep_subs, poly_syms

MOD = "cyecca.util"


def check_rk4(w, rep):
    util = w.mod(MOD)
    if "rk4" not in util:
        raise AnchorMissing(MOD + ".rk4")
    W = w.where(MOD, "rk4")
    calls = []

    def f(t, y):
        k = len(calls)
        calls.append((cm.to_mat(t).s(), cm.to_mat(y).s()))
        return cm.scalar(Poly.sym("F%d~" % k, None))
    t, y, h = w.sym("t"), w.sym("y"), w.sym("h")
    ok, res = guarded(w, rep, "C10.rk4", "rk4(f, t, y, h) with an uninterpreted f", lambda: w.callf(util["rk4"], f, t, y, h))
    if not ok:
        return
    s = len(calls)
    rep.check("C10.rk4", "four stages", s == 4, "rk4 evaluates f %d times" % s, where=W)
    if s != 4:
        return
    F = [Poly.sym("F%d~" % k, None).single_atom() for k in range(s)]
    ha, ta, ya = h.s().single_atom(), t.s().single_atom(), y.s().single_atom()

    def lin(p, base):
        """p = base + h * sum_j a_j F_j  ->  [a_j] or None"""
        d = p - Poly.atom(base)
        a = [Fraction(0)] * s
        for mono, c in d.t.items():
            dd = dict(mono)
            if dd.pop(ha, 0) != 1:
                return None
            if not dd:
                return ("c", Fraction(c))
            if len(dd) != 1:
                return None
            (at, e), = dd.items()
            if e != 1 or at not in F:
                return None
            a[F.index(at)] = Fraction(c)
        return a
    cs, A = [], []
    okform = True
    for k, (tk, yk) in enumerate(calls):
        d = tk - t.s()
        if d.is_zero():
            cs.append(Fraction(0))
        else:
            r = lin(tk, ta)
            if not (isinstance(r, tuple) and r[0] == "c"):
                okform = False
                break
            cs.append(r[1])
        row = lin(yk, ya) if not (yk - y.s()).is_zero() else [Fraction(0)] * s
        if row is None or isinstance(row, tuple) or any(row[j] != 0 for j in range(k, s)):
            okform = False
            break
        A.append(row)
    b = lin(res.s(), ya)
    if not okform or b is None or isinstance(b, tuple):
        rep.incomplete("C10.rk4", "tableau extraction", "stages are not of the explicit Runge-Kutta form k_i = h f(t + c_i h, y + sum_j a_ij k_j)", where=W)
        return
    fact = {"c": [str(x) for x in cs], "A": [[str(x) for x in r] for r in A], "b": [str(x) for x in b]}
    rep.ok("C10.rk4", "explicit Runge-Kutta form, tableau extracted", fact=fact)
    rep.check("C10.rk4", "row sums: c_i = sum_j a_ij", all(cs[i] == sum(A[i]) for i in range(s)), "c = %s, A row sums = %s" % (cs, [sum(r) for r in A]), where=W, fact=fact)
    Ac = [sum(A[i][j] * cs[j] for j in range(s)) for i in range(s)]
    Ac2 = [sum(A[i][j] * cs[j] ** 2 for j in range(s)) for i in range(s)]
    AAc = [sum(A[i][j] * Ac[j] for j in range(s)) for i in range(s)]
    conds = [
        ("sum b = 1", sum(b), Fraction(1)),
        ("sum b c = 1/2", sum(b[i] * cs[i] for i in range(s)), Fraction(1, 2)),
        ("sum b c^2 = 1/3", sum(b[i] * cs[i] ** 2 for i in range(s)), Fraction(1, 3)),
        ("sum b A c = 1/6", sum(b[i] * Ac[i] for i in range(s)), Fraction(1, 6)),
        ("sum b c^3 = 1/4", sum(b[i] * cs[i] ** 3 for i in range(s)), Fraction(1, 4)),
        ("sum b c (A c) = 1/8", sum(b[i] * cs[i] * Ac[i] for i in range(s)), Fraction(1, 8)),
        ("sum b A c^2 = 1/12", sum(b[i] * Ac2[i] for i in range(s)), Fraction(1, 12)),
        ("sum b A A c = 1/24", sum(b[i] * AAc[i] for i in range(s)), Fraction(1, 24)),
    ]
    for name, got, want in conds:
        rep.check("C10.rk4", "order condition " + name, got == want, "order condition %s fails: got %s" % (name, got), where=W, fact={"value": str(got)})


def check_factorizations(w, rep, tier):
    util = w.mod(MOD)
    for fn, lower in (("ldl_symmetric_decomposition", True), ("udu_symmetric_decomposition", False)):
        if fn not in util:
            raise AnchorMissing("%s.%s" % (MOD, fn))
        W = w.where(MOD, fn)
        for n in range(1, 4 if tier == "quick" else 5):
            P = CA.triu2symm(CA.SX.sym("P", CA.Sparsity.upper(n)))
            with with_maxdeg(24 if n < 4 else 60):
                ok, res = guarded(w, rep, "C10.factor", "%s n=%d" % (fn, n), lambda: w.callf(util[fn], P))
                if not ok:
                    continue
                T, Dm = res
                unit = all(T.cells[i][i] == cm.ONE for i in range(n))
                tri = all(not T.cells[i][j].t for i in range(n) for j in range(n) if (j > i if lower else j < i))
                diag = all(not Dm.cells[i][j].t for i in range(n) for j in range(n) if i != j)
                rep.check("C10.factor", "%s n=%d: unit %s-triangular factor and diagonal D" % (fn, n, "lower" if lower else "upper"), unit and tri and diag,
                          "factor is not unit triangular / D not diagonal", where=W)
                rec = cm.matmul(cm.matmul(T, Dm), cm.transpose(T))
                verdict(rep, "C10.factor", "%s n=%d: factor D factor^T reconstructs P" % (fn, n), rec, P, (), W, "factorization does not reconstruct its input")
        # a structurally sparse input with fill-in: the arrowhead pattern [[a, b, c], [b, d, 0], [c, 0, e]] (and its mirror for
        # UDU) has a structural zero where the factor has a non-zero entry; the factorisation must not read the pattern of P
        # as the pattern of the factor (seeded C10-13 skipped structurally zero entries)
        a_, b_, c_, d_, e_ = (w.sym(nm).s() for nm in ("pa", "pb", "pc", "pd", "pe"))
        Z = Poly()
        cells = [[a_, b_, c_], [b_, d_, Z], [c_, Z, e_]] if lower else [[e_, Z, c_], [Z, d_, b_], [c_, b_, a_]]
        Psp = MatVal(3, 3, cells, "SX")
        with with_maxdeg(24):
            ok, res = guarded(w, rep, "C10.factor", "%s arrowhead n=3" % fn, lambda: w.callf(util[fn], Psp))
            if ok:
                T, Dm = res
                verdict(rep, "C10.factor", "%s n=3 with a structural zero that fills in: factor D factor^T reconstructs P" % fn, cm.matmul(cm.matmul(T, Dm), cm.transpose(T)), Psp, (), W,
                        "factorization of a structurally sparse matrix does not reconstruct its input (fill-in ignored)")


def check_sqrt_correct(w, rep):
    util = w.mod(MOD)
    if "sqrt_correct" not in util:
        raise AnchorMissing(MOD + ".sqrt_correct")
    Wh = w.where(MOD, "sqrt_correct")
    for nx, ny in ((6, 1), (6, 2), (3, 3)):
        Rs = w.sym("Rs", ny, ny)
        H = w.sym("H", ny, nx)
        Wm = CA.SX.sym("W", CA.Sparsity.lower(nx))
        ok, res = guarded(w, rep, "C10.sqrt-correct", "sqrt_correct n_x=%d n_y=%d" % (nx, ny), lambda: w.callf(util["sqrt_correct"], Rs, H, Wm))
        if not ok:
            continue
        Wp, K, Ss = res
        tag = "n_x=%d n_y=%d" % (nx, ny)
        shp = Wp.shape == (nx, nx) and K.shape == (nx, ny) and Ss.shape == (ny, ny)
        if not rep.check("C10.sqrt-correct", "%s: shapes W+ %dx%d, K %dx%d, Ss %dx%d" % (tag, nx, nx, nx, ny, ny, ny), shp, "shapes %s %s %s" % (Wp.shape, K.shape, Ss.shape), where=Wh):
            continue
        # the matrix handed to qr is the transpose of the pre-array [[Rs, H W], [0, W]]
        pre = cm.blockcat(Rs, cm.matmul(H, Wm), MatVal(nx, ny), Wm)
        N = nx + ny
        qa = [a for c in Ss.flat() + Wp.flat() for a in c.atoms() if a.kind == "qrR"]
        if not qa:
            rep.fail("C10.sqrt-correct", "%s: outputs are blocks of the QR factor" % tag, "no QR factor in the outputs", where=Wh)
            continue
        key = qa[0].key
        n_, m_ = key[2], key[3]
        arg = MatVal(n_, m_, [[key[4 + j * n_ + i] for j in range(m_)] for i in range(n_)])
        verdict(rep, "C10.sqrt-correct", "%s: QR is applied to the transpose of [[Rs, H W], [0, W]]" % tag, arg, cm.transpose(pre), (), Wh, "the pre-array handed to qr is not [[Rs, H W],[0, W]]^T")

        def BR(i, j):   # B_R = R^T, R upper triangular factor of qr(pre^T)
            return Poly.atom(Atom_qrR(j, i, n_, m_, key[4:])) if i >= j else Poly()
        wantW = MatVal(nx, nx, [[BR(ny + a, ny + b) for b in range(nx)] for a in range(nx)])
        wantS = MatVal(ny, ny, [[BR(a, b) for b in range(ny)] for a in range(ny)])
        wantC = MatVal(nx, ny, [[BR(ny + a, b) for b in range(ny)] for a in range(nx)])
        verdict(rep, "C10.sqrt-correct", "%s: W+ = B_R[n_y:, n_y:] (lower triangular)" % tag, Wp, wantW, (), Wh, "W+ is not the trailing block of the transposed triangular factor")
        verdict(rep, "C10.sqrt-correct", "%s: Ss = B_R[:n_y, :n_y]" % tag, Ss, wantS, (), Wh, "innovation factor is not the leading block")
        verdict(rep, "C10.sqrt-correct", "%s: K = B_R[n_y:, :n_y] inv(Ss)" % tag, solve_to_inv(K), cm.matmul(wantC, cm.inv(wantS)), (), Wh, "gain is not the cross block times the inverse innovation factor")
    rep.note("lemma (Steward 98 / array square-root filter): with [[Rs, HW],[0, W]] = L Q (L lower triangular, Q orthogonal), L L^T gives Ss Ss^T = H P H^T + R, "
             "C Ss^T = P H^T hence K = C Ss^-1 = P H^T S^-1, and W+ W+^T = P - K S K^T = (I - K H) P")


def Atom_qrR(i, j, n, m, args):
    from ..poly import Atom
    return Atom("qrR", (i, j, n, m) + tuple(args))


def check_sqrt_predict(w, rep):
    util = w.mod(MOD)
    if "sqrt_covariance_predict" not in util:
        raise AnchorMissing(MOD + ".sqrt_covariance_predict")
    Wh = w.where(MOD, "sqrt_covariance_predict")
    saved = w.it.summaries
    w.it.summaries = {}
    try:
        for n in (2, 3, 6):
            Wm = CA.SX.sym("W", CA.Sparsity.lower(n))
            F = w.sym("F", n, n)
            Q = CA.triu2symm(CA.SX.sym("Q", CA.Sparsity.upper(n)))
            ok, Wd = guarded(w, rep, "C10.sqrt-predict", "sqrt_covariance_predict n=%d" % n, lambda: w.callf(util["sqrt_covariance_predict"], Wm, F, Q))
            if not ok:
                continue
            tag = "n=%d" % n
            if not rep.check("C10.sqrt-predict", "%s: result is %dx%d" % (tag, n, n), Wd.shape == (n, n), "shape %s" % (Wd.shape,), where=Wh):
                continue
            Vt = cm.transpose(cm.inv(Wm))
            # X := (W_dot - F W) W^T - Q/2  read back through the inverse atoms:  W_dot = F W + (Q/2 + X) inv(W)^T
            # extract X cell-wise: coefficient structure sum_k (Q/2 + X)[i][k] * Vt[k][j]
            base = cm.ew(Wd, cm.matmul(F, Wm), cm.psub)
            X = MatVal(n, n)
            okx = True
            for i in range(n):
                for k in range(n):
                    # pick a column j where Vt[k][j] is a single inv atom and read its coefficient in base[i][j]
                    for j in range(n):
                        va = Vt.cells[k][j].single_atom()
                        if va is None:
                            continue
                        coef = Poly()
                        for mono, c in base.cells[i][j].t.items():
                            dd = dict(mono)
                            if dd.get(va) == 1:
                                dd.pop(va)
                                coef = coef + Poly({tuple(sorted(dd.items(), key=lambda z: z[0].id)): c})
                        X.cells[i][k] = coef - Q.cells[i][k].scale(Fraction(1, 2))
                        break
                    else:
                        okx = False
            if not okx:
                rep.incomplete("C10.sqrt-predict", "%s: form F W + (Q/2 + X) W^-T" % tag, "cannot read the correction matrix", where=Wh)
                continue
            recon = cm.ew(cm.matmul(F, Wm), cm.matmul(cm.ew(cm.ew(Q, Fraction(1, 2), cm.pmul), X, cm.padd), Vt), cm.padd)
            verdict(rep, "C10.sqrt-predict", "%s: W_dot = F W + (Q/2 + X) W^-T" % tag, Wd, recon, (), Wh, "result is not of the Andrews form F W + (Q/2 + X) W^-T")
            skew = cm.ew(X, cm.transpose(X), cm.padd)
            verdict(rep, "C10.sqrt-predict", "%s: X is skew-symmetric (so W_dot W^T + W W_dot^T = F P + P F^T + Q)" % tag, skew, zeros(n, n), (), Wh,
                    "the correction X is not skew-symmetric: the Lyapunov identity is violated")
            # the skew unknowns are obtained from one linear solve whose right-hand side does not depend on them
            sol = {a for c in X.flat() for a in all_atoms(c) if a.kind == "solve"}
            rep.check("C10.sqrt-predict", "%s: X comes from a single linear solve for the strictly-upper part of W_dot" % tag, len({a.key[2:] for a in sol}) == 1 and len(sol) == n * (n - 1) // 2,
                      "expected %d solved unknowns from one system, found %d from %d systems" % (n * (n - 1) // 2, len(sol), len({a.key[2:] for a in sol})), where=Wh)
    finally:
        w.it.summaries = saved
    rep.note("lemma: for skew X, (F W + (Q/2+X) W^-T) W^T + W (.)^T = F P + P F^T + Q with P = W W^T; X is chosen by solving the strictly-upper equations of W_dot = 0, "
             "so the exact solution makes W_dot lower triangular (the caller additionally applies tril)")


def solve_to_inv(M):
    """Rewrites every solve(A, B)[i, j] atom as (inv(A) @ B)[i, j] (the same mathematical object), so that a gain written
    with a linear solve can be compared with the documented form inv(Ss)."""
    memo = {}

    def f(a):
        if a.kind != "solve":
            return None
        i, j, n, m = a.key[:4]
        args = a.key[4:]
        k = (n, m, args)
        if k not in memo:
            A = MatVal(n, n, [[args[c * n + r] for c in range(n)] for r in range(n)])          # flat() is column-major
            B = MatVal(n, m, [[args[n * n + c * n + r] for c in range(m)] for r in range(n)])
            memo[k] = cm.matmul(cm.inv(A), B)
        return memo[k].cells[i][j]
    return MatVal(M.r, M.c, [[deep_subs(p, f) if p.t else p for p in row] for row in M.cells], M.kind)


def run(w, rep, tier):
    rep.rule("C10.rk4", "tableau (c, A, b) read off util.rk4 with an uninterpreted f; explicit form; row sums; the eight order-4 conditions in Q (lemma L3)")
    rep.rule("C10.factor", "LDL^T / UDU^T: unit triangular factor, diagonal D, factor D factor^T = P as rational functions, n = 1..3 (4 in the thorough tier)")
    rep.rule("C10.sqrt-correct", "sqrt_correct: QR of [[Rs, HW],[0,W]]^T; W+, Ss, K are the documented blocks (array square-root lemma)")
    rep.rule("C10.sqrt-predict", "sqrt_covariance_predict: Andrews form with a skew-symmetric correction obtained from one linear solve")
    check_rk4(w, rep)
    check_factorizations(w, rep, tier)
    check_sqrt_correct(w, rep)
    check_sqrt_predict(w, rep)
    rep.floor("C10.rk4", 11)
    rep.floor("C10.factor", 12)
    rep.floor("C10.sqrt-correct", 12)
    rep.floor("C10.sqrt-predict", 9)
    rep.undecided_clause("that CasADi's qr / solve / inv return exact factors (trusted), and positive semi-definiteness in floating point")
