"""C04 - Ad, ad and the bracket agree with matrix conjugation and commutators (DESIGN 4, C04)."""
import ast

from .common import *
from ..engine import is_identity, is_zero
from ..absint import Env
from ..casadi_model import CA


def alg_of(w, G):
    return w.attr(G, "algebra")


def vee_from_wedge(w, alg):
    """Read the vee map off the wedge table: for each parameter k a matrix cell that holds +-x_k."""
    n = w.attr(alg, "n_param")
    x = w.sym("x", n)
    Wm = w.call(w.elem(alg, x), "to_Matrix")
    atoms = sym_atoms_of(x)
    pos = []
    for k, a in enumerate(atoms):
        found = None
        for sign in (1, -1):
            for i in range(Wm.r):
                for j in range(Wm.c):
                    sa = Wm.cells[i][j].signed_atom()
                    if sa is not None and sa[1] is a and sa[0] == sign:
                        found = (i, j, sign)
                        break
                if found:
                    break
            if found:
                break
        if found is None:
            return None, Wm, x
        pos.append(found)

    def vee(M):
        return cm.vertcat(*[cm.scalar(M.cells[i][j].scale(s)) for i, j, s in pos])
    return vee, Wm, x


def wedge_is_linear(Wm, x):
    atoms = set(sym_atoms_of(x))
    for p in Wm.flat():
        for m, c in p.t.items():
            if len(m) != 1 or m[0][1] != 1 or m[0][0] not in atoms:
                return False
    return True


def check_algebra(w, rep, name, alg):
    n = w.attr(alg, "n_param")
    ms = w.attr(alg, "matrix_shape")
    W = lambda m: w.method_where(alg, m)[:2]
    x = w.sym("x", n)
    y = w.sym("y", n)
    z = w.sym("z", n)
    ex, ey, ez = (w.elem(alg, v) for v in (x, y, z))
    ok_w, Wx = guarded(w, rep, "C04.API", "%s.to_Matrix" % name, lambda: w.call(ex, "to_Matrix"))
    ok_ad, ADX = guarded(w, rep, "C04.API", "%s.ad" % name, lambda: w.call(ex, "ad"))
    ok_br, BR = guarded(w, rep, "C04.API", "%s.bracket" % name, lambda: w.param(w.call(alg, "bracket", left=ex, right=ey)))
    if ok_w:
        rep.check("C04.SHP", "%s.to_Matrix shape" % name, Wx.shape == tuple(ms), "wedge matrix has shape %s, matrix_shape is %s" % (Wx.shape, ms), where=W("to_Matrix"))
        rep.check("C04.TAB", "%s wedge is linear in the parameters" % name, wedge_is_linear(Wx, x), "to_Matrix of an algebra element is not linear in its parameters", where=W("to_Matrix"))
    if ok_ad:
        rep.ok("C04.API", "%s.ad" % name)
        rep.check("C04.SHP", "%s.ad is %dx%d" % (name, n, n), isinstance(ADX, MatVal) and ADX.shape == (n, n),
                  "ad has shape %s but the algebra has %d parameters" % (getattr(ADX, "shape", None), n), where=W("adjoint"))
    if ok_br:
        rep.ok("C04.API", "%s.bracket" % name)
    # vee o wedge = id  (from_Matrix where offered)
    if ok_w:
        okf, back = guarded(w, rep, "C04.API", "%s.from_Matrix" % name, lambda: w.call(alg, "from_Matrix", Wx))
        if okf:
            if isinstance(back, Instance) and isinstance(back.attrs.get("param"), MatVal):
                verdict(rep, "C04.TAB", "%s from_Matrix(to_Matrix(x)) = x" % name, back.attrs["param"], x, (), W("from_Matrix"), "vee is not the inverse of wedge")
            else:
                rep.fail("C04.API", "%s.from_Matrix" % name, "from_Matrix does not return an algebra element", where=W("from_Matrix"))
    vee, Wgen, xg = vee_from_wedge(w, alg) if ok_w else (None, None, None)
    if ok_w and vee is None:
        rep.fail("C04.TAB", "%s wedge covers every parameter" % name, "some parameter does not appear as +-x_k in the wedge matrix", where=W("to_Matrix"))
    # bracket = matrix commutator
    if ok_w and ok_br and vee is not None:
        okm, Wy = guarded(w, rep, "C04.TAB", "%s wedge(y)" % name, lambda: w.call(ey, "to_Matrix"))
        if okm:
            comm = cm.ew(cm.matmul(Wx, Wy), cm.matmul(Wy, Wx), cm.psub)
            okb, WB = guarded(w, rep, "C04.TAB", "%s wedge(bracket)" % name, lambda: w.call(w.elem(alg, BR), "to_Matrix"))
            if okb:
                verdict(rep, "C04.TAB", "%s wedge([x,y]) = wedge(x)wedge(y) - wedge(y)wedge(x)" % name, WB, comm, (), W("bracket"),
                        "bracket is not the matrix commutator")
    # ad_x y = [x, y]
    if ok_ad and ok_br and isinstance(ADX, MatVal) and ADX.shape == (n, n):
        verdict(rep, "C04.TAB", "%s ad_x y = [x,y]" % name, cm.matmul(ADX, y), BR, (), W("adjoint"), "ad_x y differs from the bracket")
    # antisymmetry and Jacobi
    if ok_br:
        okb, BR2 = guarded(w, rep, "C04.TAB", "%s bracket(y,x)" % name, lambda: w.param(w.call(alg, "bracket", left=ey, right=ex)))
        if okb:
            verdict(rep, "C04.TAB", "%s [x,y] = -[y,x]" % name, BR, cm.neg(BR2), (), W("bracket"), "bracket is not antisymmetric")

        def br(a, b):
            return w.call(alg, "bracket", left=a, right=b)
        okj, J = guarded(w, rep, "C04.TAB", "%s jacobi" % name, lambda: cm.ew(cm.ew(w.param(br(ex, br(ey, ez))), w.param(br(ey, br(ez, ex))), cm.padd), w.param(br(ez, br(ex, ey))), cm.padd))
        if okj:
            verdict(rep, "C04.TAB", "%s Jacobi identity" % name, J, zeros(n, 1), (), W("bracket"), "bracket violates the Jacobi identity")
        # operator sugar
        oks, S = guarded(w, rep, "C04.TAB", "%s x * y" % name, lambda: w.param(w.it.binop(ast.Mult(), ex, ey, None)))
        if oks:
            verdict(rep, "C04.TAB", "%s operator sugar x * y = bracket(x, y)" % name, S, BR, (), w.where("cyecca.lie.base", "LieAlgebraElement.__mul__"),
                    "`a * b` on algebra elements is not the bracket in that operand order")


def check_group_Ad(w, rep, name, G, tier):
    alg = alg_of(w, G)
    n = w.attr(alg, "n_param")
    kind = rot_kind(w, G)
    W = lambda m: w.method_where(G, m)[:2]
    X, xp, qx = fresh_on_manifold(w, G, "X")
    Y, yp, qy = fresh_on_manifold(w, G, "Y")
    quats = qx + qy
    ok_ad, AD = guarded(w, rep, "C04.API", "%s.Ad" % name, lambda: w.call(X, "Ad"))
    if not ok_ad:
        return
    rep.ok("C04.API", "%s.Ad" % name)
    good = isinstance(AD, MatVal) and AD.shape == (n, n)
    rep.check("C04.SHP", "%s.Ad is %dx%d" % (name, n, n), good, "Ad has shape %s but the algebra has %d parameters" % (getattr(AD, "shape", None), n), where=W("adjoint"))
    if not good:
        return
    # conjugation:  Ad_X y = vee( T(X) wedge(y) T(X^-1) )
    vee, _, _ = vee_from_wedge(w, alg)
    if vee is None:
        rep.incomplete("C04.conj", "%s" % name, "cannot read a vee map off the wedge table")
        return
    yv = w.sym("y", n)
    okc, parts = guarded(w, rep, "C04.conj", "%s conjugation operands" % name,
                         lambda: (w.call(X, "to_Matrix"), w.call(w.elem(alg, yv), "to_Matrix"), w.call(w.call(X, "inverse"), "to_Matrix")))
    if okc:
        T, Wy, Ti = parts
        if kind == "euler":
            # the property excludes the +-1e-3 rad gimbal band: decide on the regular branch of from_Matrix
            from .c07 import pole_conditions
            from .liecommon import assign_ites
            Ti = assign_ites(Ti, {c: False for c in pole_conditions(Ti)})
        with with_maxdeg(22 if kind == "mrp" else 14):
            C = cm.matmul(cm.matmul(T, Wy), Ti)
            lhs = cm.matmul(AD, yv)
            rhs = vee(C)
            undecidable = kind in ("dcm",)   # needs orthonormality of the 9 free parameters
            v = verdict(rep, "C04.conj", "%s Ad_X y = vee(X y^ X^-1)" % name, lhs, rhs, quats, W("adjoint"),
                        "Ad_X y is not the parameter vector of X y^ X^-1", unknown_ok=True) if not undecidable else rep.na(
                "C04.conj", "%s Ad_X y = vee(X y^ X^-1)" % name, "DCM parameters are not constrained to be orthonormal in the canonical form")
            if not undecidable:
                # the conjugate must lie in the algebra: wedge(vee(C)) == C
                okw, back = guarded(w, rep, "C04.conj", "%s wedge(vee(C))" % name, lambda: w.call(w.elem(alg, rhs), "to_Matrix"))
                if okw:
                    verdict(rep, "C04.conj", "%s X y^ X^-1 is in the algebra" % name, back, C, quats, W("to_Matrix"), "conjugated matrix is not an algebra matrix", unknown_ok=True)
    # homomorphism and inverse
    okp, ADP = guarded(w, rep, "C04.hom", "%s Ad(XY)" % name, lambda: (w.call(w.call(G, "product", X, Y), "Ad"), w.call(Y, "Ad")))
    if okp:
        with with_maxdeg(14):
            verdict(rep, "C04.hom", "%s Ad(XY) = Ad(X) Ad(Y)" % name, ADP[0], cm.matmul(AD, ADP[1]), quats, W("adjoint"), "Ad is not a homomorphism",
                    unknown_ok=(kind in ("mrp", "euler", "so2", "dcm")))
    oki, ADI = guarded(w, rep, "C04.hom", "%s Ad(X^-1)" % name, lambda: w.call(w.call(X, "inverse"), "Ad"))
    if oki and kind == "dcm":
        rep.na("C04.hom", "%s Ad(X^-1) Ad(X) = I" % name, "needs orthonormality of the nine DCM parameters, which the canonical form does not express")
    elif oki:
        with with_maxdeg(14):
            verdict(rep, "C04.hom", "%s Ad(X^-1) Ad(X) = I" % name, cm.matmul(ADI, AD), eye(n), quats, W("adjoint"), "Ad of the inverse is not the inverse of Ad",
                    unknown_ok=(kind in ("mrp", "euler", "dcm")))
    # block layout (L9): diagonal blocks are the rotation matrix, the rest is hat(t_i) @ R or structurally zero
    R = rot_factor(w, G)
    if R is not None and R is not G and kind in ("quat", "mrp", "dcm", "euler") and n % 3 == 0:
        a, b = rot_slice(w, G)
        so3 = w.G("so3")
        MR = w.call(w.elem(R, w.sl(xp, a, b)), "to_Matrix")
        k = n // 3 - 1
        allok = True
        for bi in range(k + 1):
            for bj in range(k + 1):
                blk = w.blk(AD, 3 * bi, 3 * bi + 3, 3 * bj, 3 * bj + 3)
                if bi == bj:
                    want, what = MR, "R"
                elif bj == k and bi < k:
                    hat = w.call(w.elem(so3, w.sl(xp, 3 * bi, 3 * bi + 3)), "to_Matrix")
                    want, what = cm.matmul(hat, MR), "hat(t_%d) @ R" % bi
                else:
                    want, what = zeros(3, 3), "0"
                v, d = decide_mat(blk, want, quats)
                if v != EQUAL:
                    allok = False
                    ewd = None
                    if what.startswith("hat"):
                        ew_v, _ = decide_mat(blk, cm.times(hat, MR), quats)
                        if ew_v == EQUAL:
                            ewd = " (it equals the ELEMENT-WISE product of hat(t) and R)"
                    (rep.fail if v == DIFFERENT else rep.incomplete)("C04.block", "%s Ad block (%d,%d) = %s" % (name, bi, bj, what),
                                                                    "block differs%s: %s" % (ewd or "", d), where=W("adjoint"))
        if allok:
            rep.ok("C04.block", "%s Ad has the semidirect block layout [[R,..,hat(t)R],..,[0,..,R]]" % name, fact={"blocks": (k + 1) ** 2})


def check_elementwise(w, rep):
    """D4: no element-wise product of two true matrices while building any Lie operation."""
    sites = {}
    executed = [0]

    def hook(node, module, l, r, how):
        executed[0] += 1
        if l.r > 1 and l.c > 1 and r.r > 1 and r.c > 1:
            sf = w.fe.module_file(module) if module else None
            key = (sf.rel if sf else module, getattr(node, "lineno", 0), how)
            sites.setdefault(key, (l.shape, r.shape))
    # positive fixture: the hook must fire on a known element-wise matrix product
    fx = ast.parse("A = ca.SX.sym('A', 3, 3)\nB = ca.SX.sym('B', 3, 3)\nC = ca.times(A, B)\nD = A * B\n")
    env = Env({"ca": CA, "__name__": "<fixture>"})
    w.it.ew_hook = hook
    try:
        w.it.exec_block(fx.body, env, "cyecca.lie.base")
        fired = len(sites)
        sites.clear()
        if fired != 2:
            rep.incomplete("C04.elementwise", "positive fixture", "the element-wise hook fired %d times on the fixture, expected 2" % fired)
            return
        rep.ok("C04.elementwise", "positive fixture: hook fires on ca.times(A,B) and A*B for 3x3 operands", nontrivial=False)
        ops_g = ["product", "inverse", "Ad", "log", "to_Matrix", "left_jacobian", "right_jacobian"]
        ops_a = ["ad", "to_Matrix", "left_jacobian", "right_jacobian", "left_jacobian_inv", "right_jacobian_inv"]
        count = 0
        for nm in GROUPS12:
            G = w.G(nm)
            X, xp = w.fresh(G, "X")
            Y, yp = w.fresh(G, "Y")
            for op in ops_g:
                try:
                    depth = len(w.it.stack)
                    if op == "product":
                        w.call(G, "product", X, Y)
                    else:
                        w.call(X, op)
                    count += 1
                except (InterpRaise, Unsupported):
                    del w.it.stack[depth:]
            alg = w.attr(G, "algebra")
            e = w.elem(alg, w.sym("x", w.attr(alg, "n_param")))
            try:
                depth = len(w.it.stack)
                w.call(G, "exp", e)
                count += 1
            except (InterpRaise, Unsupported):
                del w.it.stack[depth:]
        for nm in ALGEBRAS7:
            A = w.G(nm)
            e = w.elem(A, w.sym("x", w.attr(A, "n_param")))
            for op in ops_a:
                try:
                    depth = len(w.it.stack)
                    r = w.call(e, op)
                    count += 1
                except (InterpRaise, Unsupported):
                    del w.it.stack[depth:]
    finally:
        w.it.ew_hook = None
    for (rel, line, how), (ls, rs) in sorted(sites.items()):
        sf = w.fe.files.get(rel)
        fn = enclosing(sf, line) if sf else "?"
        rep.fail("C04.elementwise", "%s: %s of two matrices" % (fn, how),
                 "element-wise product (%s) of a %dx%d and a %dx%d matrix; the sibling builders use the matrix product '@'" % (how, ls[0], ls[1], rs[0], rs[1]),
                 where=(rel, line))
    if not sites:
        rep.ok("C04.elementwise", "no element-wise product of two true matrices in %d Lie operations (%d element-wise products inspected)" % (count, executed[0]))
    rep.note("C04.elementwise inspected %d element-wise products over %d operations" % (executed[0], count))


def enclosing(sf, line):
    best = None
    for node in ast.walk(sf.tree):
        if isinstance(node, (ast.FunctionDef, ast.ClassDef)) and node.lineno <= line <= getattr(node, "end_lineno", node.lineno):
            if best is None or node.lineno >= best[0]:
                par = getattr(node, "_parent", None)
                q = node.name if not isinstance(par, ast.ClassDef) else par.name + "." + node.name
                best = (node.lineno, q)
    return best[1] if best else "<module>"


def check_direct_sum(w, rep):
    """ad of a direct sum is block diagonal in factor order, on the factors' own slices.  Products with a non-abelian
    factor in second and third position, and one that repeats the same non-abelian factor, are included: an offset table that is wrong from the second factor on is
    invisible when the later factors are R^n (their ad blocks are zero)."""
    for names in (["SO3Mrp", "R3"], ["R3", "SO3Quat"], ["SE2", "SO3Mrp", "SE3Mrp"], ["SO3Quat", "SO3Quat"]):
        label = " x ".join(names)
        G = w.G(names[0])
        for nm in names[1:]:
            G = w.it.binop(ast.Mult(), G, w.G(nm), None)
        alg = w.attr(G, "algebra")
        n = w.attr(alg, "n_param")
        x = w.sym("x", n)
        e = w.elem(alg, x)
        W = w.method_where(alg, "adjoint")[:2]
        ok, AD = guarded(w, rep, "C04.direct-sum", "%s ad" % label, lambda: w.call(e, "ad"))
        if ok:
            parts, off = [], 0
            for nm in names:
                fa = w.attr(w.G(nm), "algebra")
                k = w.attr(fa, "n_param")
                parts.append(w.call(w.elem(fa, w.sl(x, off, off + k)), "ad"))
                off += k
            if all(isinstance(p_, MatVal) for p_ in parts) and off == n:
                verdict(rep, "C04.direct-sum", "%s: ad = diagcat of the factors' ad on their own slices, in factor order" % label, AD, cm.diagcat(*parts), (), W,
                        "direct-sum ad is not block diagonal in factor order")
                rep.check("C04.direct-sum", "%s: ad is %dx%d" % (label, n, n), AD.shape == (n, n), "direct-sum ad has shape %s for %d parameters (a factor's ad has the wrong size)" % (AD.shape, n), where=W)
            else:
                rep.fail("C04.direct-sum", "%s: algebra dimension is the sum of the factors' dimensions" % label, "algebra has %d parameters, factors sum to %d" % (n, off), where=W)
        okb, BR = guarded(w, rep, "C04.direct-sum", "%s bracket" % label, lambda: w.call(alg, "bracket", left=e, right=w.elem(alg, w.sym("y", n))))
        guarded(w, rep, "C04.direct-sum", "%s Ad" % label, lambda: w.call(w.elem(G, w.sym("X", w.attr(G, "n_param"))), "Ad"))


def run(w, rep, tier):
    rep.rule("C04.API", "Ad / ad / bracket / to_Matrix / from_Matrix resolve, bind and type-check for every group and algebra")
    rep.rule("C04.SHP", "Ad and ad are n x n with n the number of algebra parameters; wedge has shape matrix_shape")
    rep.rule("C04.TAB", "wedge linear; vee(wedge x)=x; wedge([x,y]) is the matrix commutator; ad_x y=[x,y]; antisymmetry; Jacobi; `a*b` sugar")
    rep.rule("C04.conj", "Ad_X y = vee(T(X) wedge(y) T(X^-1)) as canonical forms (unit quaternions modulo |q|=1, sin^2+cos^2=1, rational clearing)")
    rep.rule("C04.hom", "Ad(XY)=Ad(X)Ad(Y), Ad(X^-1)Ad(X)=I where canonical forms decide it")
    rep.rule("C04.block", "Ad of SE(3)/SE_2(3): diagonal blocks R, (translation_i, rotation) block hat(t_i) @ R as a matrix product, zero elsewhere (L9)")
    rep.rule("C04.elementwise", "no element-wise product of two true matrices while building any Lie group/algebra operation")
    rep.rule("C04.table", "necessary for Ad_exp(x) = expm(ad_x): the series table switches at |x| < eps between the Taylor polynomial and the closed form of the same formula (shared with C06.table)")
    rep.rule("C04.direct-sum", "direct-sum ad is diagcat of the factors' ad in factor order and is n x n")
    rep.rule("C04.adexp", "Ad_exp(x) = expm(ad_x) by composition: Ad is conjugation (C04.conj), ad represents the commutator (C04.TAB), and exp is the matrix exponential - the rules of C02 that decide d/dt exp(tx) = wedge(x) exp(tx) and the closed forms are evaluated here")
    for nm in ALGEBRAS7:
        check_algebra(w, rep, nm, w.G(nm))
    groups = [(nm, w.G(nm)) for nm in GROUPS12]
    if tier == "thorough":
        se3 = w.obj("cyecca.lie.group_se3", "SE3LieGroup")
        se23 = w.obj("cyecca.lie.group_se23", "SE23LieGroup")
        for rn in ("SO3Dcm", "SO3EulerB321"):
            for cls, lab in ((se3, "SE3"), (se23, "SE23")):
                okc, Gx = guarded(w, rep, "C04.API", "%s(SO3=%s) construction" % (lab, rn), lambda cls=cls, rn=rn: w.callf(cls, SO3=w.G(rn)))
                if okc:
                    groups.append(("%s[%s]" % (lab, rn), Gx))
    for nm, G in groups:
        check_group_Ad(w, rep, nm, G, tier)
    check_elementwise(w, rep)
    check_direct_sum(w, rep)
    rep.floor("C04.API", 12 + 7 * 2)
    rep.floor("C04.TAB", 7 * 4)
    rep.floor("C04.conj", 6)
    # Ad_exp(x) = expm(ad_x) is not decided, but it needs exp to be the exponential also below the series switch and for
    # negative arguments: the series-table rule (same formula on both branches, |x| < eps) is a necessary condition
    from .c06 import check_table
    check_table(w, rep, rule="C04.table")
    # ... and the MRP exp it is evaluated on goes through shadow_if_necessary, which must select -r/|r|^2 (same rotation)
    from .c02 import check_shadow_invariance
    check_shadow_invariance(w, rep, RULE="C04.table")
    # Ad_exp(x) = expm(ad_x): with Ad = conjugation and ad = commutator representation it holds exactly when exp is the
    # matrix exponential, which C02's rules decide on the closed forms (a self-consistent exp/log pair built on the wrong
    # Jacobian passes every round trip and breaks exactly this clause)
    forward_rules(w, rep, "c02", {"C02.ode": "C04.adexp", "C02.form": "C04.adexp", "C02.nilpotent": "C04.adexp"}, "quick")
    rep.floor("C04.adexp", 20)
    # Ad is a homomorphism in the MRP parameterisation: Ad_X = R(X) (C04.conj) and R(XY) = R(X) R(Y) through the
    # composition formula of the MRP product (rule shared with C01.hom)
    from .c01 import check_mrp_product
    check_mrp_product(w, rep, tier, rule="C04.hom")
    rep.undecided_clause("Ad_exp(x) = expm(ad_x) directly on the 6x6 / 9x9 forms (transcendental); decided by composition (C04.adexp) and the series-table condition (C04.table)")
    rep.undecided_clause("conjugation/homomorphism clauses for the DCM parameterisation (needs orthonormality of nine free symbols) and wherever the report says n/a")
