"""C16 - the quadrotor model obeys rigid-body physics invariants (DESIGN 4, C16)."""
from .common import *
from .liecommon import *
from ..frontend import AnchorMissing
from ..poly import Poly, poly_syms, deep_subs, all_atoms

MOD = "cyecca.models.quadrotor"


def subs_syms(M, mapping):
    """Substitute input symbols by values (Poly) everywhere, rebuilding atoms."""
    memo = {}
    return MatVal(M.r, M.c, [[deep_subs(p, lambda a: mapping.get(a) if a.kind == "sym" else None, memo) if p.t else p for p in row] for row in M.cells], M.kind)


def run(w, rep, tier):
    rep.rule("C16.API", "derive_model resolves; f(x, u, p) -> x_dot with x = (position, body velocity, quaternion, body rates, rotor speeds)")
    rep.rule("C16.deps", "x_dot does not depend on horizontal position; accelerometer output does not depend on g; gyro output is the body rate plus noise")
    rep.rule("C16.norm", "q . q_dot = 0 and q_dot = right_jacobian(q) omega (body rates)")
    rep.rule("C16.motor", "each rotor speed derivative is if_else(cmd - w > 0, 1/tau_up, 1/tau_down) (cmd - w)")
    rep.rule("C16.newton", "away from the ground and without drag: v_dot = sum_i CT w_i^2 z/m + R(q)^T(-g z) - omega x v; J omega_dot = sum_i [r_i x F_i - CM dir_i F_i z] - omega x J omega (aerodynamic damping terms added as written)")
    rep.rule("C16.hover", "default geometry, level, at rest, each rotor at sqrt(m g/(4 CT)): x_dot = 0; equal rotor speeds give zero moment")
    rep.rule("C16.freefall", "no thrust, no drag, above ground: accelerometer output is exactly zero")
    rep.rule("C16.equivariance", "rotating the world frame about the vertical rotates position rate and attitude rate and leaves body-frame rates unchanged")
    mod = w.mod(MOD)
    if "derive_model" not in mod:
        raise AnchorMissing(MOD + ".derive_model")
    W = w.where(MOD, "derive_model")
    ok, model = guarded(w, rep, "C16.API", "derive_model()", lambda: w.callf(mod["derive_model"]))
    if not ok:
        return
    need = ["f", "x", "u", "p", "g_accel", "g_gyro", "p_defaults", "x0_defaults"]
    if not rep.check("C16.API", "derive_model returns its locals (f, x, u, p, g_accel, g_gyro, defaults)", isinstance(model, dict) and all(k in model for k in need),
                     "missing keys %s" % [k for k in need if not isinstance(model, dict) or k not in model], where=W):
        return
    f, x, u, p = model["f"], model["x"], model["u"], model["p"]
    good = isinstance(f, cm.FunctionVal) and x.shape == (17, 1) and u.shape == (4, 1) and f.outs[0].shape == (17, 1)
    if not rep.check("C16.API", "state layout 3+3+4+3+4, four inputs", good, "x %s u %s x_dot %s" % (x.shape, u.shape, f.outs[0].shape if isinstance(f, cm.FunctionVal) else None), where=W):
        return
    xd = f.outs[0]
    xa = sym_atoms_of(x)
    ua = sym_atoms_of(u)
    pa = {a.symname if a.key[1] is None else "%s_%d" % (a.symname, a.key[1]): a for a in sym_atoms_of(p)}
    names = [a.symname for a in xa]
    rep.check("C16.API", "state order position, velocity, quaternion, omega, rotor speeds", names[:3] == ["position_op_w"] * 3 and names[3:6] == ["velocity_w_p_b"] * 3 and
              names[6:10] == ["quaternion_wb"] * 4 and names[10:13] == ["omega_wb_b"] * 3 and names[13:] == ["omega_motor"] * 4, "state symbols are %s" % names, where=W)
    pos, vel, quat, om, wm = xa[0:3], xa[3:6], xa[6:10], xa[10:13], xa[13:17]
    # ---- D1 dependencies
    deps = set()
    for c in xd.flat():
        deps |= poly_syms(c)
    rep.check("C16.deps", "x_dot independent of position x and y (translation equivariance)", pos[0] not in deps and pos[1] not in deps,
              "state derivative depends on horizontal position: %s" % [repr(a) for a in pos[:2] if a in deps], where=W)
    ga, gg = model["g_accel"], model["g_gyro"]
    gat = pa.get("g")
    adeps = set()
    for c in ga.outs[0].flat():
        adeps |= poly_syms(c)
    rep.check("C16.deps", "accelerometer output does not depend on g (specific force)", gat is not None and gat not in adeps, "g_accel depends on g: gravity leaks into the specific force", where=W)
    vdeps = set()
    for c in w.sl(xd, 3, 6).flat():
        vdeps |= poly_syms(c)
    rep.check("C16.deps", "velocity derivative depends on g", gat in vdeps, "gravity does not act on the velocity", where=W)
    # gyro = omega + noise term that vanishes with the noise input
    gw = ga.ins[3]
    gy = gg.outs[0]
    gy0 = subs_syms(gy, {a: Poly() for a in sym_atoms_of(gg.ins[3])})
    verdict(rep, "C16.deps", "gyro output with zero noise = body rate", gy0, w.sl(x, 10, 13), (), W, "gyro does not measure the body rate")
    # ---- D2 quaternion kinematics
    Q = w.G("SO3Quat")
    qv = w.sl(x, 6, 10)
    omv = w.sl(x, 10, 13)
    qd = w.sl(xd, 6, 10)
    okj, Jr = guarded(w, rep, "C16.norm", "right_jacobian", lambda: w.call(w.elem(Q, qv), "right_jacobian"))
    if okj:
        verdict(rep, "C16.norm", "q_dot = SO3Quat.right_jacobian(q) omega_wb_b", qd, cm.matmul(Jr, omv), (), W, "attitude kinematics do not pair the body rate with the right (body-frame) Jacobian")
    verdict(rep, "C16.norm", "q . q_dot = 0", cm.dot(qv, qd), zeros(1, 1), (), W, "quaternion derivative is not orthogonal to the quaternion: the norm drifts")
    # reference independent of the library Jacobian: q_dot = 1/2 q * (0, omega) (Hamilton product), on every if_else
    # selection of the model's expression (a sign flip for q0 < 0 integrates the attitude backwards there)
    okh, half = guarded(w, rep, "C16.norm", "quaternion product", lambda: cm.ew(w.param(w.call(Q, "product", w.elem(Q, qv), w.elem(Q, cm.vertcat(0, omv)))), Fraction(1, 2), cm.pmul))
    if okh:
        verdict_by_branches(rep, "C16.norm", "q_dot = 1/2 q * (0, omega_wb_b) on every selection", qd, half, (), W, "attitude kinematics are not the body-rate quaternion kinematics")
    # ---- D4 motor lag
    wd = w.sl(xd, 13, 17)
    tu, tdn = pa.get("tau_up"), pa.get("tau_down")
    for i in range(4):
        d = Poly.atom(ua[i]) - Poly.atom(wm[i])
        want = cm.ite(cm._cmp("lt", cm.ZERO, d), Poly.atom(tu).recip(), Poly.atom(tdn).recip()) * d
        rep.check("C16.motor", "rotor %d: w_dot = if_else(cmd - w > 0, 1/tau_up, 1/tau_down) (cmd - w)" % i, tu is not None and wd.cells[i][0] == want,
                  "rotor %d does not relax toward its command with the spin-up/spin-down constants: %s" % (i, short(wd.cells[i][0], 100)), where=W)
    # ---- Newton-Euler away from the ground, no drag
    ground = [c for c in ite_conditions(xd) if c.single_atom() is not None and c.single_atom().kind == "lt" and c.single_atom().key[0] == Poly.atom(pos[2])]
    air = {c: False for c in ground}
    speed = [c for c in ite_conditions(xd) if c not in air]
    xd_air = assign_ites(xd, air)
    rep.check("C16.newton", "ground contact is a function of height only (position z < 0)", len(ground) >= 1, "no ground-contact condition on position z found", where=W)
    CD0 = pa.get("CD0")
    zero_drag = {CD0: Poly()} if CD0 is not None else {}
    xd0 = subs_syms(xd_air, zero_drag)
    CT, CM, m_, g_ = (pa.get(k) for k in ("CT", "CM", "m", "g"))
    S = pa.get("S")
    Rq = w.call(w.elem(Q, qv), "to_Matrix")
    z = cm.to_mat([0, 0, 1])
    A = Poly.atom
    thrust = [A(CT) * A(wm[i]) * A(wm[i]) for i in range(4)]
    Ftot = Poly()
    for t in thrust:
        Ftot = Ftot + t
    vv = w.sl(x, 3, 6)
    want_v = cm.ew(cm.ew(cm.ew(z, cm.scalar(cm.pdiv(Ftot, A(m_))), cm.pmul), cm.matmul(cm.transpose(Rq), cm.ew(z, cm.scalar(-A(g_)), cm.pmul)), cm.padd), cm.cross(omv, vv), cm.psub)
    quats = [tuple(quat)]
    verdict(rep, "C16.newton", "v_dot = (sum_i CT w_i^2) z/m - R(q)^T g z - omega x v  (no drag, above ground)", w.sl(xd0, 3, 6), want_v, quats, W,
            "translational dynamics are not thrust along body z plus rotated gravity minus the transport term")
    verdict(rep, "C16.newton", "p_dot = R(q) v_b", w.sl(xd0, 0, 3), cm.matmul(Rq, vv), quats, W, "position rate is not the body velocity rotated to the world frame")
    Jx, Jy, Jz = (pa.get(k) for k in ("Jx", "Jy", "Jz"))
    J = cm.diag(cm.vertcat(cm.scalar(A(Jx)), cm.scalar(A(Jy)), cm.scalar(A(Jz))))
    Mb = MatVal(3, 1)
    for i in range(4):
        li, thi, di = pa["l_motor_%d" % i], pa["theta_motor_%d" % i], pa["dir_motor_%d" % i]
        ri = cm.ew(cm.vertcat(cm.scalar(cm.un("cos", A(thi))), cm.scalar(cm.un("sin", A(thi))), 0), cm.scalar(A(li)), cm.pmul)
        Fi = cm.ew(z, cm.scalar(thrust[i]), cm.pmul)
        Mi = cm.ew(cm.cross(ri, Fi), cm.ew(z, cm.scalar(A(CM) * A(di) * thrust[i]), cm.pmul), cm.psub)
        aero = cm.ew(cm.vertcat(cm.scalar(A(pa["Cl_p"]) * A(om[0])), cm.scalar(A(pa["Cm_q"]) * A(om[1])), cm.scalar(A(pa["Cn_r"]) * A(om[2]))), cm.scalar(A(S) * A(li)), cm.pmul)
        Mb = cm.ew(Mb, cm.ew(Mi, aero, cm.padd), cm.padd)
    want_w = cm.matmul(cm.inv(J), cm.ew(Mb, cm.cross(omv, cm.matmul(J, omv)), cm.psub))
    verdict(rep, "C16.newton", "J omega_dot = sum_i [r_i x F_i - CM dir_i F_i z + aero_i] - omega x J omega", w.sl(xd0, 10, 13), want_w, (), W,
            "rotational dynamics are not Euler's equation with the rotor moments (arm x thrust, reaction torque opposite to spin)")
    # ---- drag: the only effect of CD0 is a force along -v_b (body frame), of magnitude CD0 (rho |v|^2 / 2) S
    rho = pa.get("rho")
    if CD0 is not None and rho is not None and S is not None:
        moving = {c: True for c in ite_conditions(xd_air) if c.single_atom() is not None and c.single_atom().kind == "lt" and c.single_atom().key[0].const_value() is not None
                  and any(a_.kind == "sqrt" for a_ in c.single_atom().key[1].atoms())}          # |v| above the 1e-5 tolerance
        xd_mv = assign_ites(xd_air, moving) if moving else xd_air
        dv = cm.ew(w.sl(xd_mv, 3, 6), w.sl(subs_syms(xd_mv, zero_drag), 3, 6), cm.psub)
        V = cm.un("sqrt", cm.sumsqr(vv).s())
        want_d = cm.ew(vv, cm.scalar((A(CD0) * A(rho) * A(S) * V * A(m_).recip()).scale(Fraction(-1, 2))), cm.pmul)
        verdict(rep, "C16.newton", "drag: v_dot(CD0) - v_dot(0) = -CD0 rho S |v| v_b / (2 m)  (opposite to the body velocity)", dv, want_d, quats, W,
                "the drag contribution is not a body-frame force opposite to the body velocity")
        rest = [i for i in range(xd_air.r) if not 3 <= i < 6 and xd_air.cells[i][0] != xd0.cells[i][0]]
        rep.check("C16.newton", "drag acts on the translational dynamics only", not rest, "CD0 also changes state derivatives %s" % rest, where=W)
    # ---- hover equilibrium with the default geometry
    pd = model["p_defaults"]
    geo = {}
    for k, v in pd.items():
        if k.startswith(("dir_motor", "l_motor", "theta_motor")) and k in pa:
            geo[pa[k]] = cm.to_mat(v).s()
    xd_geo = subs_syms(xd0, geo)
    whov = cm.un("sqrt", cm.pdiv(A(m_) * A(g_), A(CT).scale(4)))
    hov = {pos[0]: Poly(), pos[1]: Poly(), vel[0]: Poly(), vel[1]: Poly(), vel[2]: Poly(), quat[0]: cm.ONE, quat[1]: Poly(), quat[2]: Poly(), quat[3]: Poly(),
           om[0]: Poly(), om[1]: Poly(), om[2]: Poly()}
    for i in range(4):
        hov[wm[i]] = whov
        hov[ua[i]] = whov
    with with_maxdeg(20):
        xh = subs_syms(xd_geo, hov)
        verdict(rep, "C16.hover", "level hover with each rotor at sqrt(m g / (4 CT)) is an equilibrium (default geometry)", xh, zeros(17, 1), (), W,
                "level hover with a quarter of the weight per rotor is not an equilibrium of the model")
        wsym = Poly.sym("w_equal~", None)
        eq = {wm[i]: wsym for i in range(4)}
        eq.update({om[0]: Poly(), om[1]: Poly(), om[2]: Poly()})
        Mw = subs_syms(w.sl(xd_geo, 10, 13), eq)
        verdict(rep, "C16.hover", "equal rotor speeds produce zero angular acceleration at rest (symmetric default frame)", Mw, zeros(3, 1), (), W,
                "equal rotor speeds produce a net moment on the default frame")
    # ---- free fall: accelerometer reads zero
    acc = ga.outs[0]
    acc = assign_ites(acc, {c: False for c in ite_conditions(acc) if c in air or (c.single_atom() is not None and c.single_atom().key[0] == Poly.atom(pos[2]))})
    ff = dict(zero_drag)
    for i in range(4):
        ff[wm[i]] = Poly()
    for a in sym_atoms_of(ga.ins[3]):
        ff[a] = Poly()
    accf = subs_syms(acc, ff)
    verdict(rep, "C16.freefall", "accelerometer output = 0 with rotors stopped, no drag, above ground, zero noise", accf, zeros(3, 1), (), W, "accelerometer does not read zero in free fall")
    # ---- equivariance about the vertical
    if tier == "thorough" or True:
        psi = Poly.sym("psi~", None)
        h = psi.scale(Fraction(1, 2))
        qz = cm.vertcat(cm.scalar(cm.un("cos", h)), 0, 0, cm.scalar(cm.un("sin", h)))
        Rz = w.call(w.elem(Q, qz), "to_Matrix")
        qrot = w.param(w.call(Q, "product", w.elem(Q, qz), w.elem(Q, qv)))
        prot = cm.matmul(Rz, w.sl(x, 0, 3))
        mp = {}
        for a, v in zip(quat, qrot.flat()):
            mp[a] = v
        for a, v in zip(pos, prot.flat()):
            mp[a] = v
        conds = ite_conditions(xd)
        inst = "f(Rz.x) = Rz.f(x) for a rotation of the world frame about the vertical"
        with with_maxdeg(20):
            # branch by branch (ground contact, drag direction): the selection conditions themselves must not change
            # under the rotation, and on every selection the selected expressions must be equivariant
            moved = [c for c in conds if decide(subs_syms(MatVal(1, 1, [[c]], "SX"), mp).cells[0][0], c, quats) != EQUAL]
            if len(conds) > 7 or moved:
                rep.incomplete("C16.equivariance", inst, "selection conditions %s" % ("depend on the heading: %s" % short(moved[0], 80) if moved else "are too many (%d)" % len(conds)), where=W)
            else:
                worst, detail = EQUAL, None
                for mask in range(2 ** len(conds)):
                    asg = {c: bool(mask >> i & 1) for i, c in enumerate(conds)}
                    label = ",".join("%s=%s" % (short(c, 40), "T" if v else "F") for c, v in asg.items()) or "-"
                    xb = assign_ites(xd, asg) if asg else xd
                    xr = subs_syms(xb, mp)
                    want = cm.vertcat(cm.matmul(Rz, w.sl(xb, 0, 3)), w.sl(xb, 3, 6), w.param(w.call(Q, "product", w.elem(Q, qz), w.elem(Q, w.sl(xb, 6, 10)))), w.sl(xb, 10, 17))
                    v, d = decide_mat(xr, want, quats)
                    if v == DIFFERENT:
                        worst, detail = DIFFERENT, "on the selection [%s]: %s" % (label, d)
                        break
                    if v == UNKNOWN and worst == EQUAL:
                        worst, detail = UNKNOWN, "on the selection [%s]: %s" % (label, d)
                if worst == EQUAL:
                    rep.ok("C16.equivariance", inst, fact={"selections": 2 ** len(conds)})
                elif worst == DIFFERENT:
                    rep.fail("C16.equivariance", inst, "the model is not equivariant under rotations about the vertical (a world-frame and a body-frame quantity are mixed): %s" % detail, where=W, fact={"difference": detail})
                else:
                    rep.incomplete("C16.equivariance", inst, "cannot decide %s" % detail, where=W)
    rep.floor("C16.deps", 4)
    rep.floor("C16.motor", 4)
    rep.floor("C16.newton", 3)
    rep.undecided_clause("magnitudes on the ground-contact branch and with aerodynamic drag (the if_else on |v| and on height): only their equivariance about the vertical is decided")
