"""Closed-form machinery shared by C02 / C03 / C05 / C08: series atoms are replaced by the closed formula of their
table entry, then identities are decided as rational functions of {symbols, theta = sqrt(x.x), sin, cos, tan, atan}.

Lemma L13 (radial ODE): if E is continuous with E(0) = I, differentiable away from 0 and
    sum_k x_k dE/dx_k (x) = X(x) E(x)      with X linear in x,
then t -> E(t x) solves F' = X F, F(0) = I, hence E(x) = expm(X(x)).  The rules below decide the displayed identity on
the closed-form branch; continuity at 0 and the series branch are the (undecided) subject of C06.
"""
from .common import *
from ..poly import Poly, all_atoms, deep_subs
from ..seriesform import closed_form, closed_mat, formula, X as FX


def closed(w, M):
    return closed_mat(M, w.stable)


def F(w, text, theta):
    """Closed formula `text` (in x) evaluated at x = theta (a Poly)."""
    f = formula(text)
    xa = FX.single_atom()
    return deep_subs(f, lambda b: theta if b is xa else None)


def theta_of(v):
    """theta = sqrt(v.v) as a value number."""
    return cm.un("sqrt", cm.sumsqr(v).s())


def mat_diff(M, a):
    return MatVal(M.r, M.c, [[p.diff(a) if p.t else p for p in row] for row in M.cells], M.kind)


def radial(M, x):
    """sum_k x_k dM/dx_k"""
    acc = MatVal(M.r, M.c)
    for a, xk in zip(sym_atoms_of(x), x.flat()):
        acc = cm.ew(acc, cm.ew(mat_diff(M, a), xk, cm.pmul), cm.padd)
    return acc


def ite_conditions(M):
    conds = []
    seen = set()
    for p in M.flat():
        for a in all_atoms(p):
            if a.kind == "ite" and a.key[0] not in seen:
                seen.add(a.key[0])
                conds.append(a.key[0])
    return conds


def assign_ites(M, assignment):
    def f(a):
        if a.kind == "ite" and a.key[0] in assignment:
            return deep_subs(a.key[1] if assignment[a.key[0]] else a.key[2], f)
        return None
    return MatVal(M.r, M.c, [[deep_subs(p, f) if p.t else p for p in row] for row in M.cells], M.kind)


def branches(M, limit=4):
    """All selections of the if_else conditions occurring in M -> [(description, M_branch)]"""
    conds = ite_conditions(M)
    if len(conds) > limit:
        return None
    out = []
    for mask in range(2 ** len(conds)):
        asg = {c: bool(mask >> i & 1) for i, c in enumerate(conds)}
        out.append((",".join("%s=%s" % (short(c, 40), "T" if v else "F") for c, v in asg.items()) or "-", assign_ites(M, asg)))
    return out


def capture_calls(w, fname, thunk, self_is=None, max_depth=None):
    """Run thunk, recording the argument environments of every call of a method named fname."""
    seen = []

    def hook(f, env):
        if f.name == fname and (self_is is None or env.get("self") is self_is):
            seen.append(dict(env))
    old = w.it.trace_calls
    w.it.trace_calls = hook
    try:
        val = thunk()
    finally:
        w.it.trace_calls = old
    return val, seen


def kink_symbols(M):
    """Input symbols x for which fabs(+-x) or sign(+-x) occurs in M (kinks that a sign-case split removes)."""
    out = []
    for p in M.flat():
        for a in all_atoms(p):
            if a.kind in ("fabs", "sign") and isinstance(a.key[0], Poly):
                sa = a.key[0].signed_atom()
                # sign-indefinite atoms only: a case 'atom < 0' must be non-empty for a difference found in it to count
                if sa is not None and sa[1].kind in ("sym", "sin", "cos", "tan", "asin", "atan") and sa[1] not in out:
                    out.append(sa[1])
    return out


def with_signs(M, signs):
    """Rewrite fabs(c x) -> |c| s x and sign(c x) -> sgn(c) s for the assumed signs s of the symbols x."""
    def f(a):
        if a.kind in ("fabs", "sign") and isinstance(a.key[0], Poly) and len(a.key[0].t) == 1:
            (mono, c), = a.key[0].t.items()
            if len(mono) == 1 and mono[0][1] == 1 and mono[0][0] in signs:
                s = signs[mono[0][0]] * (1 if c > 0 else -1)
                return a.key[0].scale(s) if a.kind == "fabs" else Poly.const(s)
        return None
    return MatVal(M.r, M.c, [[deep_subs(p, f) if p.t else p for p in row] for row in M.cells], M.kind)


def sign_cases_of(Ms, limit=3):
    """All sign assignments of the kink symbols occurring in the matrices Ms (at most 2^limit cases)."""
    syms = []
    for M in Ms:
        for a in kink_symbols(M):
            if a not in syms:
                syms.append(a)
    if len(syms) > limit:
        return None
    out = []
    for mask in range(2 ** len(syms)):
        sg = {a: (1 if mask >> i & 1 else -1) for i, a in enumerate(syms)}
        out.append((", ".join("%r %s 0" % (a, ">" if v > 0 else "<") for a, v in sg.items()) or "-", sg))
    return out


def quats_without(quats, x):
    """The unit-norm constraints on the hyperplane x = 0: the component x drops out of its tuple."""
    return [tuple(b for b in q if b is not x) for q in quats]


def decide_by_cases(A, B, quats=()):
    """decide_mat after splitting on the sign of every symbol that occurs under fabs/sign, and for symbols under sign()
    also on the hyperplane symbol = 0 (sign(0) = 0 is on neither side).
    -> (verdict, detail): EQUAL only if equal in every case; DIFFERENT as soon as one case differs."""
    cases = sign_cases_of([A, B])
    zs = list(dict.fromkeys(x for M in (A, B) for x in sign_zero_symbols(M)))
    if not cases or (len(cases) == 1 and not zs):
        return decide_mat(A, B, quats)
    worst = EQUAL
    detail = None
    todo = [(label, with_signs(A, sg), with_signs(B, sg), quats) for label, sg in cases]
    todo += [("%r = 0" % x, with_zero(A, x), with_zero(B, x), quats_without(quats, x)) for x in zs]
    for label, a_, b_, qs in todo:
        v, d = decide_mat(a_, b_, qs)
        if v == DIFFERENT:
            return DIFFERENT, "case %s: %s" % (label, d)
        if v == UNKNOWN and worst == EQUAL:
            worst, detail = UNKNOWN, "case %s: %s" % (label, d)
    return worst, detail


def with_zero(M, x):
    """M on the hyperplane x = 0 for an input symbol x: x -> 0 everywhere, sign(c x) -> 0 (CasADi: sign(0) = 0)."""
    def f(a):
        if a is x:
            return Poly.const(0)
        if a.kind in ("sign", "fabs") and isinstance(a.key[0], Poly):
            inner = deep_subs(a.key[0], f)
            if not inner.t:
                return Poly.const(0)
        return None
    return MatVal(M.r, M.c, [[deep_subs(p, f) if p.t else p for p in row] for row in M.cells], M.kind)


def sign_zero_symbols(M):
    """Bare input symbols x with sign(c x) in M: the only kink whose value AT the kink (0) is on neither side."""
    out = []
    for p in M.flat():
        for a in all_atoms(p):
            if a.kind == "sign" and isinstance(a.key[0], Poly):
                sa = a.key[0].signed_atom()
                if sa is not None and sa[1].kind == "sym" and sa[1] not in out:
                    out.append(sa[1])
    return out


def decide_cell_by_cases(p, q, quats=()):
    """decide() of two cells; when undecided and a sign/fabs of an input occurs: split on the sign of those inputs and,
    for inputs under sign(), also on the hyperplane input = 0 (sign(0) = 0 lies on neither side).  DIFFERENT in one
    non-empty case is DIFFERENT; EQUAL needs every case."""
    v = decide(p, q, quats)
    if v != UNKNOWN:
        return v, None
    A, B = MatVal(1, 1, [[p]], "SX"), MatVal(1, 1, [[q]], "SX")
    cases = sign_cases_of([A, B])
    zs = [x for M in (A, B) for x in sign_zero_symbols(M)]
    if not cases or (len(cases) == 1 and not zs):
        return v, None
    worst, detail = EQUAL, None
    todo = [(label, with_signs(A, sg), with_signs(B, sg)) for label, sg in cases if sg]
    todo = [(l_, a_, b_, quats) for l_, a_, b_ in todo]
    for x in dict.fromkeys(zs):
        todo.append(("%r = 0" % x, with_zero(A, x), with_zero(B, x), quats_without(quats, x)))
    for label, a_, b_, qs in todo:
        v = decide(a_.cells[0][0], b_.cells[0][0], qs)
        if v == DIFFERENT:
            return DIFFERENT, "case %s" % label
        if v == UNKNOWN and worst == EQUAL:
            worst, detail = UNKNOWN, "case %s" % label
    return worst, detail


def pull_positive(M, lam):
    """For a symbol lam assumed > 0: sqrt(lam^(2k) P) -> lam^k sqrt(P) and fabs(lam^k P) -> lam^k fabs(P), recursively.
    Exact for lam > 0; lets homogeneity in a positive scale factor be decided by canonical forms."""
    def split(p):
        e = None
        for mono in p.t:
            d = dict(mono).get(lam, 0)
            e = d if e is None else min(e, d)
        return e or 0

    def f(a):
        if a.kind in ("sqrt", "fabs") and isinstance(a.key[0], Poly):
            inner = deep_subs(a.key[0], f)
            e = split(inner)
            k = (e // 2) if a.kind == "sqrt" else e
            if k > 0:
                drop = 2 * k if a.kind == "sqrt" else k
                rest = Poly({tuple((x, n - drop if x is lam else n) for x, n in mono if not (x is lam and n - drop == 0)): c for mono, c in inner.t.items()})
                return cm.un(a.kind, rest) * Poly({((lam, k),): 1})
            if inner != a.key[0]:
                return cm.un(a.kind, inner)
        return None
    if isinstance(M, Poly):
        return deep_subs(M, f)
    return MatVal(M.r, M.c, [[deep_subs(p, f) if p.t else p for p in row] for row in M.cells], M.kind)


def minmax_cases(M, limit=3):
    """All resolutions of the fmin / fmax atoms occurring in M: each atom replaced by one of its two arguments (the case
    'first <= second' or its complement).  -> [(label, M_case)] or None when there are more than `limit` such atoms.
    An identity must hold in every case whose region is non-empty; the caller uses this for clamps of a free input
    against a constant, where both regions are."""
    atoms = []
    for p in M.flat():
        for a in all_atoms(p):
            if a.kind in ("fmin", "fmax") and a not in atoms:
                atoms.append(a)
    if not atoms:
        return [("-", M)]
    if len(atoms) > limit:
        return None
    out = []
    for mask in range(2 ** len(atoms)):
        pick = {a: a.key[mask >> i & 1] for i, a in enumerate(atoms)}

        def f(a, pick=pick):
            if a in pick:
                return deep_subs(pick[a], f)
            return None
        label = ", ".join("%s -> %s" % (a.kind, short(pick[a], 30)) for a in atoms)
        out.append((label, MatVal(M.r, M.c, [[deep_subs(p, f) if p.t else p for p in row] for row in M.cells], M.kind)))
    return out
