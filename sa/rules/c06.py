"""C06 - small-angle handling: table discipline and absence of singular operators at the identity (DESIGN 4, C06)."""
import ast

from .common import *
from ..absint import NativeModel
from ..frontend import AnchorMissing
from ..pointscan import Scan
from ..poly import Poly, all_atoms, deep_subs

REL = "cyecca/symbolic.py"


def _is_name(n, name):
    return isinstance(n, ast.Name) and n.id == name



class _SymF(NativeModel):
    """Stand-in for a sympy expression f(x): records series expansions requested of it."""

    def __init__(self, tag):
        self.tag = tag

    def series(self, x=None, x0=0, n=6, *rest, **kw):
        return _SymF(("series", self.tag, getattr(x, "tag", x), x0, n, False))

    def removeO(self):
        if isinstance(self.tag, tuple) and self.tag[0] == "series":
            return _SymF(self.tag[:5] + (True,))
        return self

    def __repr__(self):
        return "sym%r" % (self.tag,)


def check_switch_value(w, rep, rule, fn):
    from ..absint import Env
    it = w.it
    sf = w.fe.get(REL)
    W = (REL, fn.lineno)
    env = Env({"__name__": "cyecca.symbolic", "__file__": sf.path})
    env.is_module = True
    env["ca"] = CA
    env["sympy"] = _SymF("sympy-module")
    log = []

    def conv(f=None, f_dict=None, symbols=None, cse=False, verbose=False):
        log.append((f, symbols))
        tag = getattr(f, "tag", None)
        return cm.scalar(cm.opaque("conv", repr(tag)), "SX"), symbols
    I = "taylor_series_near_zero"
    try:
        for st in sf.tree.body:
            if isinstance(st, ast.FunctionDef):
                it.exec_stmt(st, env, "cyecca.symbolic")
        env["sympy_to_casadi"] = conv
        cases = []
        for label, kw in (("defaults", {}), ("order=4, eps=1/100", {"order": 4, "eps": Fraction(1, 100)})):
            del log[:]
            g = it.call(env["taylor_series_near_zero"], [_SymF("x"), _SymF("f")], dict(kw), fn)
            cases.append((label, kw, g, list(log)))
    except (InterpRaise, Unsupported) as ex:
        rep.incomplete(rule, I + " switch", "cannot interpret taylor_series_near_zero: %s" % ex, where=W)
        return
    for label, kw, g, lg in cases:
        order, eps = kw.get("order", 6), kw.get("eps", Fraction(1, 1000))
        inst = I + "(x, f%s) = Function(x -> if_else(fabs(x) < eps, series of f to that order, f))" % ("" if not kw else ", " + label)
        if not isinstance(g, cm.FunctionVal) or len(g.ins) != 1 or len(g.outs) != 1 or not g.ins[0].is_scalar() or not g.outs[0].is_scalar():
            rep.fail(rule, inst, "does not return a casadi Function of one scalar argument and one scalar result", where=W)
            continue
        x = g.ins[0].s()
        ser = cm.opaque("conv", repr(("series", "f", "x", 0, order, True)))
        want = cm.ite(cm._cmp("lt", cm.un("fabs", x), Poly.const(eps)), ser, cm.opaque("conv", repr("f")))
        got = g.outs[0].s()
        if decide(got, want) == EQUAL:
            tables = {id(sy) for _, sy in lg}
            xs = [sy.get("x") for _, sy in lg if isinstance(sy, dict)]
            same = len(tables) == 1 and len(xs) == len(lg) and all(isinstance(v, MatVal) and v.is_scalar() and v.s() == x for v in xs)
            rep.check(rule, inst, same, "series and closed form are converted with different symbol tables, or the Function argument is not the table's x", where=W,
                      fact={"value": short(got, 160)})
        else:
            rep.fail(rule, inst, "the function built is %s, expected %s (small-argument branch: Taylor polynomial of the same f about 0 with the O() term removed; switch on fabs(x) < eps)"
                     % (short(got, 200), short(want, 200)), where=W)


def check_table(w, rep, rule="C06.table", keys=None, floor=18 + 6):
    """keys: restrict the per-entry obligations to the table entries a consumer actually reads (C08.table)."""
    sf = w.fe.get(REL)
    fn = w.fe.find_def(REL, "taylor_series_near_zero")
    # defaults
    names = [a.arg for a in fn.args.args]
    defaults = dict(zip(names[len(names) - len(fn.args.defaults):], fn.args.defaults))
    od, ed = defaults.get("order"), defaults.get("eps")
    rep.check(rule, "taylor_series_near_zero default order = 6", isinstance(od, ast.Constant) and od.value == 6,
              "default series order is %s, the documented order is 6" % (ast.unparse(od) if od else "missing"), where=(REL, fn.lineno))
    rep.check(rule, "taylor_series_near_zero default eps = 1e-3", isinstance(ed, ast.Constant) and ed.value == 1e-3,
              "default switch threshold is %s, the documented threshold is 1e-3" % (ast.unparse(ed) if ed else "missing"), where=(REL, fn.lineno))
    # the returned Function is if_else(fabs(x) < eps, series(f), f) of the same f and x: decided on the VALUE the function
    # builds (abstract run with stand-ins for the sympy objects and for sympy_to_casadi), so that helper extraction, local
    # names, the complementary condition with swapped branches ... are all the same switch
    check_switch_value(w, rep, rule, fn)
    # every entry: taylor_series_near_zero(u, f) with defaults
    n_ok = 0
    for e in w.series:
        if keys is not None and e.key not in keys:
            continue
        c = e.call
        good = len(c.args) == 2 and _is_name(c.args[0], "u") and all(k.arg in ("verbose",) for k in c.keywords)
        if good:
            n_ok += 1
            rep.ok(rule, "entry %r uses the default order and threshold on the table variable u" % e.key)
        else:
            rep.fail(rule, "entry %r uses the default order and threshold on the table variable u" % e.key,
                     "entry overrides the series order/threshold or is not a function of u: %s" % ast.unparse(c)[:120], where=(REL, e.lineno))
    # squared table: x = sqrt(u)
    ds = w.fe.find_def(REL, "derive_series")
    sq_ok = False
    for st in ds.body:
        if isinstance(st, ast.If) and _is_name(st.test, "input_squared"):
            b1 = [s for s in st.body if isinstance(s, ast.Assign) and _is_name(s.targets[0], "x")]
            b2 = [s for s in st.orelse if isinstance(s, ast.Assign) and _is_name(s.targets[0], "x")]
            if b1 and b2:
                sq_ok = ast.unparse(b1[0].value) in ("sympy.sqrt(u)", "sqrt(u)") and _is_name(b2[0].value, "u")
        elif isinstance(st, ast.Assign) and len(st.targets) == 1 and _is_name(st.targets[0], "x") and isinstance(st.value, ast.IfExp):
            # the same selection as a conditional expression, in either polarity
            v = st.value
            t_, a_, b_ = v.test, v.body, v.orelse
            if isinstance(t_, ast.UnaryOp) and isinstance(t_.op, ast.Not):
                t_, a_, b_ = t_.operand, b_, a_
            if _is_name(t_, "input_squared"):
                sq_ok = ast.unparse(a_) in ("sympy.sqrt(u)", "sqrt(u)") and _is_name(b_, "u")
    rep.check(rule, "squared table substitutes x = sqrt(u), plain table x = u", sq_ok, "derive_series does not substitute sqrt(u) for x in the squared table", where=(REL, ds.lineno))
    mod = {ast.unparse(st.targets[0]): ast.unparse(st.value) for st in sf.tree.body if isinstance(st, ast.Assign) and len(st.targets) == 1}
    rep.check(rule, "SERIES / SQUARED_SERIES are derive_series(False) / derive_series(True)",
              mod.get("SERIES", "").replace(" ", "") in ("derive_series(input_squared=False)", "derive_series(False)", "derive_series()") and
              mod.get("SQUARED_SERIES", "").replace(" ", "") in ("derive_series(input_squared=True)", "derive_series(True)"),
              "SERIES=%s SQUARED_SERIES=%s" % (mod.get("SERIES"), mod.get("SQUARED_SERIES")), where=(REL, 1))
    errs = w.stable.errors
    rep.check(rule, "every table formula is readable as a closed form in x", not errs, "unreadable formulas: %s" % errs, where=(REL, ds.lineno))
    rep.floor(rule, floor)


def identity_point(w, G, xp):
    E = w.param(w.call(G, "identity"))
    pt = {}
    for a, p in zip(sym_atoms_of(xp), E.flat()):
        cv = p.const_value()
        if cv is None:
            return None
        pt[a] = Fraction(cv)
    return pt


def scan_value(w, rep, rule, inst, val, point, sites, where):
    sc = Scan(point, series_limit=lambda key: w.stable.limit(w.stable.canon.get(key, key)))
    vals = val if isinstance(val, (list, tuple)) else [val]
    for v in vals:
        m = v.attrs["param"] if isinstance(v, Instance) else v
        if not isinstance(m, MatVal):
            continue
        for p in m.flat():
            sc.poly(p)
    if not sc.flags:
        rep.ok(rule, inst, fact={"atoms_visited": len(sc.memo)})
        return
    seen = set()
    for a, why in sc.flags:
        site = sites.get(a)
        if site is None:
            # find a recorded op whose result contains this atom at top level
            for atom_set, s in sites.get("_list", []):
                if a in atom_set:
                    site = s
                    break
        fn, rel, line, op = site if site else ("?", where[0], where[1], a.kind)
        key = (fn.split(".")[0], op, a.kind)
        if key in seen:
            continue
        seen.add(key)
        # named by the class that owns the operation, not by the method: a helper method extracted inside the class keeps
        # the finding's identity (entry point + kind of operation + owner)
        owner = fn.split(".")[0] if "." in fn else fn
        rep.fail(rule, "%s: %s in %s" % (inst, a.kind, owner), "%s [in %s: %s]" % (why, fn, short(Poly.atom(a), 100)), where=(rel, line))


def _ite_leaves(p):
    """Leaves of a (possibly negated) nested selection."""
    a = p.single_atom()
    if a is None and len(p.t) == 1:
        (m, c), = p.t.items()
        if len(m) == 1 and m[0][1] == 1 and m[0][0].kind == "ite" and c == -1:
            for q in _ite_leaves(Poly.atom(m[0][0])):
                yield -q
            return
    if a is not None and a.kind == "ite":
        yield from _ite_leaves(a.key[1])
        yield from _ite_leaves(a.key[2])
        return
    yield p


def _bounded_by_construction(p):
    """+-x / sqrt(x^2 + (squares)) - the quotient IEEE arithmetic keeps inside [-1, 1] - or a clamp (fmin/fmax)."""
    a = p.single_atom()
    if a is not None and a.kind in ("fmin", "fmax"):
        return True
    if len(p.t) != 1:
        return False
    (m, c), = p.t.items()
    if abs(c) != 1 or len(m) != 2:
        return False
    num = [x for x, e in m if e == 1]
    den = [x for x, e in m if e == -1 and x.kind == "sqrt"]
    if len(num) != 1 or len(den) != 1:
        return False
    S = den[0].key[0]
    if S.t.get(((num[0], 2),)) != 1:
        return False
    return all(cc > 0 and all(e % 2 == 0 for _, e in mm) for mm, cc in S.t.items())


def check_acos_domain(w, rep, rule, groups=("SO3Quat", "SE3Quat", "SE23Quat")):
    """The quaternion log feeds acos the scalar part of the NORMALISED quaternion: q0 / |q| cannot exceed 1 in IEEE arithmetic,
    a raw q0 of a unit quaternion computed in floating point can (1 + 1 ulp), and acos then returns NaN - at zero rotation,
    the point the property singles out.  Every selection of the acos argument must be such a quotient (or a clamp)."""
    for nm in groups:
        G = w.G(nm)
        X, xp = w.fresh(G, "X")
        ok, val = guarded(w, rep, rule, "%s.log for its acos argument" % nm, lambda: w.param(w.call(X, "log")))
        if not ok:
            continue
        seen = set()
        for p_ in val.flat():
            for a in all_atoms(p_):
                if a.kind in ("acos", "asin") and a not in seen:
                    seen.add(a)
        inst = "%s.log: acos is applied to a component of the normalised quaternion on every selection" % nm
        if not seen:
            rep.na(rule, inst, "no acos/asin in this log")
            continue
        bad = [q for a in seen for q in _ite_leaves(a.key[0]) if not _bounded_by_construction(q)]
        raw = [q for q in bad if all(x.kind == "sym" for x in all_atoms(q))]
        if raw:
            rep.fail(rule, inst, "on some selection acos receives %s, a raw input component: for a unit quaternion computed in floating point (|q|^2 = 1 + 2.2e-16 is common, e.g. the product X^-1 X) "
                     "it exceeds 1 and the whole log is NaN at zero rotation" % short(raw[0], 80), where=w.method_where(G, "log")[:2])
        elif bad:
            rep.na(rule, inst, "argument %s is not in a form this rule bounds" % short(bad[0], 80))
        else:
            rep.ok(rule, inst, fact={"acos_atoms": len(seen)})


def check_singularities(w, rep, tier):
    sites = {"_list": []}

    def hook(name, node, module, res, chain):
        sf = w.fe.module_file(module) if module else None
        fn = chain[-1][0] if chain else "<module>"
        s = (fn, sf.rel if sf else (module or "?"), getattr(node, "lineno", 0), name)
        atoms = set()
        for p in res.flat():
            for a in p.atoms():
                if a.kind in ("sqrt", "acos", "asin", "recip", "atan2", "fabs", "sign", "log"):
                    atoms.add(a)
                    sites.setdefault(a, s)
        if atoms:
            sites["_list"].append((atoms, s))
    w.it.op_hook = hook
    uses = []

    def shook(node, module, fn, arg):
        sf = w.fe.module_file(module) if module else None
        chain = list(w.it.stack)
        uses.append((chain[-1][0] if chain else "<module>", sf.rel if sf else (module or "?"), getattr(node, "lineno", 0), fn.key, fn.squared, arg))
    w.it.series_hook = shook
    try:
        so3 = w.G("so3")
        for nm in GROUPS12:
            G = w.G(nm)
            alg = w.attr(G, "algebra")
            n = w.attr(alg, "n_param")
            x = w.sym("x", n)
            zero = {a: Fraction(0) for a in sym_atoms_of(x)}
            e = w.elem(alg, x)
            ok, val = guarded(w, rep, "C06.identity", "%s.exp at x = 0" % nm, lambda: w.call(G, "exp", e))
            if ok:
                scan_value(w, rep, "C06.identity", "%s.exp at x = 0" % nm, val, zero, sites, w.method_where(G, "exp")[:2])
            X, xp = w.fresh(G, "X")
            pt = None
            okp, pt = guarded(w, rep, "C06.identity", "%s identity point" % nm, lambda: identity_point(w, G, xp))
            if okp and pt is not None and nm != "SO3Dcm":
                pass
            if nm == "SO3Dcm":
                # the DCM identity is the identity matrix (independent of what identity() returns)
                pt = {a: Fraction(1 if k in (0, 4, 8) else 0) for k, a in enumerate(sym_atoms_of(xp))}
            if pt is None:
                continue
            for op in ("log", "Ad", "to_Matrix", "inverse"):
                ok, val = guarded(w, rep, "C06.identity", "%s.%s at identity" % (nm, op), lambda op=op: w.call(X, op))
                if ok:
                    scan_value(w, rep, "C06.identity", "%s.%s at the identity element" % (nm, op), val, pt, sites, w.method_where(G, "log" if op == "log" else "adjoint" if op == "Ad" else op)[:2])
        for an, n in (("so3", 3), ("se3", 6), ("se23", 9)):
            alg = w.G(an)
            x = w.sym("x", n)
            zero = {a: Fraction(0) for a in sym_atoms_of(x)}
            e = w.elem(alg, x)
            for jn in ("left_jacobian", "right_jacobian", "left_jacobian_inv", "right_jacobian_inv"):
                ok, val = guarded(w, rep, "C06.identity", "%s.%s at 0" % (an, jn), lambda jn=jn: w.call(e, jn))
                if ok:
                    scan_value(w, rep, "C06.identity", "%s.%s at x = 0" % (an, jn), val, zero, sites, w.method_where(alg, jn)[:2])
        # SO(3) conversions at the identity rotation
        reps = {nm: w.G(nm) for nm in SO3_REPS}
        suffix = {"SO3Quat": "Quat", "SO3Mrp": "Mrp", "SO3Dcm": "Dcm", "SO3EulerB321": "Euler"}
        for dst, Gd in reps.items():
            for src, Gs in reps.items():
                if src == dst:
                    continue
                X, xp = w.fresh(Gs, "X")
                if src == "SO3Dcm":
                    pt = {a: Fraction(1 if k in (0, 4, 8) else 0) for k, a in enumerate(sym_atoms_of(xp))}
                else:
                    pt = identity_point(w, Gs, xp)
                ok, val = guarded(w, rep, "C06.identity", "%s.from_%s at identity" % (dst, suffix[src]), lambda: w.call(Gd, "from_" + suffix[src], X))
                if ok and pt is not None:
                    scan_value(w, rep, "C06.identity", "%s.from_%s at the identity rotation" % (dst, suffix[src]), val, pt, sites, w.method_where(Gd, "from_" + suffix[src])[:2])
        # SE_2(3) strapdown helper N at zero
        G = w.G("SE23Quat")
        v = w.sym("v", 9)
        B = w.sym("B", 2, 2)
        ok, val = guarded(w, rep, "C06.identity", "SE23.calculate_N at 0", lambda: w.call(G, "calculate_N", w.elem(w.G("se23"), v), B))
        if ok:
            zero = {a: Fraction(0) for a in sym_atoms_of(v)}
            scan_value(w, rep, "C06.identity", "SE23LieGroup.calculate_N at v = 0", val, zero, sites, w.method_where(G, "calculate_N")[:2])
    finally:
        w.it.op_hook = None
        w.it.series_hook = None
    rep.floor("C06.identity", 60)
    check_series_consumers(w, rep, uses, "C06.consumers")
    rep.floor("C06.consumers", 20)


def _even_power_polynomial(p):
    """p is a non-constant polynomial in symbols whose every monomial has even exponents only (a 'squared' quantity)."""
    if not p.t or p.const_value() is not None:
        return False
    for mono in p.t:
        for a, e in mono:
            if a.kind != "sym" or e % 2 or e < 0:
                return False
    return True


def check_series_consumers(w, rep, uses, rule):
    """Every call site of a series-table entry met while building exp / log / Ad / Jacobians / conversions / calculate_N:
    (parity)  an entry of the SQUARED table is evaluated as f(sqrt(u)): its formula must be even in x, otherwise the sign
              of the angle is lost (f(sqrt(theta^2)) = f(|theta|)) and the derivative at 0 has a kink;
    (kind)    the plain table must not be given a squared quantity (a polynomial with even powers only, e.g. w.w dt^2)
              and the squared table must not be given a norm (a square root): the coefficient would be evaluated at theta^2
              where theta is meant, or conversely."""
    from ..seriesform import formula, X as FX
    seen = set()
    xa = FX.single_atom()
    for fn, rel, line, key, squared, arg in uses:
        k = (fn, key, squared)
        if k in seen:
            continue
        seen.add(k)
        table = "SQUARED_SERIES" if squared else "SERIES"
        inst = "%s uses %s[%r]" % (fn, table, key)
        f = w.stable.formula.get(key)
        if f is None:                   # unreadable formula: C06.table's business
            rep.na(rule, inst, "formula of the entry not readable")
            continue
        a = arg.s() if isinstance(arg, MatVal) else arg
        if squared:
            fneg = deep_subs(f, lambda b: -Poly.atom(xa) if b is xa else None)
            v = decide(f, fneg)
            if v == DIFFERENT:
                rep.fail(rule, inst + ": the entry is even in x", "the formula %s is not even in x but the squared table evaluates it at sqrt(u): the sign of the angle is lost (|theta| instead of theta) "
                         "and the value has a kink at 0" % key, where=(rel, line))
                continue
            sa = a.signed_atom() if hasattr(a, "signed_atom") else None
            if sa is not None and sa[1].kind in ("sqrt", "fabs"):
                rep.fail(rule, inst + ": argument is a squared quantity", "the squared table is given a norm (%s): the coefficient is evaluated at sqrt(theta) where theta is meant" % short(a, 60), where=(rel, line))
                continue
            rep.ok(rule, inst + ": even formula, argument not a norm")
        else:
            if _even_power_polynomial(a):
                rep.fail(rule, inst + ": argument is an angle, not a squared quantity", "the plain table is given %s, a sum of even powers (a squared norm): the coefficient is evaluated at theta^2 where theta is meant "
                         "(the two tables share their keys)" % short(a, 60), where=(rel, line))
                continue
            rep.ok(rule, inst + ": argument is not a squared quantity")


def run(w, rep, tier):
    rep.rule("C06.table", "every series-table entry is taylor_series_near_zero(u, f) with the default order 6 and threshold 1e-3; the switch is if_else(fabs(x) < eps, series(f), f) of the same f; squared table substitutes sqrt(u)")
    rep.rule("C06.consumers", "each call site of a series-table entry: squared-table entries are even functions of x and are not given a norm; plain-table entries are not given a squared quantity")
    rep.rule("C06.convert", "sympy_to_casadi, which carries both branches of every table entry into CasADi, converts numbers, powers, sums, products and functions faithfully (the C19.leaf / fold / func obligations)")
    rep.rule("C06.exact", "the closed-form branch of every consumer is the exact function: exp satisfies the exponential ODE, log has the principal closed form, the Jacobians satisfy dexp and J J^-1 = I, the mixed exponential integrates the strapdown equations (obligations of C02 / C03 / C05 / C08 evaluated here)")
    rep.rule("C06.identity", "constant propagation of the identity element / zero vector through exp, log, Ad, Jacobians and conversions: no selected sqrt(0), acos/asin(+-1), division by 0 or atan2(0,0) (each makes the value or its automatic derivative non-finite there); series atoms at argument 0 take the limit of their table formula; the quaternion logs feed acos a quotient bounded by construction on every selection")
    check_table(w, rep)
    check_singularities(w, rep, tier)
    check_acos_domain(w, rep, "C06.identity")
    # the Taylor polynomial and the closed form reach CasADi through sympy_to_casadi: its leaf / fold / function rules (C19)
    # are part of "the series branch is the Taylor polynomial of f" (seeded C06-9 expanded integer powers one time too many)
    forward_rules(w, rep, "c19", {"C19.leaf": "C06.convert", "C19.fold": "C06.convert", "C19.func": "C06.convert", "C19.value": "C06.convert"}, tier)
    rep.floor("C06.convert", 10)
    # "within 1e-9 of the exact value": the table rule says both branches of a coefficient are the SAME formula; that the
    # consumer asked for the RIGHT formula (and combined the coefficients into the exact exp / log / Jacobian / mixed
    # exponential) is what the closed-form rules of C02, C03, C05 and C08 decide.  A look-alike table key (same value at
    # 0, different x^2 term: seeded C06-11) satisfies C06.table and C06.consumers and fails here.
    for mod_, rules_ in (("c02", ("C02.ode", "C02.form")), ("c03", ("C03.quat", "C03.form")), ("c05", ("C05.inverse", "C05.dexp", "C05.Q", "C05.mirror", "C05.blocks")),
                         ("c08", ("C08.ode", "C08.init", "C08.series"))):
        forward_rules(w, rep, mod_, {r: "C06.exact" for r in rules_}, "quick")
    rep.floor("C06.exact", 50)
    rep.undecided_clause("the 1e-9 accuracy bound on [0, 1] rad and the size of the jump at the switch (floating-point error analysis of both branches)")
    rep.undecided_clause("what sympy's series() returns for each formula (the Taylor coefficients themselves)")
