"""C05 - Jacobians are the differentials of exp and of the attitude kinematics (DESIGN 4, C05)."""
import ast

from .common import *
from .liecommon import *
from ..engine import mat_subs, neg_map

ALGS = [("so3", 3), ("se3", 6), ("se23", 9)]
JNAMES = ["left_jacobian", "left_jacobian_inv", "right_jacobian", "right_jacobian_inv"]


def dcm_group(w, algname):
    """The group over the DCM rotation factor: its exp/Ad/to_Matrix involve full-angle closed forms only."""
    if algname == "so3":
        return w.G("SO3Dcm")
    cls = w.obj("cyecca.lie.group_se3", "SE3LieGroup") if algname == "se3" else w.obj("cyecca.lie.group_se23", "SE23LieGroup")
    return w.callf(cls, SO3=w.G("SO3Dcm"))


def check_algebra(w, rep, an, n, tier):
    alg = w.G(an)
    x = w.sym("x", n)
    e = w.elem(alg, x)
    atoms = sym_atoms_of(x)
    W = lambda m: w.method_where(alg, m)[:2]
    J = {}
    for jn in JNAMES:
        ok, v = guarded(w, rep, "C05.API", "%s.%s" % (an, jn), lambda jn=jn: w.call(e, jn))
        if ok:
            good = isinstance(v, MatVal) and v.shape == (n, n)
            rep.check("C05.API", "%s.%s is %dx%d" % (an, jn, n, n), good, "%s returns %s" % (jn, getattr(v, "shape", type(v).__name__)), where=W(jn))
            if good:
                J[jn] = v
    # D1 mirror (exact, series atoms are even in x)
    if "left_jacobian" in J and "right_jacobian" in J:
        verdict(rep, "C05.mirror", "%s J_l(x) = J_r(-x)" % an, J["left_jacobian"], mat_subs(J["right_jacobian"], neg_map(atoms)), (), W("right_jacobian"), "left and right Jacobians are not mirror images")
    if "left_jacobian_inv" in J and "right_jacobian_inv" in J:
        verdict(rep, "C05.mirror", "%s J_l^-1(x) = J_r^-1(-x)" % an, J["left_jacobian_inv"], mat_subs(J["right_jacobian_inv"], neg_map(atoms)), (), W("right_jacobian_inv"),
                "left and right inverse Jacobians are not mirror images")
    with with_maxdeg(40):
        C = {k: closed(w, v) for k, v in J.items()}
        # published inverses are matrix inverses (closed form)
        for side in ("left", "right"):
            a, b = side + "_jacobian", side + "_jacobian_inv"
            if an != "so3" and tier != "thorough":
                # quick tier: J J^-1 = I for se(3)/se_2(3) follows from the so(3) case and the block-triangular
                # inverse formula decided by C05.blocks (lemma L2); the direct 6x6 / 9x9 product is the thorough tier
                continue
            if a in C and b in C:
                inst = "%s %s: J J^-1 = I" % (an, side)
                # a clamp (fmin / fmax) inside a Jacobian is resolved both ways before the series atoms are closed
                cases = minmax_cases(cm.vertcat(J[a], J[b]))
                if cases is None or len(cases) == 1:
                    verdict(rep, "C05.inverse", inst, cm.matmul(C[a], C[b]), eye(n), (), W(b), "published inverse Jacobian is not the matrix inverse")
                else:
                    worst, detail = EQUAL, None
                    for label, JJ in cases:
                        Ja, Jb = closed(w, w.blk(JJ, 0, n, 0, n)), closed(w, w.blk(JJ, n, 2 * n, 0, n))
                        v, d = decide_mat(cm.matmul(Ja, Jb), eye(n))
                        if v == DIFFERENT:
                            worst, detail = DIFFERENT, "when %s: %s" % (label, d)
                            break
                        if v == UNKNOWN and worst == EQUAL:
                            worst, detail = UNKNOWN, "when %s: %s" % (label, d)
                    if worst == EQUAL:
                        rep.ok("C05.inverse", inst, fact={"cases": len(cases)})
                    elif worst == DIFFERENT:
                        rep.fail("C05.inverse", inst, "published inverse Jacobian is not the matrix inverse %s" % detail, where=W(b))
                    else:
                        rep.incomplete("C05.inverse", inst, "cannot decide %s" % detail, where=W(b))
        # derivative of exp, J_l = Ad_exp(x) J_r
        okg, G = guarded(w, rep, "C05.dexp", "%s DCM-based group" % an, lambda: dcm_group(w, an))
        if okg:
            okE, parts = guarded(w, rep, "C05.dexp", "%s exp" % an, lambda: (closed(w, w.call(w.call(G, "exp", e), "to_Matrix")), closed(w, w.call(w.call(G, "exp", e), "Ad"))))
            if okE:
                E, AdE = parts
                Einv = mat_subs(E, neg_map(atoms))
                vI, dI = decide_mat(cm.matmul(Einv, E), eye(E.r))
                if vI != EQUAL:
                    rep.incomplete("C05.dexp", "%s E(-x)E(x)=I" % an, "cannot use E(-x) as the inverse: %s" % dI)
                else:
                    for side, jn in (("left", "left_jacobian"), ("right", "right_jacobian")):
                        if jn not in C:
                            continue
                        allok = True
                        # a Jacobian that selects on the squared rotation angle against a constant inside (0, 4 pi^2) is
                        # decided region by region (both regions lie in the property's domain theta < 2 pi)
                        regions = threshold_regions(w, C[jn], atoms[n - 3:]) if ite_conditions(C[jn]) else None
                        for k, a in enumerate(atoms):
                            dE = mat_diff(E, a)
                            lhs = cm.matmul(dE, Einv) if side == "left" else cm.matmul(Einv, dE)
                            col = w.it.mat_get(C[jn], (slice(0, n), k))
                            rhs = w.call(w.elem(alg, col), "to_Matrix")
                            v, d = decide_mat(lhs, rhs)
                            if v == UNKNOWN and regions:
                                v = EQUAL
                                for rl, Jr in regions:
                                    rr = w.call(w.elem(alg, w.it.mat_get(Jr, (slice(0, n), k))), "to_Matrix")
                                    v2, d2 = decide_mat(lhs, rr)
                                    if v2 == DIFFERENT:
                                        v, d = DIFFERENT, "for rotation angles with %s: %s" % (rl, d2)
                                        break
                                    if v2 == UNKNOWN:
                                        v, d = UNKNOWN, "for rotation angles with %s: %s" % (rl, d2)
                            if v != EQUAL:
                                allok = False
                                (rep.fail if v == DIFFERENT else rep.incomplete)(
                                    "C05.dexp", "%s %s Jacobian column %d is the derivative of exp" % (an, side, k),
                                    "%s: %s" % ("dE/dx_k E^-1 != wedge(J_l e_k)" if side == "left" else "E^-1 dE/dx_k != wedge(J_r e_k)", d), where=W(jn))
                        if allok:
                            rep.ok("C05.dexp", "%s %s Jacobian = exact derivative of exp (all %d directions)" % (an, side, n), fact={"columns": n})
                if "left_jacobian" in C and "right_jacobian" in C and isinstance(AdE, MatVal) and AdE.shape == (n, n):
                    verdict(rep, "C05.dexp", "%s J_l = Ad_exp(x) J_r" % an, C["left_jacobian"], cm.matmul(AdE, C["right_jacobian"]), (), W("left_jacobian"), "J_l differs from Ad_exp(x) J_r")


def check_blocks(w, rep):
    """D2: block layout of the se(3)/se_2(3) Jacobians and the block-triangular inverse formula (L2)."""
    so3, se3, se23 = w.G("so3"), w.G("se3"), w.G("se23")
    for an, alg, n in (("se3", se3, 6), ("se23", se23, 9)):
        x = w.sym("x", n)
        e = w.elem(alg, x)
        om = w.elem(so3, w.sl(x, n - 3, n))
        k = n // 3 - 1
        for side in ("left", "right"):
            W = w.method_where(alg, side + "_jacobian")[:2]
            ok, parts = guarded(w, rep, "C05.blocks", "%s %s operands" % (an, side), lambda: (
                w.call(e, side + "_jacobian"), w.call(e, side + "_jacobian_inv"), w.call(om, side + "_jacobian"), w.call(om, side + "_jacobian_inv"),
                [w.call(w.elem(se3, cm.vertcat(w.sl(x, 3 * i, 3 * i + 3), w.sl(x, n - 3, n))), side + "_Q") for i in range(k)]))
            if not ok:
                continue
            Jm, Ji, R, Ri, Qs = parts
            allok = True
            for bi in range(k + 1):
                for bj in range(k + 1):
                    got = w.blk(Jm, 3 * bi, 3 * bi + 3, 3 * bj, 3 * bj + 3)
                    goti = w.blk(Ji, 3 * bi, 3 * bi + 3, 3 * bj, 3 * bj + 3)
                    if bi == bj:
                        want, wanti, what = R, Ri, "so(3) %s Jacobian" % side
                    elif bj == k:
                        want, what = Qs[bi], "%s_Q(translation %d)" % (side, bi)
                        wanti = cm.neg(cm.matmul(cm.matmul(Ri, Qs[bi]), Ri))
                    else:
                        want, wanti, what = zeros(3, 3), zeros(3, 3), "0"
                    for g, wnt, lab in ((got, want, "J"), (goti, wanti, "J^-1")):
                        v, d = decide_mat(g, wnt)
                        if v != EQUAL:
                            allok = False
                            (rep.fail if v == DIFFERENT else rep.incomplete)("C05.blocks", "%s %s %s block (%d,%d) = %s" % (an, side, lab, bi, bj, what if lab == "J" else "block-triangular inverse"),
                                                                            "block differs: %s" % d, where=W)
            if allok:
                rep.ok("C05.blocks", "%s %s Jacobian and inverse have the block-triangular layout [[R,Q],[0,R]] / [[R-,-R-QR-],[0,R-]]" % (an, side), fact={"blocks": 2 * (k + 1) ** 2})
        # right_Q(x) = left_Q(-x)
        ok, qs = guarded(w, rep, "C05.blocks", "%s right_Q" % an, lambda: (w.call(w.elem(se3, w.sym("y", 6)), "right_Q"),))
    y = w.sym("y", 6)
    ey = w.elem(se3, y)
    ok, qs = guarded(w, rep, "C05.blocks", "se3 Q pair", lambda: (w.call(ey, "left_Q"), w.call(ey, "right_Q")))
    if ok:
        verdict(rep, "C05.blocks", "se3 right_Q(x) = left_Q(-x)", qs[1], mat_subs(qs[0], neg_map(sym_atoms_of(y))), (), w.method_where(se3, "right_Q")[:2], "right_Q is not the mirror of left_Q")


def check_Q_barfoot(w, rep):
    """The Q block against Barfoot (2017) eq. 7.86 in closed form."""
    so3, se3 = w.G("so3"), w.G("se3")
    y = w.sym("y", 6)
    ey = w.elem(se3, y)
    ok, Q = guarded(w, rep, "C05.Q", "se3.left_Q", lambda: w.call(ey, "left_Q"))
    if not ok:
        return
    with with_maxdeg(40):
        Qc = closed(w, Q)
        V = w.call(w.elem(so3, w.sl(y, 0, 3)), "to_Matrix")
        Om = w.call(w.elem(so3, w.sl(y, 3, 6)), "to_Matrix")
        th = theta_of(w.sl(y, 3, 6))
        mm = cm.matmul
        add = lambda a, b: cm.ew(a, b, cm.padd)
        sc = lambda text, M: cm.ew(cm.scalar(F(w, text, th)), M, cm.pmul)
        O2 = mm(Om, Om)
        want = cm.ew(V, Fraction(1, 2), cm.pmul)
        want = add(want, sc("(x - sin(x))/x**3", add(add(mm(Om, V), mm(V, Om)), mm(mm(Om, V), Om))))
        want = add(want, sc("(x**2 + 2*cos(x) - 2)/(2*x**4)", cm.ew(add(mm(O2, V), mm(V, O2)), cm.ew(mm(mm(Om, V), Om), 3, cm.pmul), cm.psub)))
        want = add(want, sc("(2*x - 3*sin(x) + x*cos(x))/(2*x**5)", add(mm(mm(Om, V), O2), mm(mm(O2, V), Om))))
        verdict(rep, "C05.Q", "se3.left_Q = Barfoot (7.86) Q_l(v, omega) in closed form", Qc, want, (), w.method_where(se3, "left_Q")[:2], "left_Q is not Barfoot's Q block")


def check_side_consistency(w, rep):
    """D2: inside left_* builders only left_* helpers are called, and symmetrically (right_Q may call left_Q)."""
    n = 0
    for rel, classes in (("cyecca/lie/group_so3.py", ["SO3LieAlgebra"]), ("cyecca/lie/group_se3.py", ["SE3LieAlgebra"]), ("cyecca/lie/group_se23.py", ["SE23LieAlgebra"])):
        sf = w.fe.get(rel)
        for cn in classes:
            cls = w.fe.find_def(rel, cn)
            for fn in cls.body:
                if not isinstance(fn, ast.FunctionDef):
                    continue
                side = "left" if fn.name.startswith("left_") else "right" if fn.name.startswith("right_") else None
                if side is None:
                    continue
                other = "right" if side == "left" else "left"
                bad = []
                for node in ast.walk(fn):
                    if isinstance(node, ast.Call) and isinstance(node.func, ast.Attribute) and node.func.attr.startswith(other + "_"):
                        if fn.name == "right_Q" and node.func.attr == "left_Q":
                            continue
                        bad.append(node)
                n += 1
                inst = "%s.%s calls only %s_* helpers" % (cn, fn.name, side)
                if bad:
                    rep.fail("C05.sides", inst, "calls %s inside a %s builder" % (bad[0].func.attr, side), where=(rel, bad[0].lineno))
                else:
                    rep.ok("C05.sides", inst)
    rep.floor("C05.sides", 12)


def check_kinematic(w, rep):
    """D4: quaternion and MRP kinematic Jacobians: parameter rates from angular velocity, R' = R[w]x / [w]x R, norm kept."""
    Q = w.G("SO3Quat")
    so3 = w.G("so3")
    X, q = w.fresh(Q, "q")
    qa = tuple(sym_atoms_of(q))
    wv = w.sym("w", 3)
    Wh = w.call(w.elem(so3, wv), "to_Matrix")
    R = w.call(X, "to_Matrix")
    qw = w.elem(Q, cm.vertcat(0, wv))
    for side in ("right", "left"):
        jn = side + "_jacobian"
        W = w.method_where(Q, jn)[:2]
        ok, Jm = guarded(w, rep, "C05.kin", "SO3Quat.%s" % jn, lambda jn=jn: w.call(X, jn))
        if not ok:
            continue
        good = isinstance(Jm, MatVal) and Jm.shape == (4, 3)
        rep.check("C05.kin", "SO3Quat.%s is 4x3" % jn, good, "kinematic Jacobian has shape %s" % (getattr(Jm, "shape", None),), where=W)
        if not good:
            continue
        free = {a for p in Jm.flat() for a in poly_syms_(p)} - set(qa)
        rep.check("C05.kin", "SO3Quat.%s depends only on q" % jn, not free, "Jacobian still depends on the differentiation variable: %s" % sorted(map(repr, free)), where=W)
        qdot = cm.matmul(Jm, wv)
        prod = w.param(w.call(Q, "product", X, qw)) if side == "right" else w.param(w.call(Q, "product", qw, X))
        verdict_by_branches(rep, "C05.kin", "SO3Quat.%s w = 1/2 %s" % (jn, "q*(0,w)" if side == "right" else "(0,w)*q"), qdot, cm.ew(prod, Fraction(1, 2), cm.pmul), (), W,
                "quaternion rate is not half the product with the pure quaternion of w on the %s" % side)
        verdict(rep, "C05.kin", "SO3Quat.%s: q . qdot = 0 (unit norm kept)" % jn, cm.dot(q, qdot), zeros(1, 1), (), W, "quaternion rate has a component along q: the norm drifts")
        Rdot = MatVal(3, 3)
        for k, a in enumerate(qa):
            Rdot = cm.ew(Rdot, cm.ew(mat_diff(R, a), qdot.cells[k][0], cm.pmul), cm.padd)
        want = cm.matmul(R, Wh) if side == "right" else cm.matmul(Wh, R)
        verdict_by_branches(rep, "C05.kin", "SO3Quat.%s: R' = %s" % (jn, "R [w]x" if side == "right" else "[w]x R"), Rdot, want, [qa], W,
                "rotation matrix does not evolve as %s" % ("R [w]x" if side == "right" else "[w]x R"))
    # MRP body-frame Jacobian
    Mr = w.G("SO3Mrp")
    Xr, r = w.fresh(Mr, "r")
    ra = sym_atoms_of(r)
    W = w.method_where(Mr, "right_jacobian")[:2]
    ok, B = guarded(w, rep, "C05.kin", "SO3Mrp.right_jacobian", lambda: w.call(Xr, "right_jacobian"))
    if ok:
        good = isinstance(B, MatVal) and B.shape == (3, 3)
        rep.check("C05.kin", "SO3Mrp.right_jacobian is 3x3", good, "shape %s" % (getattr(B, "shape", None),), where=W)
        if good:
            with with_maxdeg(30):
                Rm = w.call(Xr, "to_Matrix")
                rdot = cm.matmul(B, wv)
                Rdot = MatVal(3, 3)
                for k, a in enumerate(ra):
                    Rdot = cm.ew(Rdot, cm.ew(mat_diff(Rm, a), rdot.cells[k][0], cm.pmul), cm.padd)
                verdict_by_branches(rep, "C05.kin", "SO3Mrp.right_jacobian: R' = R [w]x", Rdot, cm.matmul(Rm, Wh), (), W, "MRP rate does not make the rotation matrix evolve as R [w]x")


def check_structural_zero(w, rep):
    """An element given with a numerically (structurally) zero part - SX built from DM zeros, the way constants reach the
    library - must get the Jacobian the symbolic formula gives at that point: a shortcut taken on `param.is_zero()` is
    visible only to such inputs (symbols are never structurally zero)."""
    from .c16 import subs_syms
    R = "C05.numeric"
    for an, n in ALGS:
        if n <= 3:
            continue
        alg = w.G(an)
        x = w.sym("x", n)
        Js = {}
        for jn in JNAMES:
            ok, v = guarded(w, rep, "C05.API", "%s.%s" % (an, jn), lambda jn=jn: w.call(w.elem(alg, x), jn))
            if ok and isinstance(v, MatVal):
                Js[jn] = v
        atoms = sym_atoms_of(x)
        for k in range(n // 3):
            z = MatVal(3, 1)
            z.kind = "DM"
            parts = [z if j == k else w.sl(x, 3 * j, 3 * j + 3) for j in range(n // 3)]
            xn = cm.vertcat(*parts)
            zero_map = {a: Poly() for a in atoms[3 * k:3 * k + 3]}
            for jn, Jsym in Js.items():
                inst = "%s.%s with x[%d:%d] numerically zero = the symbolic Jacobian at that point" % (an, jn, 3 * k, 3 * k + 3)
                ok, Jn = guarded(w, rep, R, inst, lambda jn=jn: w.call(w.elem(alg, xn), jn))
                if not ok or not isinstance(Jn, MatVal):
                    continue
                with with_maxdeg(40):
                    verdict(rep, R, inst, Jn, subs_syms(Jsym, zero_map), (), w.method_where(alg, jn)[:2],
                            "the Jacobian of an element with a structurally zero part is not the value of the general formula there", unknown_ok=True)


def poly_syms_(p):
    from ..poly import poly_syms
    return poly_syms(p)


def run(w, rep, tier):
    rep.rule("C05.API", "the four Jacobians of so(3), se(3), se_2(3) resolve and are n x n")
    rep.rule("C05.mirror", "J_l(x) = J_r(-x) and the same for the inverses (exact: series coefficients are functions of x.x)")
    rep.rule("C05.inverse", "J J^-1 = I in closed form (series atoms replaced by their table formulas)")
    rep.rule("C05.dexp", "dE/dx_k E^-1 = wedge(J_l e_k), E^-1 dE/dx_k = wedge(J_r e_k) for E = to_Matrix(exp(x)) over the DCM factor, all k; J_l = Ad_exp(x) J_r; closed form")
    rep.rule("C05.blocks", "block layout [[R,Q],[0,R]] with same-side so(3) Jacobian and Q; inverse is the block-triangular inverse formula (L2); right_Q(x) = left_Q(-x)")
    rep.rule("C05.Q", "left_Q equals Barfoot's closed-form Q block")
    rep.rule("C05.sides", "left_* builders call only left_* helpers and right_* only right_* (right_Q -> left_Q excepted)")
    rep.rule("C05.kin", "quaternion/MRP kinematic Jacobians: qdot = 1/2 q*(0,w) resp. 1/2 (0,w)*q, q.qdot = 0, R' = R[w]x resp. [w]x R")
    rep.rule("C05.numeric", "an element with a structurally zero 3-slot (numeric zeros) gets the symbolic Jacobian specialised at that point (no is_zero() shortcut changes the value)")
    for an, n in ALGS:
        check_algebra(w, rep, an, n, tier)
    check_blocks(w, rep)
    check_Q_barfoot(w, rep)
    check_side_consistency(w, rep)
    check_kinematic(w, rep)
    check_structural_zero(w, rep)
    rep.floor("C05.mirror", 6)
    rep.floor("C05.inverse", 6 if tier == "thorough" else 2)
    rep.floor("C05.dexp", 6)
    rep.floor("C05.kin", 9)
    rep.undecided_clause("behaviour on the Taylor branch |theta^2| < 1e-3 and at theta = 0 exactly (C06)")


def _pi_value(p):
    """Numeric value of a polynomial in the symbol pi alone, else None."""
    import math
    tot = 0.0
    for mono, c in p.t.items():
        v = float(c)
        for a, e in mono:
            if not (a.kind == "sym" and a.key[0] == "pi"):
                return None
            v *= math.pi ** e
        tot += v
    return tot


def threshold_regions(w, M, atoms, theta_max=2 * 3.141592653589793):
    """M contains if_else selections on ONE comparison of the squared norm S = sum(x_i^2) of the algebra parameters with a
    constant c, 0 < c < theta_max^2: both regions meet the domain 0 < theta < theta_max of the property in an open set, so
    the identity has to hold in each.  -> [(label, M_region)] with, per region, the if_else resolved, fmin/fmax of the same
    two operands resolved consistently with it, and sqrt(g^2 P) -> |g| sqrt(P) for a selected scale factor g = a + b/theta
    of constant sign on the region (seeded C05-14: the Jacobians 'reduce' x to (1 - 2 pi/theta) x beyond pi).
    None when M is not of that shape."""
    import math
    conds = ite_conditions(M)
    if len(conds) != 1:
        return None
    ca_ = conds[0].single_atom()
    if ca_ is None or ca_.kind not in ("lt", "le"):
        return None
    A, B = ca_.key[0], ca_.key[1]
    S = Poly()
    for a in atoms:
        S = S + Poly.atom(a) * Poly.atom(a)
    if B == S and _pi_value(A) is not None:
        c, outer_truth = _pi_value(A), True         # c < S
    elif A == S and _pi_value(B) is not None:
        c, outer_truth = _pi_value(B), False        # S < c
    else:
        return None
    if not (1e-9 < c < theta_max ** 2 - 1e-9):
        return None
    theta = cm.un("sqrt", S)
    th_atom = theta.single_atom()
    out = []
    for label, truth, lo, hi in (("theta^2 > %.4g" % c, outer_truth, math.sqrt(c), theta_max), ("theta^2 < %.4g" % c, not outer_truth, 0.0, math.sqrt(c))):
        S_big = truth == outer_truth                 # in this region S is the larger operand

        def res(a, truth=truth, S_big=S_big):
            if a.kind == "ite" and a.key[0] == conds[0]:
                return deep_subs(a.key[1] if truth else a.key[2], res)
            if a.kind in ("fmin", "fmax") and isinstance(a.key[0], Poly) and {a.key[0], a.key[1]} == {A, B}:
                big, small = (S, A if B == S else B) if S_big else (A if B == S else B, S)
                return big if a.kind == "fmax" else small
            return None
        # the selected scale factors: values of the ite branches in this region
        gs = []
        for p in M.flat():
            for a in all_atoms(p):
                if a.kind == "ite" and a.key[0] == conds[0]:
                    g = deep_subs(a.key[1] if truth else a.key[2], res)
                    if g not in gs:
                        gs.append(g)
        Mr = MatVal(M.r, M.c, [[deep_subs(p, res) if p.t else p for p in row] for row in M.cells], M.kind)
        for g in gs:
            if g.const_value() is not None:
                continue
            # g = a + b theta^-1 with a, b polynomials in pi: monotone in theta, so its sign on (lo, hi) is settled at the ends
            a_, b_ = Poly(), Poly()
            okg = True
            for mono, cf in g.t.items():
                rest = tuple((x_, e_) for x_, e_ in mono if x_ is not th_atom)
                eth = dict(mono).get(th_atom, 0)
                term = Poly({rest: cf})
                if eth == 0:
                    a_ = a_ + term
                elif eth == -1:
                    b_ = b_ + term
                else:
                    okg = False
            av, bv = _pi_value(a_), _pi_value(b_)
            if not okg or av is None or bv is None:
                return None
            ends = [av + bv / max(lo, 1e-12) if lo > 0 else (math.inf if bv > 0 else -math.inf), av + bv / hi]
            if not (all(v <= 1e-12 for v in ends) or all(v >= -1e-12 for v in ends)):
                return None
            sgn = 1 if ends[0] + ends[1] > 0 else -1
            t = sym_atoms_of(w.sym("scale_abs", 1))[0]
            # g -> sgn t with t > 0; sqrt(t^2 P) -> t sqrt(P); t -> sgn g
            # (g occurs through the resolved ite only, so the substitution is done on the unresolved matrix)

            def res_t(a, truth=truth, g=g, t=t, sgn=sgn):
                if a.kind == "ite" and a.key[0] == conds[0]:
                    gg = deep_subs(a.key[1] if truth else a.key[2], res)
                    if gg == g:
                        return Poly.atom(t).scale(sgn)
                    return gg
                return res(a)
            Mt = MatVal(M.r, M.c, [[deep_subs(p, res_t) if p.t else p for p in row] for row in M.cells], M.kind)
            Mt = pull_positive(Mt, t)
            back = g.scale(sgn)
            Mr = MatVal(M.r, M.c, [[deep_subs(p, lambda a, t=t, back=back: back if a is t else None) if p.t else p for p in row] for row in Mt.cells], M.kind)
        out.append((label, Mr))
    return out
