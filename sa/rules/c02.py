"""C02 - the group exponential is the matrix exponential (DESIGN 4, C02; lemma L13 in liecommon)."""
import ast

from .common import *
from .liecommon import *
from ..decide import canon
from ..engine import is_identity


def exp_matrix(w, rep, name, G, alg, x, rule):
    """-> closed-form to_Matrix(exp(x)) (the matrix handed to from_Matrix when exp is built through it)."""
    e = w.elem(alg, x)
    ok, res = guarded(w, rep, rule, "%s.exp" % name, lambda: capture_calls(w, "from_Matrix", lambda: w.call(G, "exp", e), self_is=G))
    if not ok:
        return None, None
    val, seen = res
    if not (isinstance(val, Instance) and val.attrs.get("group") is G):
        rep.fail(rule, "%s.exp" % name, "exp does not return an element of %s" % name, where=w.method_where(G, "exp")[:2])
        return None, None
    rep.ok(rule, "%s.exp resolves and returns an element of the group" % name)
    via = None
    if seen and isinstance(seen[0].get("arg"), MatVal):
        via = seen[0]["arg"]
    return val, via


def check_exp(w, rep, name, G, tier):
    alg = w.attr(G, "algebra")
    n = w.attr(alg, "n_param")
    kind = rot_kind(w, G)
    W = w.method_where(G, "exp")[:2]
    x = w.sym("x", n)
    e = w.elem(alg, x)
    val, via = exp_matrix(w, rep, name, G, alg, x, "C02.API")
    if val is None:
        return
    okx, Xm = guarded(w, rep, "C02.ode", "%s wedge" % name, lambda: w.call(e, "to_Matrix"))
    if not okx:
        return
    if kind == "euler":
        # D3: Euler exp is SO3Dcm.exp followed by from_Dcm (the DCM exponential is decided below)
        (_, seen) = capture_calls(w, "from_Dcm", lambda: w.call(G, "exp", e), self_is=G)
        D = w.G("SO3Dcm")
        okd, Dexp = guarded(w, rep, "C02.flow", "SO3Dcm.exp", lambda: w.param(w.call(D, "exp", e)))
        good = bool(seen) and isinstance(seen[0].get("arg"), Instance) and okd and mat_equal(w.param(seen[0]["arg"]), Dexp)
        if not good and okd:
            # the same value reached another way (from_Matrix of the matrix the DCM exponential builds, without wrapping it
            # in a DCM element): compare what is computed, not how it is routed
            okv, pair = guarded(w, rep, "C02.flow", "%s.exp value" % name, lambda: (w.param(w.call(G, "exp", e)), w.param(w.call(G, "from_Matrix", w.call(w.call(D, "exp", e), "to_Matrix")))))
            good = okv and mat_equal(pair[0], pair[1])
        rep.check("C02.flow", "%s.exp = from_Dcm(SO3Dcm.exp(x))" % name, good, "Euler exp is not the Euler chart of the DCM exponential", where=W)
        return
    # matrix whose radial ODE is checked: the argument of from_Matrix if exp is built through it (SE_2(3), DCM), else to_Matrix(exp)
    if via is not None and kind in ("quat", "mrp", "dcm"):
        M = via
        how = "matrix handed to from_Matrix"
        if kind in ("quat", "mrp") and rot_factor(w, G) is not G:
            rep.note("%s.exp is built as from_Matrix(M); the ODE is decided on M and from_Matrix is the right inverse decided in C01/C07" % name)
    else:
        okm, M = guarded(w, rep, "C02.ode", "%s to_Matrix(exp)" % name, lambda: w.call(val, "to_Matrix"))
        if not okm:
            return
        how = "to_Matrix(exp(x))"
    with with_maxdeg(44):
        E = closed(w, M)
        bs = branches(E)
        if bs is None:
            rep.incomplete("C02.ode", "%s radial ODE" % name, "too many if_else conditions in exp", where=W)
            return
        if kind == "mrp" and len(bs) > 1:
            # MRP exp = shadow(principal value): the ODE is decided on the principal value, the shadow map is shown
            # separately to leave the rotation matrix unchanged (C02.flow below)
            bs = bs[:1]
        for desc, Eb in bs:
            inst = "%s: sum_k x_k dE/dx_k = wedge(x) E  on %s%s" % (name, how, "" if desc == "-" else " [branch %s]" % ("shadow" if "T" in desc[-2:] else "principal"))
            shadow = desc != "-" and desc.endswith("T")
            v, d = EQUAL, None
            for lab, Ec in (minmax_cases(Eb) or [("-", Eb)]):       # clamps resolved both ways (after closing: sqrt(cos^2) = |cos|)
                Ec = MatVal(Ec.r, Ec.c, [[canon(p_) if p_.t else p_ for p_ in row] for row in Ec.cells], Ec.kind) if lab != "-" else Ec
                v1, d1 = decide_by_cases(radial(Ec, x), cm.matmul(Xm, Ec))
                if v1 == DIFFERENT:
                    v, d = DIFFERENT, ("%s; %s" % (lab, d1) if lab != "-" else d1)
                    break
                if v1 == UNKNOWN and v == EQUAL:
                    v, d = UNKNOWN, ("%s; %s" % (lab, d1) if lab != "-" else d1)
            if v == EQUAL:
                rep.ok("C02.ode", inst, fact={"cells": Eb.r * Eb.c, "closed_form_terms": sum(len(p.t) for p in Eb.flat())})
            elif v == DIFFERENT:
                rep.fail("C02.ode", inst, "closed form of exp does not satisfy d/dt E(tx) = wedge(x) E(tx): it is not the matrix exponential; %s" % d, where=W)
            else:
                rep.incomplete("C02.ode", inst, "cannot decide the radial ODE: %s" % d, where=W)
        # exp(-x) exp(x) = I on the principal branch
        Eb = bs[0][1]
        atoms = sym_atoms_of(x)
        from ..engine import mat_subs, neg_map
        Em = mat_subs(Eb, neg_map(atoms))
        v, d = decide_mat(cm.matmul(Em, Eb), eye(Eb.r))
        inst = "%s: E(-x) E(x) = I" % name
        if v == EQUAL:
            rep.ok("C02.inv", inst)
        elif v == DIFFERENT:
            rep.fail("C02.inv", inst, "exp(-x) is not the inverse of exp(x): %s" % d, where=W)
        else:
            rep.na("C02.inv", inst, "not decided: %s" % d)


def form_verdict(w, rep, inst, got_raw, want_series, want_closed, where, msg):
    """Compare first at the level of series atoms (same table entry by formula, same table, same argument), then on
    closed forms.  A different table entry / plain-vs-squared table / argument is DIFFERENT at the first level."""
    v, d = decide_mat(got_raw, want_series)
    if v == EQUAL:
        rep.ok("C02.form", inst, fact={"level": "series atoms"})
        return
    if v == DIFFERENT:
        rep.fail("C02.form", inst, "%s (series coefficient, table or argument differs): %s" % (msg, d), where=where, fact={"difference": d})
        return
    verdict(rep, "C02.form", inst, closed(w, got_raw), want_closed, (), where, msg)


def check_textbook(w, rep):
    """D2: parameter-level forms that define exp in each chart (Rodrigues / half-angle quaternion / tan(theta/4) MRP / SE(2) V matrix)."""
    so3 = w.G("so3")
    x = w.sym("x", 3)
    e = w.elem(so3, x)
    th = theta_of(x)
    X = w.call(e, "to_Matrix")
    with with_maxdeg(30):
        # DCM: Rodrigues
        D = w.G("SO3Dcm")
        ok, R = guarded(w, rep, "C02.form", "SO3Dcm.exp", lambda: w.call(w.call(D, "exp", e), "to_Matrix"))
        if ok:
            tsq = cm.sumsqr(x)
            rod = lambda a, b: cm.ew(cm.ew(eye(3), cm.ew(a, X, cm.pmul), cm.padd), cm.ew(b, cm.matmul(X, X), cm.pmul), cm.padd)
            want_s = rod(w.S("sin(x)/x", True, tsq), w.S("(1-cos(x))/x**2", True, tsq))
            want_c = rod(cm.scalar(F(w, "sin(x)/x", th)), cm.scalar(F(w, "(1-cos(x))/x**2", th)))
            form_verdict(w, rep, "SO3Dcm.exp = I + sin(t)/t X + (1-cos t)/t^2 X^2 (Rodrigues)", R, want_s, want_c, w.method_where(D, "exp")[:2], "DCM exponential is not Rodrigues' formula")
        # quaternion: (cos(t/2), sin(t/2)/t x)
        Q = w.G("SO3Quat")
        ok, q = guarded(w, rep, "C02.form", "SO3Quat.exp", lambda: w.param(w.call(Q, "exp", e)))
        if ok:
            h = th.scale(Fraction(1, 2))
            q4 = cm.ew(cm.sumsqr(x), Fraction(1, 4), cm.pmul)
            want_s = cm.vertcat(w.S("cos(x)", True, q4), cm.ew(cm.ew(w.S("sin(x)/x", True, q4), Fraction(1, 2), cm.pmul), x, cm.pmul))
            want_c = cm.vertcat(cm.scalar(cm.un("cos", h)), cm.ew(cm.scalar(cm.pdiv(cm.un("sin", h), th)), x, cm.pmul))
            form_verdict(w, rep, "SO3Quat.exp = (cos(t/2), sin(t/2)/t x)", q, want_s, want_c, w.method_where(Q, "exp")[:2], "quaternion exponential is not (cos(t/2), sin(t/2) n)")
        # MRP: tan(t/4)/t x  before the shadow switch
        Mr = w.G("SO3Mrp")
        ok, res = guarded(w, rep, "C02.form", "SO3Mrp.exp", lambda: capture_calls(w, "shadow_if_necessary", lambda: w.call(Mr, "exp", e)))
        if ok:
            val, seen = res
            if not seen:
                rep.fail("C02.form", "SO3Mrp.exp passes through shadow_if_necessary", "MRP exp does not apply the shadow switch", where=w.method_where(Mr, "exp")[:2])
            else:
                arg = seen[0].get("arg")
                pre = None
                # the element is mutated in place by shadow_if_necessary; reconstruct the pre-shadow value from the principal branch
                bs = branches(closed(w, w.param(val)))
                pre = bs[0][1] if bs else None
                want = cm.ew(cm.scalar(cm.pdiv(cm.un("tan", th.scale(Fraction(1, 4))), th)), x, cm.pmul)
                if pre is not None:
                    verdict(rep, "C02.form", "SO3Mrp.exp = tan(t/4)/t x (principal branch)", pre, want, (), w.method_where(Mr, "exp")[:2], "MRP exponential is not tan(theta/4) n")
        # SE(2): V matrix
        se2 = w.G("se2")
        y = w.sym("y", 3)
        ey = w.elem(se2, y)
        G2 = w.G("SE2")
        ok, p = guarded(w, rep, "C02.form", "SE2.exp", lambda: closed(w, w.param(w.call(G2, "exp", ey))))
        if ok:
            t = y.cells[2][0]
            a = F(w, "sin(x)/x", t)
            b = F(w, "(1-cos(x))/x", t)
            V = MatVal(2, 2, [[a, -b], [b, a]])
            want = cm.vertcat(cm.matmul(V, w.sl(y, 0, 2)), cm.scalar(t))
            verdict(rep, "C02.form", "SE2.exp = (V v, theta), V = [[sin t/t, -(1-cos t)/t],[(1-cos t)/t, sin t/t]]", p, want, (), w.method_where(G2, "exp")[:2], "SE(2) exponential does not use the V matrix",
                    beyond_pi_rows=[0, 1])          # translation rows: exact also beyond pi (the heading row is an angle, compared modulo 2 pi)
        # SE(3): translation through the so(3) left Jacobian, rotation = exp of the rotation part
        se3 = w.G("se3")
        z = w.sym("z", 6)
        ez = w.elem(se3, z)
        for gname in ("SE3Quat", "SE3Mrp"):
            G3 = w.G(gname)
            ok, p = guarded(w, rep, "C02.form", "%s.exp" % gname, lambda: w.param(w.call(G3, "exp", ez)))
            if ok:
                om = w.elem(so3, w.sl(z, 3, 6))
                Jl = w.call(om, "left_jacobian")
                Rf = w.attr(G3, "SO3")
                want = cm.vertcat(cm.matmul(Jl, w.sl(z, 0, 3)), w.param(w.call(Rf, "exp", om)))
                verdict(rep, "C02.form", "%s.exp = (J_l(omega) v, exp(omega))" % gname, p, want, (), w.method_where(G3, "exp")[:2],
                        "SE(3) exponential is not (left Jacobian times v, rotation exponential)")


def check_shadow_invariance(w, rep, RULE="C02.flow"):
    Mr = w.G("SO3Mrp")
    R, r = w.fresh(Mr, "r")
    n2 = cm.sumsqr(r)
    sh = w.elem(Mr, cm.ew(cm.neg(r), n2, cm.pdiv))
    ok, ms = guarded(w, rep, RULE, "SO3Mrp shadow", lambda: (w.call(R, "to_Matrix"), w.call(sh, "to_Matrix")))
    if ok:
        with with_maxdeg(30):
            verdict(rep, RULE, "SO3Mrp: to_Matrix(-r/|r|^2) = to_Matrix(r) (the shadow set is the same rotation)", ms[1], ms[0], (),
                    w.method_where(Mr, "to_Matrix")[:2], "the shadow MRP does not represent the same rotation")
    # and shadow_if_necessary is if_else(r.r > 1, -r/(r.r), r)
    from .c03 import is_shadowed
    X, xp = w.fresh(Mr, "s")
    ok, _ = guarded(w, rep, RULE, "shadow_if_necessary", lambda: w.call(Mr, "shadow_if_necessary", X))
    if ok:
        good, why = is_shadowed(w.param(X))
        same = good and all(c.single_atom().key[2] == p for c, p in zip(w.param(X).flat(), xp.flat()))
        rep.check(RULE, "shadow_if_necessary = if_else(r.r > 1, -r/(r.r), r)", same, "shadow switch is not the strict |r|^2 > 1 selection of -r/|r|^2 (%s)" % (why or "else branch is not r"),
                  where=w.method_where(Mr, "shadow_if_necessary")[:2])


def check_rn_nilpotent(w, rep):
    """D4: for R^n the algebra matrices multiply to zero, so expm(E(a)) = I + E(a) = to_Matrix(exp(a))."""
    for nm, an in (("R2", "r2"), ("R3", "r3")):
        G, A = w.G(nm), w.G(an)
        n = w.attr(A, "n_param")
        a = w.sym("a", n)
        b = w.sym("b", n)
        ok, ms = guarded(w, rep, "C02.nilpotent", nm, lambda: (w.call(w.elem(A, a), "to_Matrix"), w.call(w.elem(A, b), "to_Matrix"), w.call(w.call(G, "exp", w.elem(A, a)), "to_Matrix")))
        if ok:
            Ea, Eb, T = ms
            verdict(rep, "C02.nilpotent", "%s: wedge(a) wedge(b) = 0" % an, cm.matmul(Ea, Eb), zeros(n + 1, n + 1), (), w.method_where(A, "to_Matrix")[:2], "r^n algebra matrices are not nilpotent")
            verdict(rep, "C02.nilpotent", "%s: to_Matrix(exp(a)) = I + wedge(a)" % nm, T, cm.ew(eye(n + 1), Ea, cm.padd), (), w.method_where(G, "exp")[:2], "R^n exponential is not I + wedge(a)")


def check_direct_product_exp(w, rep):
    G = w.it.binop(ast.Mult(), w.G("SO3Mrp"), w.G("R3"), None)
    alg = w.attr(G, "algebra")
    x = w.sym("x", 6)
    ok, p = guarded(w, rep, "C02.direct-product", "SO3Mrp*R3 exp", lambda: w.param(w.call(G, "exp", w.elem(alg, x))))
    if ok:
        want = cm.vertcat(w.param(w.call(w.G("SO3Mrp"), "exp", w.elem(w.G("so3"), w.sl(x, 0, 3)))), w.param(w.call(w.G("R3"), "exp", w.elem(w.G("r3"), w.sl(x, 3, 6)))))
        verdict(rep, "C02.direct-product", "SO3Mrp*R3: exp applies each factor's exp to that factor's slice, in order", p, want, (), w.method_where(G, "exp")[:2],
                "direct-product exp is not factor-wise")


def run(w, rep, tier):
    rep.rule("C02.API", "exp resolves for every group and returns an element of that group")
    rep.rule("C02.ode", "radial ODE sum_k x_k dE/dx_k = wedge(x) E on the closed form of to_Matrix(exp(x)) (lemma L13: with E(0)=I this characterises expm); every if_else branch")
    rep.rule("C02.inv", "E(-x) E(x) = I on the closed form")
    rep.rule("C02.form", "parameter-level forms: Rodrigues, half-angle quaternion, tan(theta/4) MRP, SE(2) V-matrix, SE(3) translation through J_l; coefficients located in the series table by formula, argument kind theta vs theta^2 included")
    rep.rule("C02.flow", "Euler exp is from_Dcm(SO3Dcm.exp); the Euler from_Matrix it ends in tests both poles with a band of half width <= 1e-3 rad")
    rep.rule("C02.table", "necessary for the branch below the switch: every coefficient's small-argument branch is the default order-6 Taylor polynomial of the SAME formula, switched at |x| < 1e-3 (shared with C06.table)")
    rep.rule("C02.nilpotent", "R^n: algebra matrices multiply to zero hence expm = I + wedge")
    rep.rule("C02.direct-product", "direct-product exp is factor-wise on the factors' slices")
    groups = [(nm, w.G(nm)) for nm in GROUPS12]
    for nm, G in groups:
        check_exp(w, rep, nm, G, tier)
    check_textbook(w, rep)
    from .c06 import check_table
    check_table(w, rep, rule="C02.table")
    check_shadow_invariance(w, rep)
    # Euler exp = from_Dcm(SO3Dcm.exp(x)) lands in SO3EulerB321.from_Matrix: outside the documented 1e-3 rad gimbal band the
    # regular branch must be taken (rule shared with C07.euler; seeded C02-5 widened the band to 2.6 degrees)
    from .c07 import check_euler_band_rule
    check_euler_band_rule(w, rep, "C02.flow")
    # SE_2(3) exp hands the rotation block of its matrix to SO3.from_Matrix: every Shepperd selection must be a right
    # inverse and divide by the largest pivot (rules shared with C07; seeded C02-6 divided one entry by the wrong pivot)
    from .c07 import check_from_matrix
    check_from_matrix(w, rep, R="C02.flow", RV="C02.flow", RS="C02.flow")
    check_rn_nilpotent(w, rep)
    check_direct_product_exp(w, rep)
    rep.floor("C02.ode", 11)
    rep.floor("C02.form", 5)
    rep.undecided_clause("the Taylor branch taken for |argument| < 1e-3 (what sympy's series() produces) and continuity of the closed form at zero rotation (C06)")
    rep.undecided_clause("Euler: to_Matrix(from_Dcm(R)) = R is the C07 round trip, undecided for Euler")
