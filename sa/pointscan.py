"""Constant propagation of a distinguished point (the identity element / the zero algebra vector) through a value
graph, looking for operators that are singular or non-differentiable *there* on the selected if_else path:
sqrt(0), acos(+-1), asin(+-1), division by 0, fabs(0)/sign(0) (kink).  This is constant folding of one constant
(the identity), not sampling: nothing random, nothing numeric beyond exact rationals; values that do not fold to a
rational are 'unknown' and never produce a report.
"""
from fractions import Fraction

from .poly import Poly

UNKNOWN = None


class Scan:
    def __init__(self, point, series_limit=None):
        self.series_limit = series_limit    # table key -> value of the series function at argument 0 (Fraction) or None
        self.point = point          # atom -> Fraction
        self.memo = {}
        self.flags = []             # (atom, reason)
        self._flagged = set()

    def flag(self, a, why):
        if a not in self._flagged:
            self._flagged.add(a)
            self.flags.append((a, why))

    def poly(self, p):
        """Value of p at the point (Fraction) or None."""
        total = Fraction(0)
        unknown = False
        for m, c in p.t.items():
            term = Fraction(c)
            term_unknown = False
            zero = False
            for a, e in m:
                v = self.atom(a)            # every factor is visited (for its own flags) even when the term is already 0
                if v is UNKNOWN:
                    term_unknown = True
                    continue
                if v == 0 and e < 0:
                    self.flag(a, "negative power of a value that is 0 at the identity (division by zero)")
                    term_unknown = True
                    continue
                if v == 0:
                    zero = True
                term = term * (v ** e)
            if zero:
                continue                    # a zero factor times finite unknown factors (symbols are finite) is zero
            if term_unknown:
                unknown = True
            else:
                total += term
        return UNKNOWN if unknown else total

    def atom(self, a):
        if a in self.memo:
            return self.memo[a]
        self.memo[a] = UNKNOWN
        r = self._atom(a)
        self.memo[a] = r
        return r

    def _atom(self, a):
        k = a.kind
        if k == "sym":
            return self.point.get(a, UNKNOWN)
        if k == "ite":
            c = self.poly(a.key[0])
            if c is UNKNOWN:
                # cannot tell which branch is selected: do not descend (no report from an unselected branch)
                return UNKNOWN
            return self.poly(a.key[1] if c != 0 else a.key[2])
        if k in ("lt", "le", "eq", "ne"):
            x, y = self.poly(a.key[0]), self.poly(a.key[1])
            if x is UNKNOWN or y is UNKNOWN:
                return UNKNOWN
            return Fraction(int({"lt": x < y, "le": x <= y, "eq": x == y, "ne": x != y}[k]))
        if k in ("and", "or"):
            x, y = self.poly(a.key[0]), self.poly(a.key[1])
            if k == "and":
                if x == 0 or y == 0:
                    return Fraction(0)
                if x is UNKNOWN or y is UNKNOWN:
                    return UNKNOWN
                return Fraction(1)
            if (x is not UNKNOWN and x != 0) or (y is not UNKNOWN and y != 0):
                return Fraction(1)
            if x is UNKNOWN or y is UNKNOWN:
                return UNKNOWN
            return Fraction(0)
        if k == "not":
            x = self.poly(a.key[0])
            return UNKNOWN if x is UNKNOWN else Fraction(int(x == 0))
        if k == "series":
            u = self.poly(a.key[2])
            if u is not UNKNOWN and u == 0 and self.series_limit is not None:
                # at argument 0 the Taylor branch returns its constant coefficient: the limit of the table formula there
                try:
                    lim = self.series_limit(a.key[0])
                except Exception:
                    lim = None
                if lim is not None:
                    return Fraction(lim)
            return UNKNOWN       # the Taylor branch is selected near 0: smooth by construction (what it computes is C06-undecided)
        if k == "recip":
            u = self.poly(a.key[0])
            if u is UNKNOWN:
                return UNKNOWN
            if u == 0:
                self.flag(a, "division by a value that is 0 at the identity")
                return UNKNOWN
            return 1 / u
        args = [self.poly(x) if isinstance(x, Poly) else x for x in a.key]
        u = args[0] if args else UNKNOWN
        if k == "sqrt":
            if u is UNKNOWN:
                return UNKNOWN
            if u == 0:
                self.flag(a, "sqrt of a value that is 0 at the identity (infinite derivative: NaN under automatic differentiation)")
                return Fraction(0)
            if u < 0:
                self.flag(a, "sqrt of a negative value at the identity")
                return UNKNOWN
            n, d = u.numerator, u.denominator
            from math import isqrt
            if isqrt(n) ** 2 == n and isqrt(d) ** 2 == d:
                return Fraction(isqrt(n), isqrt(d))
            return UNKNOWN
        if k in ("acos", "asin"):
            if u is UNKNOWN:
                return UNKNOWN
            if abs(u) == 1:
                self.flag(a, "%s of %s at the identity (infinite derivative: NaN under automatic differentiation)" % (k, u))
            if abs(u) > 1:
                self.flag(a, "%s outside [-1, 1] at the identity" % k)
            if k == "acos" and u == 1:
                return Fraction(0)
            if k == "asin" and u == 0:
                return Fraction(0)
            return UNKNOWN
        if k in ("sin", "tan", "atan", "sinh", "tanh", "asinh", "atanh", "erf"):
            return Fraction(0) if u == 0 else UNKNOWN
        if k in ("cos", "cosh", "exp"):
            return Fraction(1) if u == 0 else UNKNOWN
        if k == "log":
            if u is not UNKNOWN and u <= 0:
                self.flag(a, "log of a non-positive value at the identity")
            return Fraction(0) if u == 1 else UNKNOWN
        if k == "fabs":
            if u is UNKNOWN:
                return UNKNOWN
            return abs(u)
        if k == "sign":
            if u is UNKNOWN:
                return UNKNOWN
            return Fraction((u > 0) - (u < 0))
        if k in ("fmin", "fmax"):
            x, y = args[0], args[1]
            if x is UNKNOWN or y is UNKNOWN:
                return UNKNOWN
            return min(x, y) if k == "fmin" else max(x, y)
        if k == "atan2":
            y, x = args[0], args[1]
            if y is UNKNOWN or x is UNKNOWN:
                return UNKNOWN
            if y == 0 and x == 0:
                self.flag(a, "atan2(0, 0) at the identity (undefined derivative)")
                return UNKNOWN
            if y == 0 and x > 0:
                return Fraction(0)
            return UNKNOWN
        if k == "pow":
            return UNKNOWN
        # anything else: evaluate arguments for their own flags, value unknown
        return UNKNOWN
