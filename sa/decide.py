"""Deciding equality of two value numbers.

decide(p, q, ...) returns one of
  EQUAL      canonical forms coincide (after the stated normalisations)  -> the functions are equal
  DIFFERENT  both sides are polynomial / rational in the *same* set of atoms and the normal forms differ
             -> the functions differ (atoms other than symbols are treated as algebraically independent after the
             relations sqrt(p)^2 = p, fabs(p)^2 = p^2, sin^2 + cos^2 = 1 have been applied; unit quaternion symbols are
             reduced modulo |q|^2 = 1, which is a real-radical principal ideal, so the remainder is a canonical form)
  UNKNOWN    the two sides are built from different opaque atoms: no verdict (never reported as a violation)

No sampling, no solver: equality of canonical forms only.
"""
from fractions import Fraction

import os
import time
from .poly import Poly, Atom, CFG, all_atoms, WorkExceeded

EQUAL, DIFFERENT, UNKNOWN = "equal", "different", "unknown"


def reduce_unit(p, quats):
    """Reduce p modulo |q|^2 - 1 for every 4-tuple of atoms in `quats` (leading variable = first atom)."""
    for q in quats:
        a = q[0]
        rest = Poly()
        for b in q[1:]:
            rest = rest + Poly.atom(b) * Poly.atom(b)
        rep = Poly.const(1) - rest          # a^2 -> 1 - b^2 - c^2 - d^2
        changed = True
        guard = 0
        while changed:
            guard += 1
            if guard > 64:
                break
            changed = False
            out = Poly()
            for m, c in p.t.items():
                e = 0
                for x, k in m:
                    if x is a:
                        e = k
                if e >= 2:
                    changed = True
                    m2 = tuple((x, k) if x is not a else (x, e % 2) for x, k in m if not (x is a and e % 2 == 0))
                    term = Poly({m2: c})
                    for _ in range(e // 2):
                        term = term * rep
                    out = out + term
                else:
                    out = out + Poly({m: c})
            p = out
    return p


def _neg_sqrt(p):
    """sqrt(u)^-k  ->  sqrt(u)^(k mod 2) * recip(u)^ceil(k/2): afterwards sqrt atoms only have exponent 0 or 1 and
    the recip atoms are cleared by cross-multiplication."""
    if not any(a.kind == "sqrt" and e < 0 for m in p.t for a, e in m):
        return p
    out = Poly()
    for m, c in p.t.items():
        term = Poly({tuple((a, e) for a, e in m if not (a.kind == "sqrt" and e < 0)): c})
        for a, e in m:
            if a.kind == "sqrt" and e < 0:
                k = -e
                u = a.key[0]
                term = term * (u.recip() ** ((k + 1) // 2))
                if k % 2:
                    term = term * Poly.atom(a)
        out = out + term
    return out


def _atom_relations(p):
    """Apply sqrt(x)^2 -> x, fabs(x)^2 -> x^2, sin(x)^2 -> 1 - cos(x)^2 (exponents >= 2, positive only)."""
    guard = 0
    while True:
        guard += 1
        if guard > 32:
            return p
        hit = None
        for m in p.t:
            for a, e in m:
                if e >= 2 and a.kind in ("sqrt", "fabs", "sin", "ind"):
                    hit = a
                    break
            if hit:
                break
        if hit is None:
            return p
        a = hit
        if a.kind == "ind":
            out = Poly()
            for m, c in p.t.items():
                m2 = tuple((x, (1 if x is a else k)) for x, k in m)
                out = out + Poly({m2: c})
            p = out
            continue
        if a.kind == "sqrt":
            rep = a.key[0]
        elif a.kind == "fabs":
            rep = a.key[0] * a.key[0]
        else:
            cosx = Poly.atom(Atom("cos", (a.key[0],)))
            rep = Poly.const(1) - cosx * cosx
        out = Poly()
        for m, c in p.t.items():
            e = 0
            for x, k in m:
                if x is a:
                    e = k
            if e >= 2:
                m2 = tuple((x, k) if x is not a else (x, e % 2) for x, k in m if not (x is a and e % 2 == 0))
                term = Poly({m2: c})
                for _ in range(e // 2):
                    term = term * rep
                out = out + term
            else:
                out = out + Poly({m: c})
        p = out


def _exact_div(A, u):
    """Quotient Q with A = Q * u for polynomials in the same atoms (non-negative exponents), by leading terms in a fixed
    monomial order; None when the division is not exact (or not attempted: sizes bounded)."""
    if not u.t or len(u.t) > 16 or len(A.t) > 600 or len(A.t) < len(u.t):
        return None
    for p in (A, u):
        for m in p.t:
            for a, e in m:
                if e < 0:
                    return None
    key = lambda m: tuple(sorted(((a.id, e) for a, e in m), reverse=True))
    lead = max(u.t, key=key)
    lc = u.t[lead]
    dl = dict(lead)
    rem = dict(A.t)
    q = {}
    steps = 0
    while rem:
        steps += 1
        if steps > 4000:
            return None
        m = max(rem, key=key)
        dm = dict(m)
        d = {}
        for a, e in dm.items():
            k = e - dl.get(a, 0)
            if k < 0:
                return None
            if k:
                d[a] = k
        if any(a not in dm for a in dl):
            return None
        dmono = tuple(sorted(d.items(), key=lambda z: z[0].id))
        c = Fraction(rem[m]) / Fraction(lc)
        c = int(c) if c.denominator == 1 else c
        q[dmono] = q.get(dmono, 0) + c
        sub = Poly({dmono: c}) * u
        for mm, cc in sub.t.items():
            v = rem.get(mm, 0) - cc
            if v == 0:
                rem.pop(mm, None)
            else:
                rem[mm] = v
    return Poly({m: c for m, c in q.items() if c != 0})


def _cancel_recips(p):
    if os.environ.get("VERIF_NO_CANCEL"):
        return p
    """recip(u)^k * A with u | A  ->  recip(u)^(k-1) * (A / u): common factors between a numerator and a reciprocal atom are
    cancelled (u * recip(u) = 1), so that e.g. (g.g) * sqrt(g.g)^-2 inside a radical becomes 1.  Exact polynomial division
    only; nothing is changed when the division is not exact."""
    guard = 0
    while guard < 16:
        guard += 1
        recs = []
        for m in p.t:
            for a, e in m:
                if a.kind == "recip" and e > 0 and isinstance(a.key[0], Poly) and a not in recs:
                    recs.append(a)
        changed = False
        for r in recs:
            u = r.key[0]
            groups = {}
            for m, c in p.t.items():
                k = dict(m).get(r, 0)
                if k > 0:
                    rest = tuple((a, e) for a, e in m if a is not r)
                    groups.setdefault(k, Poly())
                    groups[k] = groups[k] + Poly({rest: c})
            new_terms = None
            for k, A in groups.items():
                Q = _exact_div(A, u)
                if Q is not None:
                    if new_terms is None:
                        new_terms = Poly({m: c for m, c in p.t.items() if dict(m).get(r, 0) != k})
                    else:
                        new_terms = Poly({m: c for m, c in new_terms.t.items() if dict(m).get(r, 0) != k})
                    rk = Poly({((r, k - 1),): 1}) if k > 1 else Poly.const(1)
                    new_terms = new_terms + Q * rk
                    changed = True
                    break
            if changed:
                p = new_terms
                break
        if not changed:
            return p
    return p


def split_rational(p):
    """p = num / den, den = product over recip atoms (and atoms with negative exponents) of base^worst-exponent."""
    worst = {}
    for m in p.t:
        for a, e in m:
            if a.kind == "recip":
                if e > 0:
                    worst[a] = max(worst.get(a, 0), e)
            elif e < 0:
                worst[a] = max(worst.get(a, 0), -e)
    den = Poly.const(1)
    if not worst:
        return p, den
    for a, w in worst.items():
        base = a.key[0] if a.kind == "recip" else Poly.atom(a)
        den = den * (base ** w)
    num = Poly()
    for m, c in p.t.items():
        term = Poly.const(c)
        present = {}
        for a, e in m:
            if a in worst and (a.kind == "recip" or e < 0):
                present[a] = e if a.kind == "recip" else -e
            elif a.kind == "recip" and e < 0:
                term = term * (a.key[0] ** (-e))
            else:
                term = term * Poly({((a, e),): Fraction(1)})
        for a, w in worst.items():
            k = present.get(a, 0)
            base = a.key[0] if a.kind == "recip" else Poly.atom(a)
            term = term * (base ** (w - k))
        num = num + term
    return num, den


def has_overflow(p):
    return any(a.kind in ("mul", "bigmul") for a in all_atoms(p))


def opaque_atoms(p):
    return {a for a in all_atoms(p) if a.kind not in ("sym", "recip")}


def top_atoms(p):
    return {a for a in p.atoms() if a.kind not in ("sym", "series")}


MATRIX_FAMILIES = {"inv": 3, "solve": 4, "qrR": 4, "qrQ": 4, "sqrt_cov_pred": 3}


def generator(a):
    """Family of an opaque atom: atoms of one family with the same arguments are the 'same building block'.
    sin/cos/tan of one argument are one family (tan is rewritten, sin^2 + cos^2 = 1 is applied); the cells of one
    matrix factor (inverse, QR, solve) are one family."""
    k = a.kind
    if k in ("sin", "cos", "tan"):
        return ("trig", a.key[0])
    if k in MATRIX_FAMILIES:
        return (k, a.key[MATRIX_FAMILIES[k] - 1:] if k != "inv" else a.key[2:])
    if k == "ind":
        return ("cond", a.key[0])
    if k == "ite":
        return ("ite", a.key)
    return (k, a.key)


def generators(p):
    """Generators reachable from p: top-level atoms and, through trig/sqrt/recip arguments, nothing deeper (the
    arguments are part of the generator's identity)."""
    return {generator(a) for a in p.atoms() if a.kind not in ("sym", "series")}


def _rewrite_tan(a, b):
    """tan(u) -> sin(u)/cos(u) when sin(u) or cos(u) occurs on either side (keeps one trig family per argument canonical)."""
    from .poly import deep_subs
    args = set()
    tans = set()
    for x in (a, b):
        for at in all_atoms(x):
            if at.kind in ("sin", "cos"):
                args.add(at.key[0])
            elif at.kind == "tan":
                tans.add(at.key[0])
    hit = tans & args
    if not hit:
        return a, b, False

    def f(at):
        if at.kind == "tan" and at.key[0] in hit:
            return Poly.atom(Atom("sin", (at.key[0],))) * Poly.atom(Atom("cos", (at.key[0],))).recip()
        return None
    return deep_subs(a, f), deep_subs(b, f), True


_CANON_MEMO = {}


def _manifestly_positive(p):
    if not p.t or p.t.get((), 0) <= 0:
        return False
    for m, c in p.t.items():
        if c <= 0:
            return False
        for a, e in m:
            if e % 2 or a.kind != "sym":
                return False
    return True


def canon(p, depth=0, quats=(), lin=False):
    """Recursive normalisation: arguments of opaque atoms are normalised first (including the reduction modulo
    |q| = 1 when unit quaternions are declared); recip(N/D) becomes D * recip(N)."""
    if depth > 6 or not p.t:
        return p
    if all(a.kind == "sym" for a in p.atoms()):
        return reduce_unit(p, quats) if (quats and depth > 0) else p
    from .poly import rebuild
    qk = (tuple(quats), lin)

    def f(a):
        if a.kind == "sym":
            return None
        r = _CANON_MEMO.get((a, qk))
        if r is not None:
            return r
        newargs = tuple(canon(x, depth + 1, quats, lin) if isinstance(x, Poly) else x for x in a.key)
        if a.kind == "sqrt":
            # sqrt(N/D) = sqrt(N*D)/D when D is manifestly positive (even powers, positive coefficients, constant > 0)
            q = _atom_relations(newargs[0])
            num, den = split_rational(q)
            if den.const_value() != 1 and _manifestly_positive(den):
                r = rebuild("sqrt", (_atom_relations(num * den),)) * den.recip()
                _CANON_MEMO[(a, qk)] = r
                return r
        if a.kind == "ite":
            # if_else(c, x, y) = y + [c] (x - y) with the indicator [c] (idempotent): makes selections linear, so that
            # sum_k a_k if_else(c, x_k, 0) and if_else(c, sum_k a_k x_k, 0) share a canonical form
            c_, x_, y_ = newargs
            if lin and c_.const_value() is None:
                r = y_ + Poly.atom(Atom("ind", (c_,))) * (x_ - y_)
                _CANON_MEMO[(a, qk)] = r
                return r
        if a.kind == "recip":
            q = _atom_relations(newargs[0])
            num, den = split_rational(q)
            num = _atom_relations(num)
            r = den * num.recip() if num.t else Poly.atom(a)
        elif any(x is not y and x != y for x, y in zip(newargs, a.key)):
            r = rebuild(a.kind, newargs)
        else:
            r = Poly.atom(a)
        _CANON_MEMO[(a, qk)] = r
        return r
    changed = False
    for a in p.atoms():
        if a.kind != "sym":
            r = f(a)
            if r.single_atom() is not a:
                changed = True
    out = p.subs(f) if changed else p
    out = _atom_relations(out)
    out = _cancel_recips(_neg_sqrt(out)) if any(a.kind in ("recip",) or (a.kind == "sqrt" and e < 0) for m in out.t for a, e in m) else out
    if quats and depth > 0:
        out = reduce_unit(out, quats)
    return out


def normal(p, quats=(), lin=False):
    p = canon(p, 0, quats, lin)
    if quats:
        p = reduce_unit(p, quats)
    return p


STATS = {"decisions": 0, "timeouts": 0, "slowest_s": 0.0}
DECISION_SECONDS = float(os.environ.get("VERIF_DECISION_SECONDS", "60"))     # check.py raises it for the thorough tier


def decide(p, q, quats=(), maxdeg=None):
    """EQUAL / DIFFERENT / UNKNOWN.  A single decision is bounded in wall-clock time: UNKNOWN when the bound is hit
    (never a verdict), so that a check on an unforeseen program ends in ANALYSIS-INCOMPLETE instead of hanging."""
    old = CFG.maxdeg
    old_deadline = CFG.deadline
    if maxdeg:
        CFG.maxdeg = maxdeg
    t0 = time.process_time()
    if old_deadline is None:
        # after a decision has run out of time, later ones in this run get a short bound: one unforeseen program
        # must not cost (number of cells) x DECISION_SECONDS
        CFG.deadline = t0 + (DECISION_SECONDS if STATS["timeouts"] == 0 else max(5.0, DECISION_SECONDS / 8))
    try:
        return _decide(p, q, quats)
    except WorkExceeded:
        if old_deadline is not None:
            raise
        STATS["timeouts"] += 1
        return UNKNOWN
    finally:
        CFG.maxdeg = old
        CFG.deadline = old_deadline
        if old_deadline is None:
            STATS["decisions"] += 1
            STATS["slowest_s"] = max(STATS["slowest_s"], time.process_time() - t0)


def _unify_half_angles(a, b):
    """If sin/cos of an angle u and of u/2 both occur (on either side), express the full angle through the half
    angle: sin u = 2 sin(u/2) cos(u/2), cos u = 2 cos(u/2)^2 - 1 (exact)."""
    from .poly import deep_subs
    from fractions import Fraction as Fr
    for _ in range(3):
        args = set()
        for x in (a, b):
            for at in all_atoms(x):
                if at.kind in ("sin", "cos") and isinstance(at.key[0], Poly):
                    args.add(at.key[0])
        pairs = {u: u.scale(Fr(1, 2)) for u in args if u.scale(Fr(1, 2)) in args}
        if not pairs:
            return a, b, False

        def f(at):
            if at.kind in ("sin", "cos") and at.key[0] in pairs:
                h = pairs[at.key[0]]
                sh, ch = Poly.atom(Atom("sin", (h,))), Poly.atom(Atom("cos", (h,)))
                return (sh * ch).scale(2) if at.kind == "sin" else (ch * ch).scale(2) - Poly.const(1)
            return None
        a, b = deep_subs(a, f), deep_subs(b, f)
        return a, b, True
    return a, b, False


def _decide(p, q, quats):
    if p == q:
        return EQUAL
    a, b = normal(p, quats), normal(q, quats)
    if a == b:
        return EQUAL
    a2, b2, changed = _unify_half_angles(a, b)
    if changed:
        a, b = normal(a2, quats), normal(b2, quats)
        if a == b:
            return EQUAL
    a2, b2, changed = _rewrite_tan(a, b)
    if changed:
        a, b = normal(a2, quats), normal(b2, quats)
        if a == b:
            return EQUAL
    a0, b0 = a, b
    # clear denominators
    depth = 0
    while depth < 4:
        depth += 1
        an, ad = split_rational(a)
        bn, bd = split_rational(b)
        if ad.const_value() == 1 and bd.const_value() == 1:
            break
        if ad == bd:
            # equal denominators: the numerators decide (no cross-multiplication: it only inflates both sides)
            l, r = normal(an, quats), normal(bn, quats)
        else:
            l = normal(an * bd, quats)
            r = normal(bn * ad, quats)
        if l == r:
            return EQUAL
        a, b = l, r
        if not any(x.kind == "recip" or e < 0 for m in list(a.t) + list(b.t) for x, e in m):
            break
    # second stage: linearise selections through indicators (bounded by a work budget)
    n_ite = len({x for y in (a0, b0) for x in all_atoms(y) if x.kind == "ite"})
    if 0 < n_ite <= 8:
        from .poly import WorkExceeded
        old_work = CFG.work
        CFG.work = 3000000
        try:
            la, lb = normal(a0, quats, True), normal(b0, quats, True)
            if la == lb:
                return EQUAL
            ln_, ld_ = split_rational(la)
            rn_, rd_ = split_rational(lb)
            if ld_.const_value() != 1 or rd_.const_value() != 1:
                la, lb = normal(ln_ * rd_, quats, True), normal(rn_ * ld_, quats, True)
                if la == lb:
                    return EQUAL
            if not any(x.kind == "ite" for y in (la, lb) for x in y.atoms()):
                a, b = la, lb          # the linearised forms are the most canonical ones: judge on them
        except WorkExceeded:
            pass
        finally:
            CFG.work = old_work
    if has_overflow(a) or has_overflow(b):
        return UNKNOWN
    d = a - b
    if d.is_zero():
        return EQUAL
    # same building blocks on both sides?
    ga, gb = generators(a), generators(b)
    if any(x.kind == "sign" for y in (a, b) for x in all_atoms(y)):
        # sign(u) is not an independent generator (sign(u)^2 = 1 off u = 0, sign(u) u = |u|): a differing normal form
        # does not show a differing value; the callers split on the sign cases (and on u = 0) instead
        return UNKNOWN
    if ga == gb:
        # series atoms are not counted as generators (two table entries are different functions), but a side that carries
        # a table entry the other side does not mention is being compared with something that entry is a function OF:
        # no independence argument there
        sa_ = {x for x in all_atoms(a) if x.kind == "series"}
        sb_ = {x for x in all_atoms(b) if x.kind == "series"}
        if sa_ != sb_:
            return DIFFERENT if _one_series_swapped(d) else UNKNOWN
        return DIFFERENT
    if _free_trig_ring(a, b, quats) or (not quats and _radical_trig_ring(a, b)):
        return DIFFERENT
    if not quats and (_nonzero_radical_multiple(d)):
        return DIFFERENT
    return UNKNOWN


def _closed_constant(p):
    """a polynomial in pi and rationals only"""
    return all(all(a.kind == "sym" and a.key[0] == "pi" for a, e in m) for m in p.t)


def _even_positive_form(p):
    """non-constant sum of even-power monomials of symbols with positive coefficients: takes arbitrarily large values"""
    if not p.t:
        return False
    nonconst = False
    for m, c in p.t.items():
        if c <= 0:
            return False
        for a, e in m:
            if a.kind != "sym" or a.key[0] == "pi" or e % 2 or e < 0:
                return False
        nonconst |= bool(m)
    return nonconst


def _one_series_swapped(d):
    """d = c * (s1 - s2) with c a non-zero form free of series atoms and s1, s2 two table functions of one argument
    family: the same entry at arguments r1 P and r2 P (rationals r1 != r2, P not constant), or two different entries
    (different formula class, or the plain and the squared-argument version of one) at the same argument.  Every table
    entry is a non-constant analytic function, so f(r1 u) = f(r2 u) for all u, or f(u) = f(sqrt u), would force f constant;
    different formula classes are different functions.  Then s1 - s2 is not identically zero and neither is d."""
    ser = [x for x in d.atoms() if x.kind == "series"]
    if len(ser) != 2 or any(x.kind == "series" for y in d.atoms() if y.kind != "series" for x in all_atoms(Poly.atom(y))):
        return False
    s1, s2 = ser
    c1, c2, c0 = Poly(), Poly(), Poly()
    for m, c in d.t.items():
        e1 = sum(e for x, e in m if x is s1)
        e2 = sum(e for x, e in m if x is s2)
        rest = tuple((x, e) for x, e in m if x is not s1 and x is not s2)
        if (e1, e2) == (1, 0):
            c1 = c1 + Poly({rest: c})
        elif (e1, e2) == (0, 1):
            c2 = c2 + Poly({rest: c})
        elif (e1, e2) == (0, 0):
            c0 = c0 + Poly({rest: c})
        else:
            return False
    if c0.t or not c1.t or (c1 + c2).t:
        return False
    k1, q1, p1 = s1.key
    k2, q2, p2 = s2.key
    if not isinstance(p1, Poly) or not isinstance(p2, Poly) or p1.const_value() is not None or p2.const_value() is not None:
        return False
    if (k1, q1) == (k2, q2):
        # same function at u and at fmin(u, c), u a sum of even powers with positive coefficients (unbounded above): for
        # u > c the second is the constant f(c), and f(u) = f(c) on a half line would make the analytic f constant
        for pa, pb in ((p1, p2), (p2, p1)):
            at = pb.single_atom()
            if at is not None and pb == Poly.atom(at) and at.kind == "fmin" and len(at.key) == 2:
                others = [k for k in at.key if isinstance(k, Poly) and not _closed_constant(k)]
                consts = [k for k in at.key if isinstance(k, Poly) and _closed_constant(k)]
                if len(others) == 1 and len(consts) == 1 and others[0] == pa and _even_positive_form(pa):
                    return True
        # same function: arguments must be different rational multiples of one polynomial
        if len(p1.t) != len(p2.t) or set(p1.t) != set(p2.t):
            return False
        ratios = {p1.t[m] / p2.t[m] for m in p1.t}
        return len(ratios) == 1 and next(iter(ratios)) != 1
    return p1 == p2


def _rational_in_symbols(p, depth=0):
    """p is built from symbols, reciprocals of such expressions and nested radicals of them only (a non-zero normal form of
    this kind is taken not to vanish identically)."""
    if depth > 3:
        return False
    for m in p.t:
        for x, e in m:
            if x.kind == "sym":
                continue
            if x.kind in ("recip", "sqrt") and isinstance(x.key[0], Poly) and x.key[0].t and _rational_in_symbols(x.key[0], depth + 1):
                continue
            return False
    return True


def _nonzero_radical_multiple(d):
    """d = S * P with S one monomial of sqrt / fabs atoms (of polynomials in symbols) common to every term and P a non-zero
    polynomial in symbols: S vanishes only on a null set and P is not the zero polynomial, so d is not identically 0 -
    the two sides differ even though one of them (typically the constant 0) mentions none of the radicals."""
    if not d.t:
        return False
    rad = None
    for m in d.t:
        r = []
        for at, e in m:
            if at.kind == "sym":
                if e < 0:
                    return False
                continue
            if at.kind == "recip" and e > 0 and isinstance(at.key[0], Poly) and at.key[0].t and _rational_in_symbols(at.key[0]):
                r.append((at.id, e))          # a non-vanishing common factor as well
                continue
            if at.kind in ("sqrt", "fabs") and e > 0 and isinstance(at.key[0], Poly) and at.key[0].t and _rational_in_symbols(at.key[0]):
                r.append((at.id, e))
                continue
            return False
        r = tuple(sorted(r))
        if rad is None:
            rad = r
        elif rad != r:
            return False
    return True


def _radical_trig_ring(a, b):
    """True when every atom of a and b is a symbol, ONE radical T = sqrt(P) with P a polynomial in symbols only, or
    sin/cos of q*T for one rational q (sin to degree <= 1), all with non-negative exponents.  Over K = Q(symbols), T is
    algebraic (T^2 = P, applied by the normaliser) and e^{i q T} is transcendental over K(T), so K(T)[cos, sin]/(sin^2 +
    cos^2 - 1) embeds in the functions of the symbols and {T^j cos^n, T^j sin cos^n : j in {0,1}} is a basis: different
    normal forms are different functions (not identically equal), whatever atoms each side happens to mention."""
    T = None
    q = None
    for p in (a, b):
        for m in p.t:
            for at, e in m:
                if e < 0:
                    return False
                if at.kind == "sym":
                    continue
                if at.kind == "sqrt":
                    arg = at.key[0]
                    if not isinstance(arg, Poly) or any(x.kind != "sym" or ee < 0 for mm in arg.t for x, ee in mm) or e > 1:
                        return False
                    if T is None:
                        T = at
                    elif T is not at:
                        return False
                    continue
                if at.kind in ("sin", "cos"):
                    if at.kind == "sin" and e > 1:
                        return False
                    arg = at.key[0]
                    if not isinstance(arg, Poly) or len(arg.t) != 1:
                        return False
                    (mono, c), = arg.t.items()
                    if len(mono) != 1 or mono[0][1] != 1 or mono[0][0].kind != "sqrt":
                        return False
                    if T is None:
                        T = mono[0][0]
                    elif T is not mono[0][0]:
                        return False
                    if q is None:
                        q = c
                    elif q != c:
                        return False
                    continue
                return False
    if T is None:
        return False
    arg = T.key[0]
    return isinstance(arg, Poly) and all(x.kind == "sym" and ee > 0 for mm in arg.t for x, ee in mm) and len(arg.t) >= 1


def _free_trig_ring(a, b, quats=()):
    """True when every atom of a and b is a symbol or sin/cos of (a rational multiple of) a bare symbol, and sin occurs to
    degree <= 1.  Then both are in Q[x][cos x_k, sin x_k]/(sin^2 + cos^2 - 1) written on the basis {cos^n, sin cos^n},
    which is a basis of that ring and the ring embeds in the functions of x: different normal forms are different
    functions, whether or not the two sides mention the same atoms (e.g. a non-zero form against 0).  One multiple per
    symbol only (cos(x/2) and cos(x) together are related by the double-angle formula).
    With unit-norm tuples (`quats`): the forms must be reduced modulo |q|^2 = 1 (leading component to degree <= 1).  The
    ideal generated by the sphere and circle polynomials on disjoint variables is prime with Zariski-dense real points
    and these polynomials, having coprime leading monomials, are a Groebner basis of it: a non-zero reduced form is a
    function that does not vanish on the product of the spheres."""
    mult = {}
    lead = {q[0] for q in quats}
    qatoms = {x for q in quats for x in q}
    for p in (a, b):
        for m in p.t:
            for at, e in m:
                if at.kind == "sym":
                    if e < 0 or (at in lead and e > 1):
                        return False
                    continue
                if at.kind not in ("sin", "cos") or e < 0 or (at.kind == "sin" and e > 1):
                    return False
                arg = at.key[0]
                if not isinstance(arg, Poly) or len(arg.t) != 1:
                    return False
                (mono, c), = arg.t.items()
                if c == 0 or len(mono) != 1 or mono[0][1] != 1 or mono[0][0].kind != "sym" or mono[0][0].key[0] == "pi" or mono[0][0] in qatoms:
                    return False
                if mult.setdefault(mono[0][0], c) != c:
                    return False
    return True


def decide_mat(A, B, quats=()):
    """-> (verdict, first differing cell description)"""
    if A.shape != B.shape:
        return DIFFERENT, "shape %s vs %s" % (A.shape, B.shape)
    worst = EQUAL
    where = None
    for i in range(A.r):
        for j in range(A.c):
            v = decide(A.cells[i][j], B.cells[i][j], quats)
            if v == DIFFERENT:
                return DIFFERENT, "cell (%d,%d): %s  vs  %s" % (i, j, _s(A.cells[i][j]), _s(B.cells[i][j]))
            if v == UNKNOWN and worst == EQUAL:
                worst = UNKNOWN
                where = "cell (%d,%d): %s  vs  %s" % (i, j, _s(A.cells[i][j]), _s(B.cells[i][j]))
    return worst, where


def _s(p, n=140):
    from .poly import brief
    s = brief(p, 4, 2)
    return s if len(s) <= n else s[: n - 3] + "..."
