"""Series-table formulas as canonical rational functions of {x, sin x, cos x, tan(x/4), atan x}.

The formula of a table entry is read from the sympy expression *source* in cyecca/symbolic.py (never evaluated by
sympy); the reference formula of a rule is a string in the same little language.  Both are mapped to a Poly by the
evaluator below and compared with decide(), so `(1 - cos_x) / x2` and `(1-cos(x))/x**2` are the same formula while
`(1 - cos(x))/x` is a different one.
"""
import ast
from fractions import Fraction

from . import casadi_model as cm
from .decide import decide, EQUAL
from .poly import Poly

X = Poly.sym("x~formula", None)


class FormulaError(Exception):
    pass


FUNCS = {"sin": "sin", "cos": "cos", "tan": "tan", "atan": "atan", "sqrt": "sqrt", "asin": "asin", "acos": "acos", "exp": "exp", "log": "log"}


def ev(node):
    if isinstance(node, ast.Expression):
        return ev(node.body)
    if isinstance(node, ast.Constant):
        if isinstance(node.value, (int, float)) and not isinstance(node.value, bool):
            return Poly.const(node.value)
        raise FormulaError("constant %r" % (node.value,))
    if isinstance(node, ast.Name):
        if node.id in ("x",):
            return X
        raise FormulaError("free name %s" % node.id)
    if isinstance(node, ast.UnaryOp) and isinstance(node.op, ast.USub):
        return -ev(node.operand)
    if isinstance(node, ast.UnaryOp) and isinstance(node.op, ast.UAdd):
        return ev(node.operand)
    if isinstance(node, ast.BinOp):
        l, r = ev(node.left), ev(node.right)
        if isinstance(node.op, ast.Add):
            return l + r
        if isinstance(node.op, ast.Sub):
            return l - r
        if isinstance(node.op, ast.Mult):
            return l * r
        if isinstance(node.op, ast.Div):
            return cm.pdiv(l, r)
        if isinstance(node.op, ast.Pow):
            c = r.const_value()
            if c is not None and c.denominator == 1:
                return l ** int(c)
            if c == Fraction(1, 2):
                return cm.un("sqrt", l)
            raise FormulaError("non-integer power")
        raise FormulaError("operator %s" % type(node.op).__name__)
    if isinstance(node, ast.Call):
        f = node.func
        name = f.attr if isinstance(f, ast.Attribute) else f.id if isinstance(f, ast.Name) else None
        if name in ("simplify", "expand", "factor", "nsimplify", "S", "sympify") and len(node.args) == 1:
            return ev(node.args[0])
        if name == "Rational" and len(node.args) == 2:
            return cm.pdiv(ev(node.args[0]), ev(node.args[1]))
        if name in FUNCS and len(node.args) == 1:
            return cm.un(FUNCS[name], ev(node.args[0]))
        raise FormulaError("call %s" % ast.unparse(f))
    raise FormulaError("node %s" % type(node).__name__)


def formula(text_or_node):
    node = ast.parse(text_or_node, mode="eval") if isinstance(text_or_node, str) else text_or_node
    return ev(node)


class SeriesTable:
    """Formulas of all table entries + canonical representative of each formula class."""

    def __init__(self, entries):
        self.entries = entries
        self.formula = {}
        self.errors = {}
        for e in entries:
            try:
                self.formula[e.key] = formula(e.expr)
            except FormulaError as ex:
                self.errors[e.key] = str(ex)
        self.canon = {}
        reps = []
        for e in entries:
            if e.key not in self.formula:
                self.canon[e.key] = e.key
                continue
            for r in reps:
                if decide(self.formula[e.key], self.formula[r]) == EQUAL:
                    self.canon[e.key] = r
                    break
            else:
                reps.append(e.key)
                self.canon[e.key] = e.key

    def find(self, text):
        """Canonical key of the entry whose formula equals `text`, or None."""
        want = formula(text)
        for k, f in self.formula.items():
            if decide(f, want) == EQUAL:
                return self.canon[k]
        return None

    def describe(self, key):
        for e in self.entries:
            if e.key == key:
                return ast.unparse(e.expr)
        return "?"


def closed_form(p, table):
    """Replace every series atom by the closed formula of its table entry (the branch taken away from the
    small-argument switch), applied to sqrt(arg) for the squared table.  The result is a rational function of the
    input symbols, theta = sqrt(.) atoms and sin/cos/tan/atan of them, on which decide() is exact."""
    from .poly import deep_subs, Atom

    def f(a):
        if a.kind != "series":
            return None
        key, squared, arg = a.key
        arg = closed_form(arg, table)
        fx = table.formula.get(key)
        if fx is None:
            return None
        xval = cm.un("sqrt", arg) if squared else arg
        xa = X.single_atom()
        return deep_subs(fx, lambda b: xval if b is xa else None)
    return deep_subs(p, f)


def closed_mat(M, table):
    return cm.MatVal(M.r, M.c, [[closed_form(p, table) if p.t else p for p in row] for row in M.cells], M.kind)
