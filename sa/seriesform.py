"""Series-table formulas as canonical rational functions of {x, sin x, cos x, tan(x/4), atan x}.

The formula of a table entry is read from the sympy expression *source* in cyecca/symbolic.py (never evaluated by
sympy); the reference formula of a rule is a string in the same little language.  Both are mapped to a Poly by the
evaluator below and compared with decide(), so `(1 - cos_x) / x2` and `(1-cos(x))/x**2` are the same formula while
`(1 - cos(x))/x` is a different one.
"""
import ast
from fractions import Fraction

from . import casadi_model as cm
from .decide import decide, EQUAL
from .poly import Poly

X = Poly.sym("x~formula", None)


class FormulaError(Exception):
    pass


FUNCS = {"sin": "sin", "cos": "cos", "tan": "tan", "atan": "atan", "sqrt": "sqrt", "asin": "asin", "acos": "acos", "exp": "exp", "log": "log"}


def ev(node):
    if isinstance(node, ast.Expression):
        return ev(node.body)
    if isinstance(node, ast.Constant):
        if isinstance(node.value, (int, float)) and not isinstance(node.value, bool):
            return Poly.const(node.value)
        raise FormulaError("constant %r" % (node.value,))
    if isinstance(node, ast.Name):
        if node.id in ("x",):
            return X
        raise FormulaError("free name %s" % node.id)
    if isinstance(node, ast.UnaryOp) and isinstance(node.op, ast.USub):
        return -ev(node.operand)
    if isinstance(node, ast.UnaryOp) and isinstance(node.op, ast.UAdd):
        return ev(node.operand)
    if isinstance(node, ast.BinOp):
        l, r = ev(node.left), ev(node.right)
        if isinstance(node.op, ast.Add):
            return l + r
        if isinstance(node.op, ast.Sub):
            return l - r
        if isinstance(node.op, ast.Mult):
            return l * r
        if isinstance(node.op, ast.Div):
            return cm.pdiv(l, r)
        if isinstance(node.op, ast.Pow):
            c = r.const_value()
            if c is not None and c.denominator == 1:
                return l ** int(c)
            if c == Fraction(1, 2):
                return cm.un("sqrt", l)
            raise FormulaError("non-integer power")
        raise FormulaError("operator %s" % type(node.op).__name__)
    if isinstance(node, ast.Call):
        f = node.func
        name = f.attr if isinstance(f, ast.Attribute) else f.id if isinstance(f, ast.Name) else None
        if name in ("simplify", "expand", "factor", "nsimplify", "S", "sympify") and len(node.args) == 1:
            return ev(node.args[0])
        if name == "Rational" and len(node.args) == 2:
            return cm.pdiv(ev(node.args[0]), ev(node.args[1]))
        if name in FUNCS and len(node.args) == 1:
            return cm.un(FUNCS[name], ev(node.args[0]))
        raise FormulaError("call %s" % ast.unparse(f))
    raise FormulaError("node %s" % type(node).__name__)


def formula(text_or_node):
    node = ast.parse(text_or_node, mode="eval") if isinstance(text_or_node, str) else text_or_node
    return ev(node)


class SeriesTable:
    """Formulas of all table entries + canonical representative of each formula class."""

    def __init__(self, entries):
        self.entries = entries
        self.formula = {}
        self.errors = {}
        for e in entries:
            try:
                self.formula[e.key] = formula(e.expr)
            except FormulaError as ex:
                self.errors[e.key] = str(ex)
        self.canon = {}
        reps = []
        for e in entries:
            if e.key not in self.formula:
                self.canon[e.key] = e.key
                continue
            for r in reps:
                if decide(self.formula[e.key], self.formula[r]) == EQUAL:
                    self.canon[e.key] = r
                    break
            else:
                reps.append(e.key)
                self.canon[e.key] = e.key

    def find(self, text):
        """Canonical key of the entry whose formula equals `text`, or None."""
        want = formula(text)
        for k, f in self.formula.items():
            if decide(f, want) == EQUAL:
                return self.canon[k]
        return None

    def expansion(self, key):
        if not hasattr(self, "_exp"):
            self._exp = {}
        if key not in self._exp:
            self._exp[key] = laurent(self.formula[key]) if key in self.formula else None
        return self._exp[key]

    def valuation(self, key):
        L = self.expansion(key)
        return None if L is None else L.val

    def limit(self, key):
        """Limit of the formula at x = 0 (None if it has a pole)."""
        L = self.expansion(key)
        if L is None:
            raise FormulaError("unreadable formula %r" % key)
        if L.val < 0:
            return None
        return L.coeff(0)

    def describe(self, key):
        for e in self.entries:
            if e.key == key:
                return ast.unparse(e.expr)
        return "?"


def closed_form(p, table):
    """Replace every series atom by the closed formula of its table entry (the branch taken away from the
    small-argument switch), applied to sqrt(arg) for the squared table.  The result is a rational function of the
    input symbols, theta = sqrt(.) atoms and sin/cos/tan/atan of them, on which decide() is exact."""
    from .poly import deep_subs, Atom

    def f(a):
        if a.kind != "series":
            return None
        key, squared, arg = a.key
        arg = closed_form(arg, table)
        fx = table.formula.get(key)
        if fx is None:
            return None
        if arg.is_zero():
            # the argument is the constant 0: the Taylor branch is selected and returns the limit of the formula
            try:
                L = table.limit(key)
            except FormulaError:
                L = None
            if L is None:
                return Poly.atom(Atom("series_pole", (key, squared)))
            return Poly.const(L)
        xval = cm.un("sqrt", arg) if squared else arg
        xa = X.single_atom()
        return deep_subs(fx, lambda b: xval if b is xa else None)
    return deep_subs(p, f)


def closed_mat(M, table):
    return cm.MatVal(M.r, M.c, [[closed_form(p, table) if p.t else p for p in row] for row in M.cells], M.kind)


# --------------------------------------------------------------------------- Laurent expansion about x = 0
# Exact power-series arithmetic over Q, used to know (i) whether a table formula has a removable singularity at 0
# and (ii) its limit there.  This is computed from the formula source; it is NOT what sympy returns at run time.

ORDER = 10


class Laurent:
    """x^val * (c0 + c1 x + ... ), c0 != 0 unless the series is zero to the working order."""

    def __init__(self, val, coeffs):
        coeffs = list(coeffs)[:ORDER]
        while coeffs and coeffs[0] == 0:
            coeffs.pop(0)
            val += 1
        self.val = val if coeffs else 0
        self.c = coeffs

    def is_zero(self):
        return not self.c

    def coeff(self, k):
        i = k - self.val
        return self.c[i] if 0 <= i < len(self.c) else Fraction(0)

    def __add__(a, b):
        if a.is_zero():
            return b
        if b.is_zero():
            return a
        v = min(a.val, b.val)
        n = ORDER
        return Laurent(v, [a.coeff(v + i) + b.coeff(v + i) for i in range(n)])

    def __neg__(a):
        return Laurent(a.val, [-x for x in a.c])

    def __sub__(a, b):
        return a + (-b)

    def __mul__(a, b):
        if a.is_zero() or b.is_zero():
            return Laurent(0, [])
        out = [Fraction(0)] * ORDER
        for i, x in enumerate(a.c):
            for j, y in enumerate(b.c):
                if i + j < ORDER:
                    out[i + j] += x * y
        return Laurent(a.val + b.val, out)

    def scale(a, k):
        return Laurent(a.val, [x * k for x in a.c])

    def inv(a):
        if a.is_zero():
            raise FormulaError("division by a series that vanishes to the working order")
        b = [Fraction(1) / a.c[0]]
        for n in range(1, ORDER):
            s = Fraction(0)
            for k in range(1, n + 1):
                if k < len(a.c):
                    s += a.c[k] * b[n - k]
            b.append(-s / a.c[0])
        return Laurent(-a.val, b)

    def pow(a, e):
        if e < 0:
            return a.inv().pow(-e)
        r = Laurent(0, [Fraction(1)])
        for _ in range(e):
            r = r * a
        return r


def _compose(coefs, u):
    """sum_k coefs[k] u^k for a series u with positive valuation."""
    if not u.is_zero() and u.val <= 0:
        raise FormulaError("composition with a series that does not vanish at 0")
    r = Laurent(0, [])
    p = Laurent(0, [Fraction(1)])
    for c in coefs:
        if c != 0:
            r = r + p.scale(c)
        p = p * u
        if p.is_zero():
            break
    return r


def _fact(n):
    r = 1
    for i in range(2, n + 1):
        r *= i
    return r


_SIN = [Fraction(0) if k % 2 == 0 else Fraction((-1) ** (k // 2), _fact(k)) for k in range(2 * ORDER)]
_COS = [Fraction(0) if k % 2 == 1 else Fraction((-1) ** (k // 2), _fact(k)) for k in range(2 * ORDER)]
_ATAN = [Fraction(0) if k % 2 == 0 else Fraction((-1) ** (k // 2), k) for k in range(2 * ORDER)]


def laurent(p):
    """Laurent expansion of a formula value (Poly over the formula atoms) about x = 0."""
    xa = X.single_atom()
    total = Laurent(0, [])
    for m, c in p.t.items():
        term = Laurent(0, [Fraction(c)])
        for a, e in m:
            term = term * laurent_atom(a, xa).pow(e)
        total = total + term
    return total


def laurent_atom(a, xa):
    if a is xa:
        return Laurent(1, [Fraction(1)])
    if a.kind == "sym":
        raise FormulaError("free symbol in formula")
    if a.kind == "recip":
        return laurent(a.key[0]).inv()
    u = laurent(a.key[0])
    if a.kind == "sin":
        return _compose(_SIN, u)
    if a.kind == "cos":
        return _compose(_COS, u)
    if a.kind == "tan":
        return _compose(_SIN, u) * _compose(_COS, u).inv()
    if a.kind == "atan":
        return _compose(_ATAN, u)
    raise FormulaError("no series rule for %s" % a.kind)


def expansion(table, key):
    f = table.formula.get(key)
    if f is None:
        raise FormulaError("unreadable formula %r" % key)
    return laurent(f)
