"""Canonical value numbers: Laurent polynomials over Q in interned atoms.

An *atom* is either an input symbol (kind 'sym') or an opaque operator node
(kind = operator name, key = tuple of argument value numbers / constants).
A *Poly* is a dict  monomial -> Fraction,  a monomial being a tuple of
(atom, integer exponent) pairs sorted by atom id.  Two abstract values are the
same value number iff their Polys are equal as dicts.  Nothing here evaluates,
simplifies heuristically, or calls a solver: it is the commutative-ring normal
form and nothing else (DESIGN.md section 2, item 3).
"""
from fractions import Fraction


class Atom:
    __slots__ = ("kind", "key", "id", "_deps")
    _tab = {}
    _n = 0

    def __new__(cls, kind, key):
        k = (kind, key)
        a = cls._tab.get(k)
        if a is None:
            a = object.__new__(cls)
            a.kind = kind
            a.key = key
            Atom._n += 1
            a.id = Atom._n
            a._deps = None
            cls._tab[k] = a
        return a

    def __repr__(self):
        if self.kind == "sym":
            n, i = self.key
            n = n.split("#")[0]
            return n if i is None else "%s[%d]" % (n, i)
        return "%s(%s)" % (self.kind, ",".join(_short(x) for x in self.key))

    def __lt__(self, o):
        return self.id < o.id

    def __hash__(self):
        return self.id

    @property
    def symname(self):
        return self.key[0].split("#")[0] if self.kind == "sym" else None


def _short(x):
    if isinstance(x, Poly):
        return brief(x, 3, 1)
    s = repr(x)
    return s if len(s) < 60 else s[:57] + "..."


def brief(p, maxterms=4, depth=2):
    """Bounded-size rendering of a polynomial (never walks the whole DAG)."""
    if not p.t:
        return "0"
    out = []
    for k, (m, c) in enumerate(p.t.items()):
        if k >= maxterms:
            out.append("...(%d terms)" % len(p.t))
            break
        parts = []
        for a, e in m:
            if a.kind == "sym":
                s = repr(a)
            elif depth <= 0:
                s = a.kind + "(..)"
            else:
                s = "%s(%s)" % (a.kind, ",".join(brief(x, 2, depth - 1) if isinstance(x, Poly) else str(x) for x in a.key[:4]) + (",.." if len(a.key) > 4 else ""))
            parts.append(s if e == 1 else "%s^%d" % (s, e))
        mon = "*".join(parts)
        if not mon:
            out.append(str(c))
        elif c == 1:
            out.append(mon)
        elif c == -1:
            out.append("-" + mon)
        else:
            out.append("%s*%s" % (c, mon))
    return " + ".join(out)


class DegreeOverflow(Exception):
    pass


class WorkExceeded(Exception):
    """Raised when an optional work budget (CFG.work) is exhausted; used to bound exploratory normalisations."""


class _Cfg:
    maxdeg = 12
    maxterms = 60000
    overflow_atoms = 0
    work = None
    deadline = None      # CPU-time limit (time.process_time(): not affected by machine load) for the decision in progress; polled every ~200k term operations
    ticks = 0
    budget = None        # CPU-time limit (absolute time.process_time()) for the whole check; polled every ~2M term operations
    bticks = 0


CFG = _Cfg()


class BudgetExceeded(Exception):
    """The CPU-time budget of the whole check is used up (an unforeseen program made the value numbers explode outside any
    single bounded decision).  The check stops with what it has decided so far and ANALYSIS-INCOMPLETE."""


def _poll_deadline():
    import time
    CFG.ticks = 0
    if time.process_time() > CFG.deadline:
        raise WorkExceeded()


def _poll_budget():
    import time
    CFG.bticks = 0
    if CFG.budget is not None and time.process_time() > CFG.budget:
        CFG.budget = None          # raise once; the handler writes the report
        raise BudgetExceeded()

_ONE = 1
_ZERO = 0


def _nz(c):
    """Keep integer-valued coefficients as Python ints (much faster than Fraction arithmetic)."""
    if type(c) is Fraction and c.denominator == 1:
        return c.numerator
    return c


def to_frac(c):
    if isinstance(c, Fraction):
        return _nz(c)
    if isinstance(c, bool):
        return int(c)
    if isinstance(c, int):
        return c
    if isinstance(c, float):
        if c != c or c in (float("inf"), float("-inf")):
            raise ValueError("non-finite constant")
        return _nz(Fraction(repr(c)))
    raise TypeError("not a number: %r" % (c,))


class Poly:
    __slots__ = ("t", "_h")

    def __init__(self, t=None):
        self.t = t if t is not None else {}
        self._h = None

    # -- constructors
    @staticmethod
    def const(c):
        c = to_frac(c)
        return Poly({(): c}) if c != 0 else Poly()

    @staticmethod
    def atom(a):
        return Poly({((a, 1),): _ONE})

    @staticmethod
    def sym(name, idx=None):
        return Poly.atom(Atom("sym", (name, idx)))

    # -- identity
    def key(self):
        if self._h is None:
            self._h = frozenset(self.t.items())
        return self._h

    def __eq__(self, o):
        return isinstance(o, Poly) and self.t == o.t

    def __ne__(self, o):
        return not self.__eq__(o)

    def __hash__(self):
        return hash(self.key())

    def __bool__(self):
        return bool(self.t)

    # -- queries
    def is_zero(self):
        return not self.t

    def is_const(self):
        return all(m == () for m in self.t)

    def cval(self):
        return self.t.get((), _ZERO)

    def const_value(self):
        """Fraction if this is a constant polynomial else None."""
        if not self.t:
            return _ZERO
        if len(self.t) == 1 and () in self.t:
            return self.t[()]
        return None

    def single_atom(self):
        """The atom a if self == 1*a^1, else None."""
        if len(self.t) == 1:
            (m, c), = self.t.items()
            if c == 1 and len(m) == 1 and m[0][1] == 1:
                return m[0][0]
        return None

    def signed_atom(self):
        """(sign, atom) if self == +-a else None."""
        if len(self.t) == 1:
            (m, c), = self.t.items()
            if c in (1, -1) and len(m) == 1 and m[0][1] == 1:
                return (int(c), m[0][0])
        return None

    def atoms(self):
        return {a for m in self.t for a, _ in m}

    def degree(self):
        return max((sum(abs(e) for _, e in m) for m in self.t), default=0)

    # -- ring operations
    def __add__(s, o):
        if not o.t:
            return s
        if not s.t:
            return o
        if CFG.work is not None:
            CFG.work -= len(o.t) + (len(s.t) >> 3)
            if CFG.work < 0:
                raise WorkExceeded()
        if CFG.deadline is not None:
            CFG.ticks += len(o.t) + (len(s.t) >> 3)
            if CFG.ticks > 200000:
                _poll_deadline()
        t = dict(s.t)
        for m, c in o.t.items():
            v = t.get(m, _ZERO) + c
            if v == 0:
                t.pop(m, None)
            else:
                t[m] = v if type(v) is int else _nz(v)
        return Poly(t)

    def __neg__(s):
        return Poly({m: -c for m, c in s.t.items()})

    def __sub__(s, o):
        return s + (-o)

    def scale(s, c):
        c = to_frac(c)
        if c == 0:
            return Poly()
        if c == 1:
            return s
        if type(c) is int:
            return Poly({m: v * c for m, v in s.t.items()})
        return Poly({m: _nz(v * c) for m, v in s.t.items()})

    def __mul__(s, o):
        if not s.t or not o.t:
            return Poly()
        if len(s.t) == 1 and () in s.t:
            return o.scale(s.t[()])
        if len(o.t) == 1 and () in o.t:
            return s.scale(o.t[()])
        if CFG.work is not None:
            CFG.work -= len(s.t) * len(o.t)
            if CFG.work < 0:
                raise WorkExceeded()
        if CFG.deadline is not None:
            CFG.ticks += len(s.t) * len(o.t)
            if CFG.ticks > 200000:
                _poll_deadline()
        CFG.bticks += len(s.t) * len(o.t) + 1
        if CFG.bticks > 2000000:
            _poll_budget()
        if len(s.t) * len(o.t) > CFG.maxterms * 8:
            CFG.overflow_atoms += 1
            return opaque("bigmul", s, o)
        t = {}
        md = CFG.maxdeg
        for m1, c1 in s.t.items():
            d1 = dict(m1)
            for m2, c2 in o.t.items():
                if not m2:
                    m = m1
                elif not m1:
                    m = m2
                else:
                    d = dict(d1)
                    for a, e in m2:
                        v = d.get(a, 0) + e
                        if v == 0:
                            d.pop(a, None)
                        else:
                            d[a] = v
                    m = tuple(sorted(d.items(), key=_mkey))
                deg = 0
                for _, e in m:
                    deg += e if e > 0 else -e
                if deg > md:
                    CFG.overflow_atoms += 1
                    return opaque("mul", *sorted((s, o), key=lambda p: hash(p)))
                v = t.get(m, _ZERO) + c1 * c2
                if v == 0:
                    t.pop(m, None)
                else:
                    t[m] = v if type(v) is int else _nz(v)
        if len(t) > CFG.maxterms:
            CFG.overflow_atoms += 1
            return opaque("mul", *sorted((s, o), key=lambda p: hash(p)))
        return Poly(t)

    def recip(s):
        if not s.t:
            return opaque("div0")
        if len(s.t) == 1:
            (m, c), = s.t.items()
            return Poly({tuple((a, -e) for a, e in m): _nz(Fraction(1) / c)})
        # normalise the sign/scale of the denominator so that p and -p, 2p share an atom
        lead = min(s.t.items(), key=lambda mc: _monokey(mc[0]))[1]
        n = s.scale(Fraction(1) / lead)
        return Poly.atom(Atom("recip", (n,))).scale(Fraction(1) / lead)

    def __pow__(s, n):
        assert isinstance(n, int)
        if n < 0:
            return (s ** (-n)).recip()
        r = Poly.const(1)
        b = s
        while n:
            if n & 1:
                r = r * b
            n >>= 1
            if n:
                b = b * b
        return r

    # -- substitution / differentiation
    def subs(s, f):
        """f: atom -> Poly or None (None = keep)."""
        r = Poly()
        cache = {}
        for m, c in s.t.items():
            p = Poly({(): c})
            keep = []
            for a, e in m:
                if a in cache:
                    rep = cache[a]
                else:
                    rep = cache[a] = f(a)
                if rep is None:
                    keep.append((a, e))
                else:
                    p = p * (rep ** e)
            if keep:
                p = p * Poly({tuple(keep): _ONE})
            r = r + p
        return r

    def diff(s, a):
        """d/d(symbol a) with the chain rule through the atoms whose derivative is known (see DIFF_RULES);
        any other atom that depends on `a` yields an opaque 'd' atom."""
        r = Poly()
        for m, c in s.t.items():
            for b, k in m:
                db = atom_diff(b, a)
                if not db.t:
                    continue
                rest = tuple((u, v) if u is not b else (u, v - 1) for u, v in m if not (u is b and v == 1))
                r = r + Poly({rest: c * k}) * db
        return r

    # -- printing
    def __repr__(s):
        if not s.t:
            return "0"
        out = []
        for m, c in sorted(s.t.items(), key=lambda x: _monokey(x[0])):
            mon = "*".join(("%r" % a if e == 1 else "%r^%d" % (a, e)) for a, e in m)
            if not mon:
                out.append("%s" % c)
            elif c == 1:
                out.append(mon)
            elif c == -1:
                out.append("-" + mon)
            else:
                out.append("%s*%s" % (c, mon))
        return " + ".join(out)


def _mkey(x):
    return x[0].id


def _monokey(m):
    return tuple((a.id, e) for a, e in m)


def opaque(op, *args):
    return Poly.atom(Atom(op, tuple(args)))


DIFF_RULES = {}
_DIFF_MEMO = {}


def atom_diff(b, a):
    """Derivative of atom b with respect to the input symbol a, as a Poly."""
    if b is a:
        return Poly({(): _ONE})
    if b.kind == "sym" or a not in atom_syms(b):
        return Poly()
    k = (b, a)
    r = _DIFF_MEMO.get(k)
    if r is None:
        rule = DIFF_RULES.get(b.kind)
        r = rule(b, a) if rule is not None else None
        if r is None:
            r = opaque("d", Poly.atom(b), Poly.atom(a))
        _DIFF_MEMO[k] = r
    return r


def atom_syms(a):
    """Set of input symbols an atom transitively depends on."""
    if a._deps is not None:
        return a._deps
    if a.kind == "sym":
        a._deps = frozenset((a,))
        return a._deps
    acc = set()
    for x in a.key:
        if isinstance(x, Poly):
            for y in x.atoms():
                acc |= atom_syms(y)
    a._deps = frozenset(acc)
    return a._deps


def atom_depends(b, a):
    if a.kind == "sym":
        return a in atom_syms(b)
    # dependence on a non-sym atom: structural search
    seen = set()
    stack = [b]
    while stack:
        x = stack.pop()
        if x is a:
            return True
        if x in seen or x.kind == "sym":
            continue
        seen.add(x)
        for k in x.key:
            if isinstance(k, Poly):
                stack.extend(k.atoms())
    return False


def poly_syms(p):
    acc = set()
    for a in p.atoms():
        acc |= atom_syms(a)
    return acc


def all_atoms(p, acc=None):
    """All atoms reachable from p (transitively through opaque arguments)."""
    acc = set() if acc is None else acc
    stack = list(p.atoms())
    while stack:
        a = stack.pop()
        if a in acc:
            continue
        acc.add(a)
        for k in a.key:
            if isinstance(k, Poly):
                stack.extend(k.atoms())
    return acc


def deep_subs(p, f, memo=None):
    """Substitute atoms by f (atom -> Poly|None) everywhere, rebuilding opaque
    atoms whose arguments change.  Used for Function calls, ca.substitute and
    the x -> -x mirror rule."""
    memo = {} if memo is None else memo

    def g(a):
        if a in memo:
            return memo[a]
        r = f(a)
        if r is None and a.kind != "sym":
            newargs = tuple(deep_subs(x, f, memo) if isinstance(x, Poly) else x for x in a.key)
            if any(x is not y and x != y for x, y in zip(newargs, a.key)):
                r = rebuild(a.kind, newargs)
        memo[a] = r
        return r

    return p.subs(g)


_REBUILD = {}


def register_rebuild(kind, fn):
    _REBUILD[kind] = fn


def rebuild(kind, args):
    fn = _REBUILD.get(kind)
    if fn is not None:
        return fn(*args)
    return Poly.atom(Atom(kind, args))
