"""Front end: locate, hash and parse the source files of /repo on every run."""
import ast
import hashlib
import os
import subprocess

REPO = os.environ.get("CYECCA_REPO", "/repo")


class SourceFile:
    def __init__(self, path, rel):
        self.path = path
        self.rel = rel
        with open(path, "rb") as f:
            data = f.read()
        self.sha = hashlib.sha256(data).hexdigest()
        self.text = data.decode("utf-8")
        self.tree = ast.parse(self.text, path)
        self.lines = self.text.splitlines()
        for node in ast.walk(self.tree):
            for ch in ast.iter_child_nodes(node):
                ch._parent = node

    def seg(self, node):
        try:
            return ast.get_source_segment(self.text, node) or ast.unparse(node)
        except Exception:
            return ast.unparse(node)


class Frontend:
    def __init__(self, repo=None):
        self.repo = repo or REPO
        self.files = {}
        self.errors = []
        self._scan()

    def _scan(self):
        rels = []
        for top in ("cyecca", "scripts"):
            base = os.path.join(self.repo, top)
            for d, dn, fn in os.walk(base):
                dn[:] = sorted(x for x in dn if x != "__pycache__")
                for f in sorted(fn):
                    if f.endswith(".py"):
                        rels.append(os.path.relpath(os.path.join(d, f), self.repo))
        for rel in rels:
            try:
                self.files[rel] = SourceFile(os.path.join(self.repo, rel), rel)
            except SyntaxError as e:
                self.errors.append((rel, "SyntaxError: %s" % e))

    def get(self, rel):
        f = self.files.get(rel)
        if f is None:
            raise AnchorMissing("file %s not found" % rel)
        return f

    def module_file(self, modname):
        rel = modname.replace(".", "/")
        for cand in (rel + ".py", rel + "/__init__.py"):
            if cand in self.files:
                return self.files[cand]
        return None

    def find_def(self, rel, qual):
        """Find a (possibly nested) def/class by dotted name inside a file."""
        f = self.get(rel)
        node = f.tree
        for part in qual.split("."):
            nxt = None
            for ch in ast.iter_child_nodes(node):
                if isinstance(ch, (ast.FunctionDef, ast.ClassDef, ast.AsyncFunctionDef)) and ch.name == part:
                    nxt = ch
            if nxt is None:
                raise AnchorMissing("%s: definition %s not found" % (rel, qual))
            node = nxt
        return node

    def has_def(self, rel, qual):
        try:
            self.find_def(rel, qual)
            return True
        except AnchorMissing:
            return False

    def summary(self):
        return {rel: f.sha[:16] for rel, f in sorted(self.files.items())}

    def counts(self):
        nf = nc = 0
        for f in self.files.values():
            for n in ast.walk(f.tree):
                if isinstance(n, (ast.FunctionDef, ast.AsyncFunctionDef)):
                    nf += 1
                elif isinstance(n, ast.ClassDef):
                    nc += 1
        return {"files": len(self.files), "functions": nf, "classes": nc}


class AnchorMissing(Exception):
    pass


def norm_stmt(node):
    """Normalised statement text used to key findings (robust to reformatting)."""
    try:
        return " ".join(ast.unparse(node).split())
    except Exception:
        return "<%s>" % type(node).__name__
