"""Abstract interpreter for the loop-free expression builders of cyecca.

Python-level values (classes, instances, ints, enum members, lists, dicts) are
interpreted exactly as constants; CasADi values are MatVal value numbers (see
casadi_model).  There is exactly one abstract run per entry point because the
builders have no data-dependent Python control flow; if one is met the
interpreter raises Unsupported and the rules report ANALYSIS-INCOMPLETE.

cyecca's code is never executed and casadi is never imported.
"""
import ast
import builtins as _builtins_mod
import operator as O
import sys
from fractions import Fraction

from . import casadi_model as cm
from .casadi_model import MatVal, InterpRaise, Unsupported, to_mat, CA
from .poly import Poly

sys.setrecursionlimit(40000)


class _Return(Exception):
    def __init__(self, v):
        self.v = v


class _Break(Exception):
    pass


class _Continue(Exception):
    pass


# --------------------------------------------------------------------------- python-level values

class Stub:
    """Inert stand-in for a library object the analysis does not need."""

    def __init__(self, name):
        object.__setattr__(self, "_name", name)

    def __getattr__(self, k):
        if k.startswith("__") and k.endswith("__"):
            raise AttributeError(k)
        return Stub(self._name + "." + k)

    def __setattr__(self, k, v):
        pass

    def __call__(self, *a, **k):
        return Stub(self._name + "()")

    def __getitem__(self, k):
        return Stub(self._name + "[]")

    def __setitem__(self, k, v):
        pass

    def __iter__(self):
        return iter(())

    def __repr__(self):
        return "<stub %s>" % self._name

    def __bool__(self):
        return True


class ClassObj:
    def __init__(self, name, bases, ns, module, node=None):
        self.name = name
        self.bases = bases
        self.ns = ns
        self.module = module
        self.node = node
        self.beartyped = False
        self.mro = self._mro()

    def _mro(self):
        out = [self]
        for b in self.bases:
            if isinstance(b, ClassObj):
                for c in b.mro:
                    if c not in out:
                        out.append(c)
        return out

    def lookup(self, k):
        for c in self.mro:
            if k in c.ns:
                return c.ns[k], c
        return None, None

    def is_sub(self, other):
        return other in self.mro

    def __repr__(self):
        return "<class %s>" % self.name


class Instance:
    def __init__(self, cls):
        self.cls = cls
        self.attrs = {}

    def __repr__(self):
        return "<%s instance>" % self.cls.name


class FuncObj:
    def __init__(self, node, closure, module, cls=None):
        self.node = node
        self.closure = closure
        self.module = module
        self.cls = cls
        self.name = getattr(node, "name", "<lambda>")
        self.beartyped = False
        self.abstract = False
        self.is_static = False

    @property
    def qualname(self):
        return (self.cls.name + "." if self.cls else "") + self.name

    def __repr__(self):
        return "<function %s>" % self.qualname


class Bound:
    def __init__(self, f, self_):
        self.f = f
        self.self_ = self_

    def __repr__(self):
        return "<bound %s of %r>" % (self.f.qualname, self.self_)


class Prop:
    def __init__(self, f):
        self.f = f


class EnumMember:
    def __init__(self, cls, name, val):
        self.cls = cls
        self.name = name
        self.value = val

    def __repr__(self):
        return "%s.%s" % (self.cls.name, self.name)


class UnionT:
    def __init__(self, members):
        self.members = tuple(members)

    def __repr__(self):
        return "Union%r" % (self.members,)

    def __or__(self, o):
        return UnionT(self.members + (o,))


class GenericT:
    def __init__(self, origin, args):
        self.origin = origin
        self.args = args

    def __repr__(self):
        return "%s[%s]" % (self.origin, self.args)


class TypingName:
    def __init__(self, name):
        self.name = name

    def __repr__(self):
        return "typing." + self.name


class ModRef:
    def __init__(self, it, name):
        self.it = it
        self.name = name

    def __repr__(self):
        return "<module %s>" % self.name


class Env(dict):
    """A scope: local dict chained to an enclosing scope."""

    def __init__(self, loc=None, parent=None):
        dict.__init__(self, loc or {})
        self.parent = parent

    def lookup(self, k):
        e = self
        while e is not None:
            if dict.__contains__(e, k):
                return True, dict.__getitem__(e, k)
            e = getattr(e, "parent", None)
        return False, None


IDENT = lambda f: f
ENUM = ClassObj("Enum", [], {}, "enum")
ABC = ClassObj("ABC", [], {}, "abc")
OBJECT = ClassObj("object", [], {}, "builtins")


class ExcClass:
    def __init__(self, name):
        self.name = name

    def __call__(self, *a, **k):
        return ("exc", self.name, a)

    def __repr__(self):
        return self.name


class NPModel:
    """numpy as far as the builders use it."""
    pi = cm.PI

    @staticmethod
    def sqrt(x):
        if cm.is_number(x):
            r = cm._exact_sqrt(Fraction(x))
            if r is not None:
                return r
            return cm.pynum(cm.un("sqrt", Poly.const(x)))
        return cm.unop("sqrt")(x)

    @staticmethod
    def deg2rad(x):
        return cm.ew(x, cm.ew(cm.PI, Fraction(1, 180), cm.pmul), cm.pmul)

    @staticmethod
    def rad2deg(x):
        return cm.ew(x, cm.ew(180, cm.PI, cm.pdiv), cm.pmul)

    sin = staticmethod(cm.unop("sin"))
    cos = staticmethod(cm.unop("cos"))
    tan = staticmethod(cm.unop("tan"))

    def __getattr__(self, k):
        return Stub("numpy." + k)


NP = NPModel()


class PathVal:
    """pathlib.Path on an abstract file system: the set cm.FS of files a recording CodeGenerator has written (and not
    yet removed).  Enough to follow 'write one file per set ... delete what matches a pattern' through a generator."""

    def __init__(self, *parts):
        segs = [p.s if isinstance(p, PathVal) else p if isinstance(p, str) else "<str>" for p in parts]
        self.s = "/".join(x.rstrip("/") for x in segs if x) or "."

    def __str__(self):
        return self.s

    def __repr__(self):
        return "Path(%r)" % self.s

    def __truediv__(self, o):
        return PathVal(self, o)

    def __fspath__(self):
        return self.s

    @property
    def name(self):
        return self.s.rsplit("/", 1)[-1]

    @property
    def suffix(self):
        nm = self.name
        return nm[nm.rfind("."):] if "." in nm else ""

    @property
    def stem(self):
        nm = self.name
        return nm[:nm.rfind(".")] if "." in nm else nm

    @property
    def parent(self):
        return PathVal(self.s.rsplit("/", 1)[0] if "/" in self.s else ".")

    def mkdir(self, *a, **k):
        return None

    def resolve(self, *a, **k):
        return self

    def absolute(self):
        return self

    def expanduser(self):
        return self

    def _listing(self, pattern, recursive=False):
        import fnmatch
        out = []
        for f in sorted(cm.FS):
            d, _, nm = f.rpartition("/")
            if (d == self.s or (recursive and d.startswith(self.s + "/"))) and fnmatch.fnmatchcase(nm, pattern):
                out.append(PathVal(f))
        return out

    def glob(self, pattern):
        return self._listing(pattern)

    def rglob(self, pattern):
        return self._listing(pattern, True)

    def iterdir(self):
        return self._listing("*")

    def unlink(self, *a, **k):
        cm.FS.discard(self.s)
        cm.FS_LOG.append(("unlink", self.s))

    def exists(self):
        return Stub("Path(%s).exists()" % self.s)

    is_file = is_dir = exists

    def stat(self):
        return Stub("Path(%s).stat()" % self.s)


def _pstr(x):
    return x if isinstance(x, str) else x.s if isinstance(x, PathVal) else "<str>"


class OsPathModel:
    sep = "/"

    @staticmethod
    def join(*parts):
        return PathVal(*parts).s

    @staticmethod
    def basename(x):
        return PathVal(x).name

    @staticmethod
    def dirname(x):
        return PathVal(x).parent.s

    def __getattr__(self, k):
        return Stub("os.path." + k)


class OsModel:
    sep = "/"
    path = OsPathModel()

    @staticmethod
    def remove(x, *a, **k):
        PathVal(x).unlink()

    unlink = remove

    @staticmethod
    def listdir(x="."):
        return [q.name for q in PathVal(x).iterdir()]

    @staticmethod
    def makedirs(*a, **k):
        return None

    mkdir = makedirs

    @staticmethod
    def fspath(x):
        return _pstr(x)

    def __getattr__(self, k):
        return Stub("os." + k)


class PathlibModel:
    Path = PurePath = PosixPath = PathVal
    os = OsModel()

    def __getattr__(self, k):
        return Stub("pathlib." + k)


class NativeModel:
    """Base of rule-supplied stand-ins for library objects: attributes and methods are the Python object's own."""


class OperatorModel:
    """`operator`: the function forms of the operators, evaluated by the interpreter's own operator semantics."""

    def __init__(self, it):
        B = lambda op: (lambda a, b: it.binop(op, a, b, None))
        for nm, op in (("add", ast.Add()), ("sub", ast.Sub()), ("mul", ast.Mult()), ("truediv", ast.Div()), ("pow", ast.Pow()), ("matmul", ast.MatMult()),
                       ("mod", ast.Mod()), ("floordiv", ast.FloorDiv())):
            setattr(self, nm, B(op))
            setattr(self, "i" + nm, B(op))
            setattr(self, "__%s__" % nm, B(op))
        self.neg = lambda a: it.binop(ast.Sub(), 0, a, None)
        self.pos = lambda a: a
        self.getitem = lambda o, k: it.getitem(o, k, None)
        self.itemgetter = lambda *ks: (lambda o: it.getitem(o, ks[0], None) if len(ks) == 1 else tuple(it.getitem(o, k, None) for k in ks))
        self.attrgetter = lambda k: (lambda o: it.getattr(o, k, None))
        for nm, op in (("lt", ast.Lt()), ("le", ast.LtE()), ("gt", ast.Gt()), ("ge", ast.GtE()), ("eq", ast.Eq()), ("ne", ast.NotEq())):
            setattr(self, nm, (lambda op: (lambda a, b: it.compare(op, a, b, None)))(op))

    def __getattr__(self, k):
        raise Unsupported("operator.%s is not modelled" % k)


class FunctoolsModel:
    def __init__(self, it):
        self._it = it

    def reduce(self, f, iterable, *init):
        items = list(self._it.iterate(iterable, None))
        if init:
            acc = init[0]
        elif items:
            acc, items = items[0], items[1:]
        else:
            raise InterpRaise("TypeError", "reduce() of empty iterable with no initial value")
        for x in items:
            acc = self._it.call(f, [acc, x], {}, None)
        return acc

    def partial(self, f, *a, **k):
        return lambda *b, **kk: self._it.call(f, list(a) + list(b), dict(k, **kk), None)

    def __getattr__(self, k):
        if k in ("lru_cache", "cache", "wraps"):
            return Stub("functools." + k)
        raise Unsupported("functools.%s is not modelled" % k)


class ItertoolsModel:
    def __init__(self, it):
        self._it = it

    def product(self, *iterables, repeat=1):
        import itertools
        return list(itertools.product(*[list(self._it.iterate(x, None)) for x in iterables], repeat=repeat))

    def chain(self, *iterables):
        return [y for x in iterables for y in self._it.iterate(x, None)]

    def accumulate(self, iterable, func=None, *, initial=None):
        items = list(self._it.iterate(iterable, None))
        out = []
        if initial is not None:
            acc = initial
            out.append(acc)
        elif items:
            acc, items = items[0], items[1:]
            out.append(acc)
        else:
            return out
        for x in items:
            acc = self._it.call(func, [acc, x], {}, None) if func is not None else self._it.binop(ast.Add(), acc, x, None)
            out.append(acc)
        return out

    def starmap(self, f, iterable):
        return [self._it.call(f, list(self._it.iterate(x, None)), {}, None) for x in self._it.iterate(iterable, None)]

    def islice(self, iterable, *a):
        import itertools
        return list(itertools.islice(list(self._it.iterate(iterable, None)), *a))

    def repeat(self, x, times=None):
        if times is None:
            raise Unsupported("itertools.repeat without a count")
        return [x] * int(times)

    def zip_longest(self, *its, fillvalue=None):
        import itertools
        return list(itertools.zip_longest(*[list(self._it.iterate(i, None)) for i in its], fillvalue=fillvalue))

    def pairwise(self, iterable):
        xs = list(self._it.iterate(iterable, None))
        return list(zip(xs, xs[1:]))

    def __getattr__(self, k):
        raise Unsupported("itertools.%s is not modelled" % k)


class CollectionsModel:
    """`collections`: namedtuple is Python's own (its instances are tuples: unpacking, indexing, iteration, fields by name)."""

    @staticmethod
    def namedtuple(typename, field_names, *, rename=False, defaults=None, module=None):
        import collections
        return collections.namedtuple(_pstr(typename) if not isinstance(typename, str) else typename, field_names, rename=rename, defaults=defaults)

    OrderedDict = dict

    def __getattr__(self, k):
        raise Unsupported("collections.%s is not modelled" % k)


class SparsityOf(NativeModel):
    """sparsity pattern of a value: an entry is structurally non-zero when its value number is not the zero polynomial"""

    def __init__(self, m):
        self._m = m

    def has_nz(self, i, j):
        return bool(self._m.cells[int(i)][int(j)].t)

    def nnz(self):
        return sum(1 for p_ in self._m.flat() if p_.t)

    def size1(self):
        return self._m.r

    def size2(self):
        return self._m.c

    def is_dense(self):
        return self.nnz() == self._m.r * self._m.c


def _exact_int_fn(name):
    import math as _m

    def f(*a):
        if all(isinstance(x, int) and not isinstance(x, bool) for x in a):
            try:
                return getattr(_m, name)(*a)
            except ValueError as e:
                raise cm.InterpRaise("ValueError", str(e))
        raise cm.Unsupported("math.%s of a non-integer value" % name)
    return f


class MathModel:
    pi = cm.PI
    factorial = staticmethod(_exact_int_fn("factorial"))     # exact integer functions (Bernstein / derivative gains)
    comb = staticmethod(_exact_int_fn("comb"))
    perm = staticmethod(_exact_int_fn("perm"))
    gcd = staticmethod(_exact_int_fn("gcd"))

    def __getattr__(self, k):
        return Stub("math." + k)


# --------------------------------------------------------------------------- the interpreter

class Interp:
    def __init__(self, frontend, series_keys=None, summaries=None, series_canon=None):
        self.fe = frontend
        self.modules = {}
        self.stack = []          # call chain: (qualname, module, call-site lineno)
        self.calls = 0
        self.steps = 0
        self.series_keys = series_keys or []
        self.series_canon = series_canon or {}
        self.summaries = summaries or {}
        self.trace_calls = None  # optional callback(fobj, args) for rules
        self.branch_oracle = None  # optional callback(stub, node) -> bool for branches on unmodelled library values
        self.yields = []         # stack of lists: values yielded by the generator functions being run
        self.check_beartype = True
        self.cur = []            # stack of (module, node) being evaluated
        self.series_sites = []   # (module, lineno, key, squared, argument poly)
        self.loading = []
        self.ew_hook = None      # callback(node, module, left MatVal, right MatVal, how) on element-wise products
        self.series_hook = None  # callback(node, module, SeriesFn, argument MatVal)
        self.op_hook = None      # callback(opname, node, module, result MatVal, chain) for sqrt/norm_2/acos/asin/atan2 and '/' 

    # ---- modules
    def load(self, name):
        if name in self.modules:
            return self.modules[name]
        sf = self.fe.module_file(name)
        if sf is None:
            raise InterpRaise("ModuleNotFoundError", name)
        env = Env({"__name__": name, "__file__": sf.path})
        env.is_module = True
        self.modules[name] = env
        if name == "cyecca.symbolic":
            env["SERIES"] = cm.SeriesDict(False, self.series_keys, self.series_canon)
            env["SQUARED_SERIES"] = cm.SeriesDict(True, self.series_keys, self.series_canon)
            for k in ("taylor_series_near_zero", "sympy_to_casadi", "casadi_to_sympy", "derive_series"):
                env[k] = Stub("cyecca.symbolic." + k)
            env["__all__"] = ["taylor_series_near_zero", "sympy_to_casadi", "SERIES", "SQUARED_SERIES", "casadi_to_sympy"]
            return env
        self.loading.append(name)
        try:
            self.exec_block(sf.tree.body, env, name)
        finally:
            self.loading.pop()
        return env

    def module_main_block(self, name):
        sf = self.fe.module_file(name)
        for st in sf.tree.body:
            if isinstance(st, ast.If) and ast.unparse(st.test).replace("'", '"') == '__name__ == "__main__"':
                return st
        return None

    def do_import(self, node, env, module):
        if isinstance(node, ast.Import):
            for a in node.names:
                top = a.name.split(".")[0]
                nm = a.asname or top
                if top == "casadi":
                    env[nm] = CA if (a.asname or a.name == "casadi") else CA
                elif top == "cyecca":
                    self.load(a.name)
                    parts = a.name.split(".")
                    for i in range(1, len(parts)):
                        pre = ".".join(parts[:i])
                        if self.fe.module_file(pre) is not None:
                            self.load(pre)
                    env[nm] = ModRef(self, a.name if a.asname else "cyecca")
                elif top == "numpy":
                    env[nm] = NP if a.name == "numpy" else Stub(a.name)
                elif top == "math":
                    env[nm] = MathModel()
                elif a.name == "collections":
                    env[nm] = CollectionsModel()
                elif a.name in ("operator", "functools", "itertools"):
                    env[nm] = {"operator": OperatorModel, "functools": FunctoolsModel, "itertools": ItertoolsModel}[a.name](self)
                elif a.name == "pathlib":
                    env[nm] = PathlibModel()
                elif a.name == "os":
                    env[nm] = OsModel()
                elif a.name == "os.path":
                    env[nm] = OsModel() if not a.asname else OsPathModel()
                else:
                    env[nm] = Stub(a.name)
            return
        mod = node.module or ""
        if node.level:
            cur = env_module_name(env) or module
            sf = self.fe.module_file(cur)
            is_pkg = sf is not None and sf.rel.endswith("__init__.py")
            parts = cur.split(".")
            up = node.level - (1 if is_pkg else 0)
            base = parts[: len(parts) - up] if up else parts
            mod = ".".join(base + ([mod] if mod else []))
        if mod == "__future__":
            return
        for a in node.names:
            nm = a.asname or a.name
            if mod == "casadi" or mod.startswith("casadi."):
                env[nm] = getattr(CA, a.name, None) if mod == "casadi" and hasattr(CA, a.name) else Stub(mod + "." + a.name)
            elif mod.split(".")[0] == "cyecca":
                m = self.load(mod)
                if a.name == "*":
                    names = m.get("__all__")
                    if names is None:
                        names = [k for k in m if not k.startswith("_")]
                    for k in names:
                        if k in m:
                            env[k] = m[k]
                        else:
                            raise InterpRaise("AttributeError", "module '%s' has no attribute '%s' (listed in __all__)" % (mod, k), node, module=module)
                elif a.name in m:
                    env[nm] = m[a.name]
                elif self.fe.module_file(mod + "." + a.name) is not None:
                    self.load(mod + "." + a.name)
                    env[nm] = ModRef(self, mod + "." + a.name)
                else:
                    if mod in self.loading:
                        # circular import of a not-yet-defined name
                        raise InterpRaise("ImportError", "cannot import name '%s' from partially initialized module '%s'" % (a.name, mod), node, module=module)
                    raise InterpRaise("ImportError", "cannot import name '%s' from '%s'" % (a.name, mod), node, module=module)
            elif mod == "beartype" and a.name == "beartype":
                env[nm] = BEARTYPE
            elif mod in ("beartype.typing", "typing"):
                env[nm] = TypingName(a.name)
            elif mod == "abc":
                env[nm] = {"ABC": ABC, "abstractmethod": ABSTRACT}.get(a.name, Stub("abc." + a.name))
            elif mod == "enum":
                env[nm] = ENUM if a.name == "Enum" else Stub("enum." + a.name)
            elif mod == "numpy":
                env[nm] = getattr(NP, a.name)
            elif mod == "fractions":
                env[nm] = Fraction if a.name == "Fraction" else Stub(a.name)
            elif mod == "collections":
                env[nm] = getattr(CollectionsModel(), a.name)
            elif mod in ("operator", "functools", "itertools"):
                env[nm] = getattr({"operator": OperatorModel, "functools": FunctoolsModel, "itertools": ItertoolsModel}[mod](self), a.name)
            elif mod == "pathlib":
                env[nm] = getattr(PathlibModel(), a.name)
            elif mod == "os":
                env[nm] = getattr(OsModel(), a.name)
            elif mod == "os.path":
                env[nm] = getattr(OsPathModel(), a.name)
            else:
                env[nm] = Stub(mod + "." + a.name)

    # ---- statements
    def exec_block(self, body, env, module):
        for st in body:
            self.exec_stmt(st, env, module)

    def exec_stmt(self, st, env, module):
        self.steps += 1
        self.cur.append((module, st))
        try:
            self._exec_stmt(st, env, module)
        except InterpRaise as e:
            if e.node is None:
                e.node = st
                e.module = module
            if not e.chain:
                e.chain = list(self.stack)
            raise
        except Unsupported as e:
            if e.node is None:
                e.node = st
                e.module = module
            if not e.chain:
                e.chain = list(self.stack)
            raise
        finally:
            self.cur.pop()

    def _exec_stmt(self, st, env, module):
        t = type(st)
        if t is ast.Expr:
            if isinstance(st.value, ast.Constant):
                return
            self.ev(st.value, env, module)
        elif t is ast.Assign:
            v = self.ev(st.value, env, module)
            for tg in st.targets:
                self.assign(tg, v, env, module)
        elif t is ast.Return:
            raise _Return(self.ev(st.value, env, module) if st.value is not None else None)
        elif t is ast.If:
            c = self.ev(st.test, env, module)
            self.exec_block(st.body if self.truth(c, st.test) else st.orelse, env, module)
        elif t is ast.For:
            it = self.ev(st.iter, env, module)
            broke = False
            for x in self.iterate(it, st.iter):
                self.assign(st.target, x, env, module)
                try:
                    self.exec_block(st.body, env, module)
                except _Break:
                    broke = True
                    break
                except _Continue:
                    continue
            if not broke and st.orelse:
                self.exec_block(st.orelse, env, module)
        elif t is ast.While:
            # a loop on a concrete condition (counters, list lengths): executed exactly; a condition on a CasADi value or an
            # unmodelled library value is Unsupported through truth(); the bound only guards the analyser
            broke = False
            n_iter = 0
            while self.truth(self.ev(st.test, env, module), st.test):
                n_iter += 1
                if n_iter > 100000:
                    raise Unsupported("while loop exceeds 100000 iterations", st)
                try:
                    self.exec_block(st.body, env, module)
                except _Break:
                    broke = True
                    break
                except _Continue:
                    continue
            if not broke and st.orelse:
                self.exec_block(st.orelse, env, module)
        elif t is ast.AugAssign:
            cur = self.ev(self._load_of(st.target), env, module)
            if isinstance(cur, list) and isinstance(st.op, ast.Add):
                cur.extend(self.iterate(self.ev(st.value, env, module), st.value))
                return
            v = self.binop(st.op, cur, self.ev(st.value, env, module), st)
            self.assign(st.target, v, env, module)
        elif t is ast.AnnAssign:
            if st.value is not None:
                self.assign(st.target, self.ev(st.value, env, module), env, module)
        elif t in (ast.Import, ast.ImportFrom):
            self.do_import(st, env, module)
        elif t is ast.FunctionDef:
            self.def_function(st, env, module)
        elif t is ast.ClassDef:
            self.def_class(st, env, module)
        elif t is ast.Assert:
            c = self.ev(st.test, env, module)
            if isinstance(c, MatVal):
                cv = c.s().const_value() if c.is_scalar() else None
                if cv is None:
                    return  # symbolic assert: casadi would raise on bool(); not in scope today
                c = cv != 0
            if isinstance(c, Stub):
                return
            if not c:
                raise InterpRaise("AssertionError", ast.unparse(st.test), st, module=module)
        elif t is ast.Raise:
            name = "Exception"
            if st.exc is not None:
                f = st.exc.func if isinstance(st.exc, ast.Call) else st.exc
                name = ast.unparse(f)
            raise InterpRaise(name, "explicit raise", st, module=module)
        elif t is ast.Pass:
            pass
        elif t is ast.Break:
            raise _Break()
        elif t is ast.Continue:
            raise _Continue()
        elif t is ast.Delete:
            for tg in st.targets:
                if isinstance(tg, ast.Name):
                    env.pop(tg.id, None)
                elif isinstance(tg, ast.Subscript):
                    o = self.ev(tg.value, env, module)
                    del o[self.ev_slice(tg.slice, env, module)]
        elif t is ast.Global or t is ast.Nonlocal:
            raise Unsupported("global/nonlocal", st, module)
        else:
            raise Unsupported("statement %s" % t.__name__, st, module)

    def _load_of(self, tg):
        n = ast.parse(ast.unparse(tg), mode="eval").body
        ast.copy_location(n, tg)
        for x in ast.walk(n):
            if not hasattr(x, "lineno"):
                ast.copy_location(x, tg)
        return n

    def truth(self, c, node=None):
        if isinstance(c, MatVal):
            if c.is_scalar():
                cv = c.s().const_value()
                if cv is not None:
                    return cv != 0
            raise Unsupported("data-dependent Python branch on a CasADi value", node)
        if isinstance(c, Stub):
            # a rule may supply an oracle that answers such branches (file-system state, environment): it then explores
            # the answers it cares about by re-running; without an oracle the construct is not interpreted
            if self.branch_oracle is not None:
                return bool(self.branch_oracle(c, node))
            raise Unsupported("Python branch on an unmodelled library value %r" % c, node)
        return bool(c)

    def iterate(self, it, node=None):
        if isinstance(it, MatVal):
            raise Unsupported("iteration over a CasADi matrix", node)
        if isinstance(it, Stub):
            raise Unsupported("iteration over unmodelled value %r" % it, node)
        if isinstance(it, dict):
            return list(it.keys())
        try:
            return list(it)
        except TypeError:
            raise InterpRaise("TypeError", "object is not iterable", node)

    def def_function(self, st, env, module):
        cls = getattr(env, "class_obj", None)
        f = FuncObj(st, env if cls is None else env.parent, module, cls)
        v = f
        for d in reversed(st.decorator_list):
            dv = self.ev(d, env, module)
            if dv is PROPERTY:
                v = Prop(f)
            elif dv is BEARTYPE:
                f.beartyped = True
            elif dv is ABSTRACT:
                f.abstract = True
            elif dv is STATICMETHOD:
                f.is_static = True
            elif isinstance(dv, Stub):
                pass
            else:
                raise Unsupported("decorator %s" % ast.unparse(d), st, module)
        env[st.name] = v

    def def_class(self, st, env, module):
        bases = [self.ev(b, env, module) for b in st.bases]
        if any(isinstance(b, TypingName) and b.name == "NamedTuple" for b in bases):
            # class X(NamedTuple): a: T; b: T = default  ->  Python's own namedtuple (fields in declaration order)
            import collections
            fields, defaults = [], []
            for b_ in st.body:
                if isinstance(b_, ast.AnnAssign) and isinstance(b_.target, ast.Name):
                    fields.append(b_.target.id)
                    if b_.value is not None:
                        defaults.append(self.ev(b_.value, env, module))
                    elif defaults:
                        raise InterpRaise("TypeError", "non-default namedtuple field follows default field", st, module=module)
                elif isinstance(b_, ast.Expr) and isinstance(b_.value, ast.Constant):
                    continue
                elif isinstance(b_, ast.Pass):
                    continue
                else:
                    raise Unsupported("NamedTuple class with methods or other statements", b_, module)
            env[st.name] = collections.namedtuple(st.name, fields, defaults=defaults or None)
            return
        ns = Env({}, env)
        c = ClassObj(st.name, bases, ns, module, st)
        ns.class_obj = c
        ns["__qualname__"] = st.name
        self.exec_block(st.body, ns, module)
        for d in st.decorator_list:
            dv = self.ev(d, env, module)
            if dv is BEARTYPE:
                c.beartyped = True
        if c.beartyped:
            for k, v in ns.items():
                fo = v.f if isinstance(v, Prop) else v
                if isinstance(fo, FuncObj):
                    fo.beartyped = True
        if any(b is ENUM for b in bases):
            for k, v in list(ns.items()):
                if not k.startswith("_") and not isinstance(v, (FuncObj, Prop)):
                    ns[k] = EnumMember(c, k, v)
        env[st.name] = c

    def assign(self, tg, v, env, module):
        if isinstance(tg, ast.Name):
            env[tg.id] = v
        elif isinstance(tg, (ast.Tuple, ast.List)):
            vs = self.iterate(v, tg)
            if any(isinstance(e, ast.Starred) for e in tg.elts):
                raise Unsupported("starred assignment", tg, module)
            if len(vs) != len(tg.elts):
                raise InterpRaise("ValueError", "cannot unpack %d values into %d targets" % (len(vs), len(tg.elts)), tg, module=module)
            for a, b in zip(tg.elts, vs):
                self.assign(a, b, env, module)
        elif isinstance(tg, ast.Attribute):
            o = self.ev(tg.value, env, module)
            if isinstance(o, Instance):
                o.attrs[tg.attr] = v
            elif isinstance(o, Stub):
                pass
            elif isinstance(o, ClassObj):
                o.ns[tg.attr] = v
            else:
                raise Unsupported("attribute store on %s" % type(o).__name__, tg, module)
        elif isinstance(tg, ast.Subscript):
            o = self.ev(tg.value, env, module)
            k = self.ev_slice(tg.slice, env, module)
            if isinstance(o, MatVal):
                self.mat_set(o, k, v, tg)
            elif isinstance(o, Stub):
                pass
            elif isinstance(o, (dict, list)):
                try:
                    o[k] = v
                except (IndexError, TypeError) as e:
                    raise InterpRaise(type(e).__name__, str(e), tg, module=module)
            elif isinstance(o, NativeModel) and hasattr(o, "__setitem__"):
                o[k] = v
            else:
                raise Unsupported("subscript store on %s" % type(o).__name__, tg, module)
        else:
            raise Unsupported("assignment target %s" % type(tg).__name__, tg, module)

    # ---- matrices
    def idx(self, k, n, node=None):
        if isinstance(k, slice):
            for x in (k.start, k.stop, k.step):
                if x is not None and not isinstance(x, int):
                    raise Unsupported("non-integer slice bound", node)
            return list(range(*k.indices(n)))
        if isinstance(k, bool):
            raise Unsupported("boolean index", node)
        if isinstance(k, int):
            i = k if k >= 0 else n + k
            if not 0 <= i < n:
                raise InterpRaise("RuntimeError", "index %d out of bounds [0, %d)" % (k, n), node)
            return [i]
        if isinstance(k, MatVal) and k.is_scalar() and k.s().const_value() is not None and k.s().const_value().denominator == 1:
            return self.idx(int(k.s().const_value()), n, node)
        if isinstance(k, list) and all(isinstance(x, int) for x in k):
            return [self.idx(x, n, node)[0] for x in k]
        raise Unsupported("index of type %s" % type(k).__name__, node)

    def mat_index(self, m, k, node=None):
        """-> ('rc', rows, cols) or ('lin', positions)"""
        if isinstance(k, tuple):
            if len(k) == 2:
                return ("rc", self.idx(k[0], m.r, node), self.idx(k[1], m.c, node))
            if len(k) == 1:
                k = k[0]
            else:
                raise InterpRaise("TypeError", "too many indices", node)
        if m.c == 1:
            return ("rc", self.idx(k, m.r, node), [0])
        if m.r == 1:
            return ("rc", [0], self.idx(k, m.c, node))
        lin = self.idx(k, m.r * m.c, node)
        return ("lin", lin)

    def mat_get(self, m, k, node=None):
        ix = self.mat_index(m, k, node)
        if ix[0] == "rc":
            _, ri, ci = ix
            return MatVal(len(ri), len(ci), [[m.cells[i][j] for j in ci] for i in ri], m.kind)
        lin = ix[1]
        return MatVal(len(lin), 1, [[m.cells[p % m.r][p // m.r]] for p in lin], m.kind)

    def mat_set(self, m, k, v, node=None):
        v = to_mat(v)
        if v.kind == "SX" and m.kind == "DM":
            raise InterpRaise("NotImplementedError", "cannot assign an SX into a DM", node)
        ix = self.mat_index(m, k, node)
        if ix[0] == "lin":
            lin = ix[1]
            vals = v.flat()
            if len(vals) == 1:
                vals = vals * len(lin)
            if len(vals) != len(lin):
                raise InterpRaise("RuntimeError", "dimension mismatch in assignment", node)
            for p, val in zip(lin, vals):
                m.cells[p % m.r][p // m.r] = val
            return
        _, ri, ci = ix
        if v.is_scalar():
            v = MatVal(len(ri), len(ci), [[v.s()] * len(ci) for _ in ri])
        if v.shape != (len(ri), len(ci)):
            if v.shape == (len(ci), len(ri)) and (v.r == 1 or v.c == 1):
                v = cm.transpose(v)
            else:
                raise InterpRaise("RuntimeError", "dimension mismatch in assignment: %s into %s" % (v.shape, (len(ri), len(ci))), node)
        for a, i in enumerate(ri):
            for b, j in enumerate(ci):
                m.cells[i][j] = v.cells[a][b]

    # ---- expressions
    def ev_slice(self, n, env, module):
        if isinstance(n, ast.Slice):
            return slice(*(self.ev(x, env, module) if x is not None else None for x in (n.lower, n.upper, n.step)))
        if isinstance(n, ast.Tuple):
            return tuple(self.ev_slice(e, env, module) for e in n.elts)
        return self.ev(n, env, module)

    def ev(self, n, env, module):
        self.steps += 1
        try:
            return self._ev(n, env, module)
        except InterpRaise as e:
            if e.node is None or not hasattr(e.node, "lineno"):
                e.node = n
                e.module = module
            if e.module is None:
                e.module = module
            if not e.chain:
                e.chain = list(self.stack)
            raise
        except Unsupported as e:
            if e.node is None:
                e.node = n
                e.module = module
            if e.module is None:
                e.module = module
            if not e.chain:
                e.chain = list(self.stack)
            raise

    def _ev(self, n, env, module):
        t = type(n)
        if t is ast.Constant:
            v = n.value
            if isinstance(v, float):
                return cm.to_frac(v)
            return v
        if t is ast.Name:
            found, v = env.lookup(n.id)
            if found:
                return v
            if n.id == "getattr":
                def _getattr(o, k, *default):
                    if not isinstance(k, str):
                        raise Unsupported("getattr with a computed name", n)
                    try:
                        return self.getattr(o, k, n)
                    except InterpRaise as ex:
                        if default and ex.kind == "AttributeError":
                            return default[0]
                        raise
                return _getattr
            if n.id == "map":
                return lambda f_, *its: [self.call(f_, list(x), {}, n) for x in zip(*[self.iterate(i_, n) for i_ in its])]
            if n.id == "filter":
                return lambda f_, it_: [x for x in self.iterate(it_, n) if (self.truth(self.call(f_, [x], {}, n), n) if f_ is not None else self.truth(x, n))]
            if n.id in BUILTINS:
                return BUILTINS[n.id]
            if hasattr(_builtins_mod, n.id):
                # a Python builtin this interpreter has no model of: no verdict, not a NameError of the program
                raise Unsupported("builtin %s is not modelled" % n.id, n)
            raise InterpRaise("NameError", "name '%s' is not defined" % n.id, n, module=module)
        if t is ast.Attribute:
            return self.getattr(self.ev(n.value, env, module), n.attr, n)
        if t is ast.Call:
            return self.ev_call(n, env, module)
        if t is ast.BinOp:
            return self.binop(n.op, self.ev(n.left, env, module), self.ev(n.right, env, module), n)
        if t is ast.UnaryOp:
            v = self.ev(n.operand, env, module)
            if isinstance(n.op, ast.USub):
                if isinstance(v, Instance):
                    m, _ = v.cls.lookup("__neg__")
                    if m is None:
                        raise InterpRaise("TypeError", "bad operand type for unary -: '%s'" % v.cls.name, n)
                    return self.call(Bound(m, v), [], {}, n)
                if isinstance(v, MatVal):
                    return cm.neg(v)
                if isinstance(v, Stub):
                    return v
                return -v
            if isinstance(n.op, ast.UAdd):
                return v
            if isinstance(n.op, ast.Not):
                if isinstance(v, MatVal):
                    return cm.unop("not")(v)
                return not self.truth(v, n)
            if isinstance(n.op, ast.Invert) and isinstance(v, NativeModel):
                return ~v
            raise Unsupported("unary operator", n)
        if t is ast.Compare:
            l = self.ev(n.left, env, module)
            res = True
            for op, rn in zip(n.ops, n.comparators):
                r = self.ev(rn, env, module)
                res = self.compare(op, l, r, n)
                if isinstance(res, MatVal):
                    if len(n.ops) > 1:
                        raise Unsupported("chained comparison of CasADi values", n)
                    return res
                if not res:
                    return False
                l = r
            return res
        if t is ast.BoolOp:
            if isinstance(n.op, ast.And):
                v = True
                for e in n.values:
                    v = self.ev(e, env, module)
                    if not self.truth(v, e):
                        return v
                return v
            v = False
            for e in n.values:
                v = self.ev(e, env, module)
                if self.truth(v, e):
                    return v
            return v
        if t is ast.Subscript:
            o = self.ev(n.value, env, module)
            k = self.ev_slice(n.slice, env, module)
            return self.getitem(o, k, n)
        if t is ast.Tuple:
            return tuple(self.ev_list(n.elts, env, module))
        if t is ast.List:
            return self.ev_list(n.elts, env, module)
        if t is ast.Set:
            return set(self.ev_list(n.elts, env, module))
        if t is ast.Dict:
            out = {}
            for k, v in zip(n.keys, n.values):
                if k is None:
                    out.update(self.ev(v, env, module))
                else:
                    out[_unmodel_type(self.ev(k, env, module))] = self.ev(v, env, module)
            return out
        if t is ast.ListComp:
            out = []
            self.comp(n.generators, 0, env, module, lambda e: out.append(self.ev(n.elt, e, module)))
            return out
        if t is ast.GeneratorExp:
            out = []
            self.comp(n.generators, 0, env, module, lambda e: out.append(self.ev(n.elt, e, module)))
            return out
        if t is ast.SetComp:
            out = []
            self.comp(n.generators, 0, env, module, lambda e: out.append(self.ev(n.elt, e, module)))
            return set(out)
        if t is ast.DictComp:
            out = {}
            self.comp(n.generators, 0, env, module, lambda e: out.__setitem__(self.ev(n.key, e, module), self.ev(n.value, e, module)))
            return out
        if t is ast.Lambda:
            return FuncObj(n, env, module)
        if t is ast.JoinedStr:
            parts = []
            for v in n.values:
                if isinstance(v, ast.FormattedValue):
                    val = self.ev(v.value, env, module)
                    spec = self.ev(v.format_spec, env, module) if v.format_spec is not None else ""
                    if isinstance(val, (str, int, bool)) and not isinstance(val, Stub) and v.conversion in (-1, 115) and isinstance(spec, str) and "<" not in spec:
                        try:
                            parts.append(format(val, spec))
                            continue
                        except (ValueError, TypeError):
                            pass
                    parts.append(_str(val) if v.conversion in (-1, 115) and not spec else "<fstring>")
                else:
                    parts.append(v.value if isinstance(v, ast.Constant) else "<fstring>")
            return "".join(parts)
        if t is ast.Yield:
            if not self.yields:
                raise Unsupported("yield outside a generator call", n)
            self.yields[-1].append(self.ev(n.value, env, module) if n.value is not None else None)
            return None
        if t is ast.YieldFrom:
            if not self.yields:
                raise Unsupported("yield from outside a generator call", n)
            self.yields[-1].extend(self.iterate(self.ev(n.value, env, module), n))
            return None
        if t is ast.IfExp:
            return self.ev(n.body if self.truth(self.ev(n.test, env, module), n.test) else n.orelse, env, module)
        if t is ast.Starred:
            raise Unsupported("starred expression", n)
        raise Unsupported("expression %s" % t.__name__, n)

    def ev_list(self, elts, env, module):
        out = []
        for e in elts:
            if isinstance(e, ast.Starred):
                out.extend(self.iterate(self.ev(e.value, env, module), e))
            else:
                out.append(self.ev(e, env, module))
        return out

    def comp(self, gens, i, env, module, emit):
        if i == len(gens):
            emit(env)
            return
        g = gens[i]
        for x in self.iterate(self.ev(g.iter, env, module), g.iter):
            e = Env({}, env)
            self.assign(g.target, x, e, module)
            if all(self.truth(self.ev(c, e, module), c) for c in g.ifs):
                self.comp(gens, i + 1, e, module, emit)

    def getitem(self, o, k, n=None):
        if isinstance(o, MatVal):
            return self.mat_get(o, k, n)
        if isinstance(o, cm.SeriesDict):
            return o.getitem(k)
        if isinstance(o, Stub):
            return o[k]
        if isinstance(o, TypingName):
            args = k if isinstance(k, tuple) else (k,)
            if o.name in ("Union",):
                return UnionT(args)
            if o.name == "Optional":
                return UnionT(args + (None,))
            return GenericT(o.name, args)
        if any(o is x for x in (tuple, list, dict, set, frozenset, type)):
            return GenericT(o.__name__, k if isinstance(k, tuple) else (k,))
        if isinstance(o, (list, tuple, str)):
            if isinstance(k, MatVal):
                raise Unsupported("CasADi value used as a Python index", n)
            try:
                return o[k]
            except IndexError:
                raise InterpRaise("IndexError", "index %r out of range (len %d)" % (k, len(o)), n)
            except TypeError as e:
                raise InterpRaise("TypeError", str(e), n)
        if isinstance(o, dict):
            k = _unmodel_type(k)
            try:
                return o[k]
            except KeyError:
                raise InterpRaise("KeyError", repr(k), n)
            except TypeError as e:
                raise Unsupported("unhashable dict key: %s" % e, n)
        if isinstance(o, Instance):
            m, _ = o.cls.lookup("__getitem__")
            if m is not None:
                return self.call(Bound(m, o), [k], {}, n)
            raise InterpRaise("TypeError", "'%s' object is not subscriptable" % o.cls.name, n)
        if isinstance(o, NativeModel) and hasattr(o, "__getitem__"):
            return o[k]
        raise Unsupported("subscript on %s" % type(o).__name__, n)

    def compare(self, op, l, r, n):
        if isinstance(op, (ast.Eq, ast.NotEq, ast.Is, ast.IsNot)):
            # `type(x) == int`: the builtin names int / float / str are model functions here
            unmodel = {id(_int): int, id(_float): float, id(_str): str}
            l, r = unmodel.get(id(l), l), unmodel.get(id(r), r)
            if (l is float and r is Fraction) or (l is Fraction and r is float):
                l = r = float
        if isinstance(l, Instance) or isinstance(r, Instance):
            if isinstance(op, (ast.Is, ast.IsNot)):
                return (l is r) == isinstance(op, ast.Is)
            if isinstance(op, (ast.In, ast.NotIn)):
                return (any(x is l for x in r)) == isinstance(op, ast.In)
            name = {ast.Eq: "__eq__", ast.NotEq: "__ne__", ast.Lt: "__lt__", ast.Gt: "__gt__", ast.LtE: "__le__", ast.GtE: "__ge__"}.get(type(op))
            if isinstance(l, Instance) and name:
                m, _ = l.cls.lookup(name)
                if m is not None:
                    return self.call(Bound(m, l), [r], {}, n)
            if isinstance(op, ast.Eq):
                return l is r
            if isinstance(op, ast.NotEq):
                return l is not r
            raise InterpRaise("TypeError", "comparison not supported between instances", n)
        if isinstance(l, MatVal) or isinstance(r, MatVal):
            if isinstance(op, (ast.Is, ast.IsNot)):
                return (l is r) == isinstance(op, ast.Is)
            if l is None or r is None:
                if isinstance(op, ast.Eq):
                    return False
                if isinstance(op, ast.NotEq):
                    return True
            if isinstance(l, (tuple, str)) or isinstance(r, (tuple, str)):
                if isinstance(op, ast.Eq):
                    return False
                if isinstance(op, ast.NotEq):
                    return True
            nm = {ast.Eq: "eq", ast.NotEq: "ne", ast.Lt: "lt", ast.LtE: "le", ast.Gt: "gt", ast.GtE: "ge"}.get(type(op))
            if nm is None:
                raise Unsupported("operator %s on CasADi values" % type(op).__name__, n)
            return cm.rel(nm)(l, r)
        if isinstance(l, Stub) or isinstance(r, Stub):
            if isinstance(op, (ast.Is, ast.IsNot)):
                return (l is r) == isinstance(op, ast.Is)
            if self.branch_oracle is not None:
                return Stub("(%s cmp %s)" % (getattr(l, "_name", "value"), getattr(r, "_name", "value")))     # decided by the oracle when branched on
            raise Unsupported("comparison with unmodelled value", n)
        f = {ast.Eq: O.eq, ast.NotEq: O.ne, ast.Lt: O.lt, ast.LtE: O.le, ast.Gt: O.gt, ast.GtE: O.ge, ast.Is: O.is_, ast.IsNot: O.is_not,
             ast.In: lambda a, b: _unmodel_type(a) in b if isinstance(b, dict) else a in b,
             ast.NotIn: lambda a, b: _unmodel_type(a) not in b if isinstance(b, dict) else a not in b}[type(op)]
        try:
            return f(l, r)
        except TypeError as e:
            msg = str(e)
            if "use mat_equal" in msg:
                raise Unsupported("comparison of containers holding CasADi values", n)
            raise InterpRaise("TypeError", msg, n)

    OPN = {"Add": "add", "Sub": "sub", "Mult": "mul", "MatMult": "matmul", "Div": "truediv", "Pow": "pow", "Mod": "mod", "FloorDiv": "floordiv",
           "BitOr": "or", "BitAnd": "and"}

    def binop(self, op, l, r, n):
        on = type(op).__name__
        dn = self.OPN.get(on)
        if dn is None:
            raise Unsupported("operator %s" % on, n)
        if isinstance(l, NativeModel) or isinstance(r, NativeModel):
            # a rule-supplied stand-in: its own Python operators (used by the sympy result model of C19)
            f_ = {"add": O.add, "sub": O.sub, "mul": O.mul, "truediv": O.truediv, "pow": O.pow, "mod": O.mod, "matmul": O.matmul,
                  "floordiv": O.floordiv, "or": O.or_, "and": O.and_}[dn]
            try:
                return f_(l, r)
            except TypeError as e:
                raise InterpRaise("TypeError", str(e), n)
        if isinstance(l, Instance):
            m, _ = l.cls.lookup("__%s__" % dn)
            if m is not None:
                res = self.call(Bound(m, l), [r], {}, n)
                if res is not NOTIMPL:
                    return res
            if isinstance(r, Instance):
                m, _ = r.cls.lookup("__r%s__" % dn)
                if m is not None:
                    return self.call(Bound(m, r), [l], {}, n)
            raise InterpRaise("TypeError", "unsupported operand type(s) for %s: '%s' and '%s'" % (on, tname(l), tname(r)), n)
        if isinstance(r, Instance):
            m, _ = r.cls.lookup("__r%s__" % dn)
            if m is None:
                raise InterpRaise("TypeError", "unsupported operand type(s) for %s: '%s' and '%s'" % (on, tname(l), tname(r)), n)
            return self.call(Bound(m, r), [l], {}, n)
        if isinstance(l, (UnionT,)) and on == "BitOr":
            return l | r
        if isinstance(l, (ClassObj, cm.MatClass, TypingName, GenericT, type)) and on == "BitOr":
            return UnionT((l, r))
        if isinstance(l, Stub) or isinstance(r, Stub):
            return Stub("expr")
        if isinstance(l, MatVal) or isinstance(r, MatVal):
            for x in (l, r):
                if not isinstance(x, MatVal) and not cm.is_number(x) and not isinstance(x, bool):
                    if isinstance(x, (list, tuple)):
                        raise Unsupported("arithmetic between a CasADi value and a Python sequence", n)
                    raise InterpRaise("TypeError", "unsupported operand type(s) for %s: '%s' and '%s'" % (on, tname(l), tname(r)), n)
            if on == "Add":
                return cm.ew(l, r, cm.padd)
            if on == "Sub":
                return cm.ew(l, r, cm.psub)
            if on == "Mult":
                if self.ew_hook is not None and isinstance(l, MatVal) and isinstance(r, MatVal):
                    self.ew_hook(n, self.cur[-1][0] if self.cur else None, l, r, "*")
                return cm.ew(l, r, cm.pmul)
            if on == "Div":
                res = cm.ew(l, r, cm.pdiv)
                if self.op_hook is not None:
                    self.op_hook("/", n, self.cur[-1][0] if self.cur else None, res, list(self.stack))
                return res
            if on == "MatMult":
                return cm.matmul(l, r)
            if on == "Pow":
                res = cm.power(l, r)
                if self.op_hook is not None:
                    self.op_hook("**", n, self.cur[-1][0] if self.cur else None, res, list(self.stack))
                return res
            raise Unsupported("operator %s on CasADi values" % on, n)
        if isinstance(l, str) and on == "Mod":
            return "<str>"
        try:
            if on == "Div":
                if isinstance(l, int) and isinstance(r, int) and not isinstance(l, bool):
                    return Fraction(l, r)
                return l / r
            if on == "Pow":
                if isinstance(r, Fraction) and r.denominator != 1:
                    if r == Fraction(1, 2):
                        return NP.sqrt(l)
                    raise Unsupported("fractional power of a Python number", n)
                if isinstance(r, Fraction):
                    r = int(r)
                return l ** r
            return {"Add": O.add, "Sub": O.sub, "Mult": O.mul, "Mod": O.mod, "FloorDiv": O.floordiv, "BitOr": O.or_, "BitAnd": O.and_}[on](l, r)
        except ZeroDivisionError:
            raise InterpRaise("ZeroDivisionError", "division by zero", n)
        except TypeError as e:
            raise InterpRaise("TypeError", str(e), n)

    def getattr(self, o, k, n=None):
        if isinstance(o, Instance):
            if k in o.attrs:
                return o.attrs[k]
            v, c = o.cls.lookup(k)
            if v is None:
                if k == "__class__":
                    return o.cls
                raise InterpRaise("AttributeError", "'%s' object has no attribute '%s'" % (o.cls.name, k), n)
            if isinstance(v, FuncObj):
                return v if v.is_static else Bound(v, o)
            if isinstance(v, Prop):
                return self.call(Bound(v.f, o), [], {}, n)
            return v
        if isinstance(o, ClassObj):
            if k == "__name__":
                return o.name
            v, c = o.lookup(k)
            if v is None:
                raise InterpRaise("AttributeError", "type object '%s' has no attribute '%s'" % (o.name, k), n)
            return v
        if isinstance(o, MatVal):
            if k == "shape":
                return o.shape
            if k == "T":
                return cm.transpose(o)
            if k == "reshape":
                return lambda *sh: cm.reshape(o, *sh)
            if k == "nonzeros":
                return lambda: [cm.scalar(p, o.kind) for p in o.flat() if p.t]
            if k in ("size1", "rows"):
                return lambda: o.r
            if k in ("size2", "columns"):
                return lambda: o.c
            if k == "numel":
                return lambda: o.r * o.c
            if k == "nnz":
                return lambda: sum(1 for p in o.flat() if p.t)
            if k == "is_scalar":
                return lambda *a: o.is_scalar()
            if k == "is_zero":
                # structural / constant zero: True only when every entry is the zero value number (a symbolic entry is not)
                return lambda: all(not p_.t for p_ in o.flat())
            if k == "sparsity":
                return lambda: SparsityOf(o)
            if k == "name":
                a = o.s().single_atom() if o.is_scalar() else None
                if a is None or a.kind != "sym":
                    raise Unsupported("SX.name() on a non-symbol", n)
                nm = a.symname if a.key[1] is None else "%s_%d" % (a.symname, a.key[1])
                return lambda: nm
            raise Unsupported("SX attribute .%s is not modelled" % k, n)
        if isinstance(o, (cm.FunctionVal, cm.CodeGeneratorVal, cm.SeriesDict, cm.MatClass, NPModel, MathModel, PathVal, PathlibModel, OsModel, OsPathModel, NativeModel, OperatorModel, FunctoolsModel, ItertoolsModel, CollectionsModel)) or o is CA or o is cm.SparsityNS:
            try:
                return getattr(o, k)
            except AttributeError:
                raise Unsupported("casadi/numpy attribute %s is not modelled" % k, n)
        if isinstance(o, ModRef):
            m = self.modules.get(o.name)
            if m is not None and k in m:
                return m[k]
            sub = o.name + "." + k
            if self.fe.module_file(sub) is not None:
                if sub not in self.modules:
                    # attribute access does not import a submodule; it must already be imported
                    raise InterpRaise("AttributeError", "module '%s' has no attribute '%s'" % (o.name, k), n)
                return ModRef(self, sub)
            raise InterpRaise("AttributeError", "module '%s' has no attribute '%s'" % (o.name, k), n)
        if isinstance(o, EnumMember):
            if k in ("name", "value"):
                return getattr(o, k)
            raise InterpRaise("AttributeError", "enum member has no attribute %s" % k, n)
        if isinstance(o, Stub):
            return getattr(o, k)
        if isinstance(o, dict):
            if k in ("items", "keys", "values", "update", "get", "pop", "copy", "setdefault"):
                f = getattr(o, k)
                if k in ("items", "keys", "values"):
                    return lambda: list(f())
                return f
            raise InterpRaise("AttributeError", "'dict' object has no attribute '%s'" % k, n)
        if isinstance(o, list):
            if k in ("append", "extend", "insert", "pop", "index", "copy", "count", "reverse"):
                return getattr(o, k)
            raise InterpRaise("AttributeError", "'list' object has no attribute '%s'" % k, n)
        if isinstance(o, str):
            if k == "format":
                def _fmt(*a, **kw):
                    if all(isinstance(x, (str, int)) and not (isinstance(x, str) and x.startswith("<")) for x in list(a) + list(kw.values())):
                        try:
                            return o.format(*a, **kw)
                        except (ValueError, IndexError, KeyError):
                            return "<str>"
                    return "<str>"
                return _fmt
            if k == "join":
                return lambda it: "<str>"
            try:
                return getattr(o, k)
            except AttributeError:
                raise InterpRaise("AttributeError", "'str' object has no attribute '%s'" % k, n)
        if isinstance(o, (set, frozenset)):
            if k in ("add", "update", "discard", "remove", "union", "intersection", "difference", "copy", "clear", "issubset", "issuperset", "isdisjoint", "pop"):
                return getattr(o, k)
            raise InterpRaise("AttributeError", "'set' object has no attribute '%s'" % k, n)
        if isinstance(o, tuple):
            if k in ("index", "count"):
                return getattr(o, k)
            if hasattr(type(o), "_fields") and (k in type(o)._fields or k in ("_fields", "_replace", "_asdict", "_field_defaults")):
                return getattr(o, k)
        if isinstance(o, type) and issubclass(o, tuple) and hasattr(o, "_fields") and k in ("_fields", "_make", "_field_defaults", "__name__"):
            return getattr(o, k)
        if isinstance(o, (Fraction, int)):
            if k in ("numerator", "denominator", "real", "imag"):
                return getattr(o, k)
        if isinstance(o, FuncObj):
            if k == "__name__":
                return o.name
        if o is None:
            raise InterpRaise("AttributeError", "'NoneType' object has no attribute '%s'" % k, n)
        if isinstance(o, (cm.SeriesFn,)):
            raise Unsupported("attribute of a series function", n)
        raise Unsupported("attribute .%s on %s" % (k, type(o).__name__), n)

    # ---- calls
    def ev_call(self, n, env, module):
        fn = n.func
        if isinstance(fn, ast.Attribute) and isinstance(fn.value, ast.Call) and isinstance(fn.value.func, ast.Name) and fn.value.func.id == "super":
            found, self_ = env.lookup("self")
            _, cur = env.lookup("__class__")
            if not found or cur is None:
                raise Unsupported("super() outside a method", n)
            mro = self_.cls.mro
            f = None
            for c in mro[mro.index(cur) + 1:]:
                if fn.attr in c.ns:
                    f = Bound(c.ns[fn.attr], self_)
                    break
            if f is None:
                if fn.attr == "__init__":
                    self.ev_list(n.args, env, module)
                    return None
                raise InterpRaise("AttributeError", "'super' object has no attribute '%s'" % fn.attr, n)
        elif isinstance(fn, ast.Name) and fn.id == "locals" and not env.lookup("locals")[0]:
            return {k: v for k, v in dict.items(env) if k != "__class__"}
        else:
            f = self.ev(fn, env, module)
        args = self.ev_list(n.args, env, module)
        kw = {}
        for k in n.keywords:
            if k.arg is None:
                d = self.ev(k.value, env, module)
                if not isinstance(d, dict):
                    raise Unsupported("** of a non-dict", n)
                kw.update(d)
            else:
                kw[k.arg] = self.ev(k.value, env, module)
        return self.call(f, args, kw, n, module)

    def call(self, f, args, kw, n=None, module=None):
        self.calls += 1
        if isinstance(f, Bound):
            return self.call_func(f.f, [f.self_] + list(args), kw, n)
        if isinstance(f, FuncObj):
            return self.call_func(f, list(args), kw, n)
        if isinstance(f, ClassObj):
            if f is ENUM or f is ABC:
                raise Unsupported("instantiating %s" % f.name, n)
            for c in f.mro:
                for k, v in c.ns.items():
                    fo = v.f if isinstance(v, Prop) else v
                    if isinstance(fo, FuncObj) and fo.abstract:
                        impl, _ = f.lookup(k)
                        io = impl.f if isinstance(impl, Prop) else impl
                        if io is fo:
                            raise InterpRaise("TypeError", "Can't instantiate abstract class %s with abstract method %s" % (f.name, k), n)
            inst = Instance(f)
            init, _ = f.lookup("__init__")
            if init is not None:
                self.call_func(init, [inst] + list(args), kw, n)
            elif args or kw:
                raise InterpRaise("TypeError", "%s() takes no arguments" % f.name, n)
            return inst
        if isinstance(f, Stub):
            return f(*args, **kw)
        if f is cm.FunctionVal or f is cm.CodeGeneratorVal:
            return f(*args, node=n, module=module or (self.cur[-1][0] if self.cur else None), **kw)
        if isinstance(f, ExcClass):
            return f(*args)
        if f is cm.times and self.ew_hook is not None and len(args) == 2 and all(isinstance(x, MatVal) for x in args):
            self.ew_hook(n, self.cur[-1][0] if self.cur else None, args[0], args[1], "ca.times")
        if isinstance(f, cm.SeriesFn) and self.series_hook is not None and args:
            self.series_hook(n, self.cur[-1][0] if self.cur else None, f, args[0])
        if callable(f):
            if self.op_hook is not None:
                nm = WATCHED.get(id(f))
                if nm is not None:
                    res = f(*args, **kw)
                    if isinstance(res, MatVal):
                        self.op_hook(nm, n, self.cur[-1][0] if self.cur else None, res, list(self.stack))
                    return res
            try:
                return f(*args, **kw)
            except (InterpRaise, Unsupported, _Return):
                raise
            except TypeError as e:
                if "use mat_equal" in str(e):
                    raise Unsupported("container comparison involving CasADi values", n)
                raise Unsupported("call of modelled function %s failed in the model: %s" % (getattr(f, "__name__", f), e), n)
            except (ValueError, IndexError, KeyError, AttributeError, ZeroDivisionError, OverflowError, RecursionError) as e:
                raise Unsupported("call of modelled function %s failed in the model: %s: %s" % (getattr(f, "__name__", f), type(e).__name__, e), n)
        raise InterpRaise("TypeError", "'%s' object is not callable" % tname(f), n)

    def call_func(self, f, args, kw, n):
        summary = self.summaries.get((f.module, f.qualname))
        if summary is not None:
            return summary(self, f, args, kw, n)
        a = f.node.args
        env = {}
        params = [x.arg for x in getattr(a, "posonlyargs", [])] + [x.arg for x in a.args]
        if len(args) > len(params) and not a.vararg:
            raise InterpRaise("TypeError", "%s() takes %d positional arguments but %d were given" % (f.qualname, len(params), len(args)), n)
        for p, v in zip(params, args):
            env[p] = v
        if a.vararg:
            env[a.vararg.arg] = tuple(args[len(params):])
        kw = dict(kw)
        for p in params:
            if p in kw:
                if p in env:
                    raise InterpRaise("TypeError", "%s() got multiple values for argument '%s'" % (f.qualname, p), n)
                env[p] = kw.pop(p)
        denv = f.closure
        ndef = len(a.defaults)
        for p, d in zip(params[len(params) - ndef:], a.defaults):
            if p not in env:
                env[p] = self.ev(d, denv, f.module)
        for ka, d in zip(a.kwonlyargs, a.kw_defaults):
            if ka.arg in kw:
                env[ka.arg] = kw.pop(ka.arg)
            elif d is not None:
                env[ka.arg] = self.ev(d, denv, f.module)
            else:
                raise InterpRaise("TypeError", "%s() missing keyword-only argument '%s'" % (f.qualname, ka.arg), n)
        if a.kwarg:
            env[a.kwarg.arg] = kw
            kw = {}
        if kw:
            raise InterpRaise("TypeError", "%s() got an unexpected keyword argument '%s'" % (f.qualname, sorted(kw)[0]), n)
        missing = [p for p in params if p not in env]
        if missing:
            raise InterpRaise("TypeError", "%s() missing %d required positional argument%s: %s" % (
                f.qualname, len(missing), "s" if len(missing) > 1 else "", ", ".join("'%s'" % m for m in missing)), n)
        if f.beartyped and self.check_beartype and isinstance(f.node, ast.FunctionDef):
            self.beartype_params(f, env, n)
        env["__class__"] = f.cls
        scope = Env(env, f.closure)
        if len(self.stack) > 400:
            raise Unsupported("call depth exceeded (recursion?)", n)
        self.stack.append((f.qualname, f.module, getattr(n, "lineno", 0)))
        if self.trace_calls is not None:
            self.trace_calls(f, env)
        try:
            if isinstance(f.node, ast.Lambda):
                return self.ev(f.node.body, scope, f.module)
            ret = None
            is_gen = getattr(f, "_is_gen", None)
            if is_gen is None:
                is_gen = f._is_gen = _has_own_yield(f.node)
            if is_gen:
                # a generator function: run to completion and hand back what it yielded, in order (the callers iterate it;
                # laziness is not observable for the pure builders this interpreter is given)
                self.yields.append([])
            try:
                self.exec_block(f.node.body, scope, f.module)
            except _Return as r:
                ret = r.v
            finally:
                if is_gen:
                    ret = self.yields.pop()
            if f.beartyped and self.check_beartype and f.node.returns is not None:
                self.beartype_return(f, ret, scope, n)
            return ret
        finally:
            self.stack.pop()

    # ---- beartype (nominal)
    def hint(self, f, ann):
        env = Env({}, f.closure)
        if f.cls is not None:
            env = Env(dict(f.cls.ns), f.closure)
        try:
            if isinstance(ann, ast.Constant) and isinstance(ann.value, str):
                ann = ast.parse(ann.value, mode="eval").body
            return True, self.ev(ann, env, f.module)
        except (InterpRaise, Unsupported, SyntaxError):
            return False, None

    def beartype_params(self, f, env, n):
        a = f.node.args
        for arg in list(a.args) + list(a.kwonlyargs):
            if arg.annotation is None or arg.arg not in env:
                continue
            ok, T = self.hint(f, arg.annotation)
            if not ok:
                continue
            r = type_matches(env[arg.arg], T)
            if r is False:
                raise InterpRaise("BeartypeCallHintParamViolation",
                                  "%s() parameter %s=%s violates type hint %s" % (f.qualname, arg.arg, tname(env[arg.arg]), ast.unparse(arg.annotation)), n)

    def beartype_return(self, f, ret, env, n):
        ok, T = self.hint(f, f.node.returns)
        if not ok:
            return
        r = type_matches(ret, T)
        if r is False:
            raise InterpRaise("BeartypeCallHintReturnViolation",
                              "%s() return %s violates type hint %s" % (f.qualname, tname(ret), ast.unparse(f.node.returns)), f.node, module=f.module)


def env_module_name(env):
    e = env
    while e is not None:
        if dict.__contains__(e, "__name__") and getattr(e, "is_module", False):
            return dict.__getitem__(e, "__name__")
        e = getattr(e, "parent", None)
    return None


def tname(v):
    if isinstance(v, Instance):
        return v.cls.name
    if isinstance(v, MatVal):
        return {"SX": "casadi.SX", "DM": "casadi.DM", "PY": "float"}[v.kind]
    if isinstance(v, Fraction):
        return "float"
    if isinstance(v, ClassObj):
        return "type[%s]" % v.name
    if isinstance(v, (FuncObj, Bound)):
        return "function"
    return type(v).__name__


def type_matches(v, T):
    """True / False / None (unknown).  Nominal model of a beartype/isinstance check."""
    if isinstance(v, Stub) or isinstance(T, Stub):
        return None
    if T is _int:
        T = int
    elif T is _float:
        T = float
    elif T is _str:
        T = str
    if T is None or T is type(None):
        return v is None
    if isinstance(T, UnionT):
        rs = [type_matches(v, m) for m in T.members]
        if any(r is True for r in rs):
            return True
        if all(r is False for r in rs):
            return False
        return None
    if isinstance(T, tuple):
        return type_matches(v, UnionT(T))
    if isinstance(T, ClassObj):
        if T is OBJECT:
            return True
        if isinstance(v, Instance):
            return v.cls.is_sub(T)
        if isinstance(v, EnumMember):
            return v.cls.is_sub(T)
        return False
    if isinstance(T, cm.MatClass):
        if isinstance(v, MatVal):
            if v.kind == "PY":
                return False
            return v.kind == T.name
        return False
    if isinstance(T, GenericT):
        o = T.origin
        if o in ("List", "list"):
            return isinstance(v, list)
        if o in ("Tuple", "tuple"):
            if not isinstance(v, tuple):
                return False
            if T.args and T.args[-1] is not Ellipsis and len(T.args) != len(v):
                return False
            return True
        if o in ("Dict", "dict"):
            return isinstance(v, dict)
        if o == "Callable":
            return isinstance(v, (FuncObj, Bound, ClassObj)) or callable(v)
        return None
    if isinstance(T, TypingName):
        if T.name == "Any":
            return True
        if T.name == "Callable":
            return isinstance(v, (FuncObj, Bound, ClassObj)) or callable(v)
        if T.name in ("List",):
            return isinstance(v, list)
        if T.name in ("Tuple",):
            return isinstance(v, tuple)
        if T.name in ("Dict",):
            return isinstance(v, dict)
        return None
    if T is int:
        return isinstance(v, int)
    if T is float:
        return isinstance(v, Fraction) or (isinstance(v, MatVal) and v.kind == "PY") or isinstance(v, float)
    if T is bool:
        return isinstance(v, bool)
    if T is str:
        return isinstance(v, str)
    if T in (list, dict, tuple, set):
        return isinstance(v, T)
    if T is object:
        return True
    return None


def _isinstance(v, T):
    r = type_matches(v, T)
    if r is None:
        raise Unsupported("isinstance(%s, %r) cannot be decided" % (tname(v), T))
    return r


def _hasattr(o, k):
    if isinstance(o, Instance):
        return k in o.attrs or o.cls.lookup(k)[0] is not None
    if isinstance(o, ClassObj):
        return o.lookup(k)[0] is not None
    if isinstance(o, Stub):
        raise Unsupported("hasattr on unmodelled value")
    if isinstance(o, MatVal):
        raise Unsupported("hasattr on CasADi value")
    return hasattr(o, k)


def _len(x):
    if isinstance(x, MatVal):
        raise Unsupported("len() of a CasADi matrix")
    if isinstance(x, Stub):
        raise Unsupported("len() of unmodelled value")
    return len(x)


def _unmodel_type(k):
    """the builtin names int / float / str are model functions here; as dictionary keys (exact-type tables) they stand for
    the Python types that type(x) returns"""
    return {id(_int): int, id(_float): float, id(_str): str}.get(id(k), k)


def _has_own_yield(fn_node):
    """fn_node's own body contains yield (nested function definitions and lambdas not counted)"""
    stack = list(getattr(fn_node, "body", [])) if not isinstance(getattr(fn_node, "body", None), ast.AST) else []
    while stack:
        x = stack.pop()
        if isinstance(x, (ast.Yield, ast.YieldFrom)):
            return True
        if isinstance(x, (ast.FunctionDef, ast.AsyncFunctionDef, ast.Lambda, ast.ClassDef)):
            continue
        stack.extend(ast.iter_child_nodes(x))
    return False


def _str(x=""):
    if isinstance(x, type) and issubclass(x, NativeModel):
        return x.__name__          # sympy prints a function class by its name: str(type(sin(x))) == "sin"
    if isinstance(x, NativeModel):
        return str(x)
    return x if isinstance(x, str) else x.s if isinstance(x, PathVal) else "<str>"


def _type(o):
    if isinstance(o, Instance):
        return o.cls
    if isinstance(o, MatVal):
        return cm.SX if o.kind == "SX" else cm.DM if o.kind == "DM" else float
    return type(o)


def _int(x=0):
    if isinstance(x, MatVal):
        cv = x.s().const_value() if x.is_scalar() else None
        if cv is None:
            raise Unsupported("int() of a symbolic value")
        return int(cv)
    return int(x)


def _float(x=0):
    if isinstance(x, MatVal):
        cv = x.s().const_value() if x.is_scalar() else None
        if cv is None:
            if x.kind == "PY":
                return x
            raise InterpRaise("RuntimeError", "float() of a symbolic value")
        return cv
    if isinstance(x, Fraction):
        return x
    if isinstance(x, int):
        return Fraction(x)
    if isinstance(x, str):
        return cm.to_frac(float(x))
    if isinstance(x, NativeModel) and hasattr(x, "__float__"):
        return cm.to_frac(float(x))
    raise Unsupported("float(%s)" % tname(x))


def _sum(it, start=0):
    out = start
    for x in it:
        if isinstance(out, MatVal) or isinstance(x, MatVal):
            out = cm.ew(out, x, cm.padd)
        else:
            out = out + x
    return out


def _abs(x):
    if isinstance(x, MatVal):
        return cm.unop("fabs")(x)
    return abs(x)


def _range(*a):
    for x in a:
        if not isinstance(x, int) or isinstance(x, bool):
            if isinstance(x, Fraction) and x.denominator == 1:
                continue
            raise InterpRaise("TypeError", "'%s' object cannot be interpreted as an integer" % tname(x))
    return range(*[int(x) for x in a])


def _minmax(f):
    def g(*a, **k):
        vals = a[0] if len(a) == 1 else a
        if any(isinstance(x, MatVal) for x in vals):
            raise Unsupported("min/max over CasADi values")
        return f(*a, **k)
    return g


WATCHED = {id(getattr(CA, k)): k for k in ("sqrt", "norm_2", "acos", "asin", "atan2", "inv", "norm_fro", "fabs", "sign", "log", "power")}
WATCHED[id(NP.sqrt)] = "sqrt"

PROPERTY = object()
BEARTYPE = object()
ABSTRACT = object()
STATICMETHOD = object()
NOTIMPL = object()

BUILTINS = {
    "range": _range, "len": _len, "zip": lambda *a: list(zip(*a)), "enumerate": lambda x, start=0: list(enumerate(x, start)),
    "isinstance": _isinstance, "print": lambda *a, **k: None, "str": _str, "repr": lambda x: "<repr>",
    "int": int, "float": float, "bool": bool, "list": list, "tuple": tuple, "dict": dict, "set": set, "object": OBJECT,
    "sum": _sum, "hasattr": _hasattr, "type": _type, "reversed": lambda x: list(reversed(x)), "abs": _abs,
    "min": _minmax(min), "max": _minmax(max), "sorted": sorted, "any": any, "all": all, "round": round,
    "property": PROPERTY, "staticmethod": STATICMETHOD, "NotImplemented": NOTIMPL, "Ellipsis": Ellipsis,
    "True": True, "False": False, "None": None, "callable": callable, "id": id, "map": lambda f, *a: [f(*x) for x in zip(*a)],
    "eval": Stub("eval"), "open": Stub("open"), "input": Stub("input"), "iter": iter, "next": next, "getattr": None, "setattr": None,
    "frozenset": frozenset, "divmod": divmod, "pow": pow, "chr": chr, "ord": ord, "format": lambda *a: "<str>",
}
for _e in ("NotImplementedError", "ValueError", "TypeError", "KeyError", "RuntimeError", "AssertionError", "Exception",
           "IndexError", "AttributeError", "ZeroDivisionError", "ImportError", "OSError", "StopIteration", "NameError"):
    BUILTINS[_e] = ExcClass(_e)
BUILTINS["slice"] = slice
BUILTINS["int"] = _int
BUILTINS["float"] = _float
del BUILTINS["getattr"], BUILTINS["setattr"]
